"""C09 — RMC framing: correspondence of RMCMessage.encode/decode with the Lean model,
reference-framing comparison, and the property oracle on the real code."""
import struct
from nintendo.nex import rmc, settings as nexsettings

LEVEL = "proof"

def exc_name(e):
    if isinstance(e, struct.error): return "StructError"
    if isinstance(e, OverflowError): return "OverflowError"
    if isinstance(e, ValueError): return "ValueError"
    if isinstance(e, TypeError): return "TypeError"
    if isinstance(e, IndexError): return "IndexError"
    if isinstance(e, KeyError): return "KeyError"
    return "Other"

def hx(b): return b.hex() if b else "-"

S = nexsettings.default()

def real_enc(mode, protocol, method, call_id, error, body):
    m = rmc.RMCMessage(S)
    m.mode, m.protocol, m.method, m.call_id, m.error, m.body = mode, protocol, method, call_id, error, body
    try:
        return "ok " + hx(m.encode())
    except Exception as e:
        return "err " + exc_name(e)

def real_dec(data):
    try:
        m = rmc.RMCMessage.parse(S, data)
    except Exception as e:
        return "err " + exc_name(e)
    return "ok %d %d %s %d %d %s" % (m.mode, m.protocol, "none" if m.method is None else str(m.method), m.call_id, m.error, hx(m.body))

PROTO_EDGE = [0, 1, 0x7D, 0x7E, 0x7F, 0x80, 0x81, 0xFE, 0xFF, 0x100, 0x7FFF, 0x8000, 0xFFFE, 0xFFFF]
U32_EDGE = [0, 1, 0x7FFF, 0x8000, 0xFFFF, 0x10000, 0x7FFFFFFF, 0x80000000, 0xFFFFFFFF]

def gen_body(rng, big=False):
    r = rng.random()
    if r < 0.25: n = 0
    elif r < 0.85: n = rng.randint(1, 40)
    elif r < 0.98 or not big: n = rng.randint(41, 600)
    else: n = rng.choice([65535, 65536, 40000])
    return rng.randbytes(n)

def gen_spec(rng, big=False):
    """a well-formed message in the property's quantifier: (form, protocol, call, method_or_code, body)"""
    form = rng.choice(["req", "ok", "err"])
    p = rng.choice(PROTO_EDGE) if rng.random() < 0.5 else rng.randint(0, 0xFFFF)
    c = rng.choice(U32_EDGE) if rng.random() < 0.4 else rng.randint(0, 0xFFFFFFFF)
    if form == "req":
        m = rng.choice(U32_EDGE) if rng.random() < 0.4 else rng.randint(0, 0xFFFFFFFF)
    elif form == "ok":
        m = rng.choice([0, 1, 0x7FFE, 0x7FFF]) if rng.random() < 0.4 else rng.randint(0, 0x7FFF)
    else:
        m = rng.choice([0x80000000, 0x80010002, 0xFFFFFFFF]) if rng.random() < 0.4 else rng.randint(0x80000000, 0xFFFFFFFF)
    body = b"" if form == "err" else gen_body(rng, big)
    return (form, p, c, m, body)

def spec_fields(sp):
    form, p, c, m, body = sp
    if form == "req": return (0, p, m, c, -1, body)
    if form == "ok": return (1, p, m, c, -1, body)
    return (1, p, None, c, m, b"")

def build(sp):
    form, p, c, m, body = sp
    if form == "req": return rmc.RMCMessage.request(S, p, m, c, body)
    if form == "ok": return rmc.RMCMessage.response(S, p, m, c, body)
    return rmc.RMCMessage.error(S, p, None, c, m)

def oracle_roundtrip(sp):
    """property on the real code: decode(encode(m)) preserves every field. Returns None or a description."""
    try:
        data = build(sp).encode()
        m = rmc.RMCMessage.parse(S, data)
    except Exception as e:
        return "encode/decode raised %r" % (e,)
    mode, p, meth, c, err, body = spec_fields(sp)
    got = (m.mode, m.protocol, m.method, m.call_id, m.error, m.body)
    if got != (mode, p, meth, c, err, body):
        return "round trip changed the message: sent %r got %r" % ((mode, p, meth, c, err, body[:16]), (got[:5] + (got[5][:16],)))
    return None

def run(ctx):
    rng = ctx.rng
    drv = ctx.driver()
    quick = ctx.tier == "quick"
    ctx.rule = ("messages generated over protocol/method/call-id/error boundaries and random values, bodies 0..64KiB; "
                "each is encoded by the real RMCMessage and by the Lean model (enc), compared with the Lean reference framing (spec), "
                "decoded by both (dec); plus all truncations and length-prefix perturbations of sampled valid messages and random byte strings. "
                "distinct non-trivial = distinct (op,input) lines whose model result is not a trivial rejection of random bytes")
    specs = []
    # exhaustive protocol axis for a fixed small body (all three forms)
    protos = range(0, 0x10000) if not quick else list(range(0, 0x200)) + list(range(0xFF00, 0x10000)) + [rng.randint(0x200, 0xFEFF) for _ in range(512)]
    for p in protos:
        specs.append(("req", p, 9, 5, b"\x01\x02"))
        specs.append(("ok", p, 9, 5, b"\x01"))
        specs.append(("err", p, 9, 0x80010002, b""))
    for _ in range(3000 if quick else 60000):
        specs.append(gen_spec(rng, big=not quick or rng.random() < 0.05))
    # the top of the body range of the quantifier (0..64 KiB): every size at which header + body crosses a 16-bit boundary,
    # for both header widths of requests and success responses, plus bodies well beyond
    for form, p in (("req", 10), ("req", 0x7F), ("ok", 10), ("ok", 0x1234)):
        for n in list(range(65519, 65537)) + [70000, 131072]:
            specs.append((form, p, 0xFFFFFFFF if n % 2 else 7, 0x7FFF if form == "ok" else 3, bytes([n & 0xFF]) * n))
    lines, reals, meta = [], [], []
    def add(line, real, m):
        lines.append(line); reals.append(real); meta.append(m)
    # 1. enc / spec / dec on well-formed messages
    valid_encodings = []
    for sp in specs:
        mode, p, meth, c, err, body = spec_fields(sp)
        r = real_enc(mode, p, meth, c, err, body)
        add("enc %d %d %s %d %d %s" % (mode, p, "none" if meth is None else meth, c, err, hx(body)), r, ("enc", sp))
        form, _, _, m, _ = sp
        add("spec %s %d %d %d %s" % (form, p, c, m, hx(body)), r, ("spec", sp))
        if r.startswith("ok "):
            data = bytes.fromhex(r[3:]) if r[3:] != "-" else b""
            add("dec " + hx(data), real_dec(data), ("dec", sp))
            if len(data) < 200: valid_encodings.append(data)
    # 2. raw message objects outside the well-formed set (model must mirror the code's behaviour too)
    for _ in range(1500 if quick else 20000):
        mode = rng.choice([0, 1, 1, 2])
        p = rng.choice(PROTO_EDGE + [0x10000, 0x12345])
        meth = rng.choice([None, 0, 5, 0x7FFF, 0x8000, 0x8005, 0xFFFF7FFF, 0xFFFFFFFF, 0x100000000])
        c = rng.choice(U32_EDGE + [0x100000000])
        err = rng.choice([-1, -1, 0, 5, 0x10001, 0x7FFFFFFF, 0x80000000, 0x80010002, 0xFFFFFFFF, 0x100000000, 0x180000000, -2, -0x80000000])
        body = gen_body(rng)
        add("enc %d %d %s %d %d %s" % (mode, p, "none" if meth is None else meth, c, err, hx(body)),
            real_enc(mode, p, meth, c, err, body), ("encraw", (mode, p, meth, c, err)))
    # 3. truncations, perturbations, trailing bytes
    rng.shuffle(valid_encodings)
    trunc_src = valid_encodings[: (60 if quick else 500)]
    for data in trunc_src:
        for k in range(len(data)):
            add("dec " + hx(data[:k]), real_dec(data[:k]), ("trunc", (data, k)))
        (ln,) = struct.unpack_from("<I", data)
        for d in [1, -1, 2, -2, 4, 256, 65536, 1 << 24, -(1 << 16)]:
            nl = ln + d
            if 0 <= nl < 1 << 32:
                pd = struct.pack("<I", nl) + data[4:]
                add("dec " + hx(pd), real_dec(pd), ("perturb", (data, d)))
        for extra in [b"\0", b"\x01\x02", rng.randbytes(rng.randint(1, 9))]:
            add("dec " + hx(data + extra), real_dec(data + extra), ("append", (data, extra)))
            # trailing bytes inside a consistent frame
            pd = struct.pack("<I", ln + len(extra)) + data[4:] + extra
            add("dec " + hx(pd), real_dec(pd), ("inner-append", (data, extra)))
    # 4. random / mutated bytes
    for _ in range(2000 if quick else 50000):
        if valid_encodings and rng.random() < 0.7:
            d = bytearray(rng.choice(valid_encodings))
            for _ in range(rng.randint(1, 3)):
                if d: d[rng.randrange(len(d))] ^= 1 << rng.randrange(8)
            d = bytes(d)
        else:
            d = rng.randbytes(rng.randint(0, 24))
        add("dec " + hx(d), real_dec(d), ("mut", d))

    outs = drv.batch(lines)
    diffs = []
    for line, real, model, m in zip(lines, reals, outs, meta):
        nontrivial = not (m[0] == "mut" and model.startswith("err"))
        ctx.case(key=line if len(line) < 60 else hash(line), nontrivial=nontrivial, tag=m[0] + ":" + model.split(" ")[0] + (":" + model.split(" ")[1] if model.startswith("err") else ""),
                 sample={"op": line[:120], "model": model[:120], "real": real[:120]} if ctx.evaluations % 9973 == 0 else None)
        if real != model:
            diffs.append((line, real, model, m))
    ctx.traces_validated = len(lines)

    # property oracle on the real code
    fails = 0
    for sp in specs:
        why = oracle_roundtrip(sp)
        if why:
            form, p, c, m, body = sp
            fails += 1
            key = "rmc-roundtrip:protocol=0x7F" if p == 0x7F else "rmc-roundtrip:%s:p=%#x" % (form, p)
            ctx.violation(key, "RMC round trip fails on the real code: " + why,
                          {"form": form, "protocol": p, "call_id": c, "method_or_code": m, "body": body.hex(), "why": why,
                           "how": "rmc.RMCMessage.parse(S, RMCMessage.<form>(...).encode())"})
            if fails > 20: break
    # strictness oracle: truncations / perturbations / appended bytes must be rejected by the real code
    for line, real, m in zip(lines, reals, meta):
        if m[0] in ("trunc", "perturb", "append") and not real.startswith("err"):
            ctx.violation("rmc-strict:%s" % m[0], "real decoder accepted a %s message: %s -> %s" % (m[0], line[:80], real[:80]),
                          {"op": line, "real": real, "kind": m[0]})
        if m[0] == "inner-append" and real.startswith("ok 1 ") and " none " in real:
            ctx.violation("rmc-strict:error-trailing", "real decoder accepted an error response with trailing bytes",
                          {"op": line, "real": real})
        if m[0] == "spec" and real != outs[lines.index(line)] if False else False:
            pass
    # reference framing: real bytes vs Lean spec
    for line, real, model, m in diffs:
        if m[0] == "spec":
            sp = m[1]
            ctx.violation("rmc-reference:%s:p=%#x" % (sp[0], sp[1]) if sp[1] != 0x7F else "rmc-roundtrip:protocol=0x7F",
                          "bytes emitted by the real encoder differ from the reference framing",
                          {"spec": [sp[0], sp[1], sp[2], sp[3], sp[4].hex()], "real": real, "reference": model})
        elif m[0] == "encraw" and model.startswith("ok") and real.startswith("ok"):
            # a message object with in-range fields (e.g. a response object that carries an error code AND a body, as a server
            # produces when a handler fails after writing part of its output): its bytes are fixed by the reference framing too
            mode, p_, meth, c_, err = m[1]
            ctx.violation("rmc-reference:object:mode=%d:error=%s" % (mode, "set" if err != -1 else "none"),
                          "bytes emitted by the real encoder for a message object (mode %d, protocol %#x, method %r, call id %d, error %#x) differ from the reference framing" % (mode, p_, meth, c_, err & 0xFFFFFFFF),
                          {"object": [mode, p_, meth, c_, err], "op": line[:4000], "real": real[:4000], "reference": model[:4000]})
    if diffs and not ctx.violations and not ctx.known_hits:
        line, real, model, m = diffs[0]
        ctx.corr_break("rmc-model-correspondence", "real RMCMessage and Lean model disagree on %d of %d lines" % (len(diffs), len(lines)),
                       {"first_op": line, "real": real, "model": model, "theorems_no_longer_tied": ["Nx.C09.rmc_roundtrip", "Nx.C09.rmc_encode_is_reference"]})
    ctx.extra["correspondence_lines"] = len(lines)
    ctx.extra["correspondence_diffs"] = len(diffs)
    ctx.extra["protocol_axis_exhaustive"] = not quick
