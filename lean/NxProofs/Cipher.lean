import NxProofs.Channel
/-! RC4-like stream ciphers satisfy `CipherOk` for every key stream -/
namespace Nx.Chan
open Nx

/-- xor with the key stream starting at position `p` (what ARC4 does with its running state) -/
def xorAt (ks : Nat → UInt8) (p : Nat) : Bytes → Bytes
  | [] => []
  | x :: r => (x ^^^ ks p) :: xorAt ks (p + 1) r

def xorCipher (ks : Nat → UInt8) : Cipher := ⟨xorAt ks, xorAt ks⟩

theorem xorAt_involutive (ks : Nat → UInt8) : ∀ (x : Bytes) (p : Nat), xorAt ks p (xorAt ks p x) = x := by
  intro x
  induction x with
  | nil => intro p; rfl
  | cons a r ih =>
    intro p
    simp only [xorAt, ih]
    congr 1
    rw [UInt8.xor_assoc, UInt8.xor_self, UInt8.xor_zero]

theorem xorAt_length (ks : Nat → UInt8) : ∀ (x : Bytes) (p : Nat), (xorAt ks p x).length = x.length := by
  intro x
  induction x with
  | nil => intro p; rfl
  | cons a r ih => intro p; simp [xorAt, ih]

theorem xorCipher_ok (ks : Nat → UInt8) : CipherOk (xorCipher ks) := by
  refine ⟨fun p x => xorAt_involutive ks x p, ?_⟩
  intro p x hx hc
  have := xorAt_length ks x p
  have h0 : (xorAt ks p x).length = 0 := by
    show ((xorCipher ks).enc p x).length = 0
    rw [hc]; rfl
  rw [h0] at this
  exact hx (List.eq_nil_of_length_eq_zero this.symm)

/-- no cipher at all (lite / stream transports) -/
def idCipher : Cipher := ⟨fun _ x => x, fun _ x => x⟩

theorem idCipher_ok : CipherOk idCipher := ⟨fun _ _ => rfl, fun _ _ h => h⟩

end Nx.Chan
