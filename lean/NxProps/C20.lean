import NxProofs.ApiInventory
import NxProofs.ApiSettings
import NxProofs.ApiSetters
import NxProofs.ApiWire
import NxProofs.ApiSetSeq
import NxProofs.ApiReject
/-!
# C20 — the documented public API exists and every documented knob takes effect

* **Inventory** (generated, per reference page, on every run): `coversM documented actual = true` and
  `namesAgreeM documented actual = true` by `decide +kernel` over the Nat-coded tables the translators
  (`tools/api_docs.py`, `tools/api_actual.py`) emit; the lifting theorems below say what a `true` means.
* **Settings** (`NxModel/Api/Settings.lean`): typed `__setitem__`, unknown key rejected, `copy()` independent;
  generated obligations: the translated `field_types` equals the model's key table, the four shipped `.cfg`
  files load (on top of `default`) to fully typed tables, `default.cfg` loads to `Nx.Api.defaults`.
* **Effects** (`NxModel/Api/Effects.lean`, `Legacy.lean`, `NxModel/Switch/*`): for every settings key and every
  setter an explicit pair of values whose observations differ.  A model that mirrors the code cannot prove an
  effect the code does not have: for `prudp.encryption` the *negation* is the theorem (defect D8, open finding).
  `nasc.set_sdk_version` (D7) and `HppClient()` (D6) are modelled **as repaired** by the proposed one-line fixes;
  the check reports the unrepaired tree through the correspondence and the oracle (known findings).
Statements only; proofs in `NxProofs/Api*.lean`.
-/
namespace Nx.C20
open Nx Nx.Api Nx.Http Nx.Switch

/-! ## inventory: what the generated Bool obligations mean -/

/-- every documented signature has a code signature of the same module / class / name and kind that accepts the
    documented call shape -/
theorem covers_lifts {D : List Sig} {A : List ASig} (h : covers D A = true) : ∀ d ∈ D, ∃ a ∈ A, sigMatches d a = true :=
  covers_sound h

theorem coversM_lifts {D : List Sig} {A : List ASig} (h : coversM D A = true) : ∀ d ∈ D, ∃ a ∈ A, sigMatches d a = true :=
  covers_sound (coversM_covers h)

/-- documented positional parameter names equal the code's (the keyword reading) -/
theorem names_lift {D : List Sig} {A : List ASig} (h : namesAgreeM D A = true) : NamesSpec D A :=
  names_spec (namesAgreeM_namesAgree h)

/-- the failing-input search is complete: no uncovered signature is reported iff the obligation holds -/
theorem first_uncovered_complete (D : List Sig) (A : List ASig) : firstUncovered D A = none ↔ covers D A = true :=
  firstUncovered_none_iff D A

/-! ## settings_typed_copy_independent -/

/-- `settings[name] = value` stores a value of the declared type under exactly that key -/
theorem settings_setitem_typed {s s' : Settings} {name : List Char} {v : PyVal} (h : s.setitem name v = .ok s') :
    ∃ k x, Key.ofChars? name = some k ∧ s' k = some x ∧ x.ty = k.ty ∧ ∀ k', k' ≠ k → s' k' = s k' :=
  setitem_typed h

/-- an unknown name is a `KeyError` for both assignment and lookup (nothing is stored) -/
theorem settings_unknown_key_rejected (s : Settings) (name : List Char) (v : PyVal) (h : Key.ofChars? name = none) :
    s.setitem name v = .error .key ∧ s.getitem name = .error .key :=
  ⟨setitem_unknown s name v h, getitem_unknown s name h⟩

theorem settings_known_names (k : Key) : Key.ofChars? k.name.toList = some k := ofChars_name k

/-- `copy()` is a new object with the same contents; assigning through either leaves the other unchanged -/
theorem settings_copy_independent (h : Heap) (r : Nat) (hr : r < h.length) (name : List Char) (v : PyVal) :
    ((h.copy r).2 ≠ r ∧ Heap.get (h.copy r).1 (h.copy r).2 = Heap.get h r) ∧
    (∀ h', (h.copy r).1.setitem (h.copy r).2 name v = .ok h' → Heap.get h' r = Heap.get h r) ∧
    (∀ h', (h.copy r).1.setitem r name v = .ok h' → Heap.get h' (h.copy r).2 = Heap.get h r) :=
  ⟨⟨(copy_fresh h r hr).1, (copy_fresh h r hr).2.1⟩, copy_independent h r hr name v⟩

example : Key.ofChars? "prudp.bogus".toList = none := by decide
example : ((Settings.empty.setitem "prudp.version".toList (.str " 1 ".toList)).map fun s => s .prudpVersion) = .ok (some (.int 1)) := by decide
example : ((Settings.empty.setitem "prudp.version".toList (.str "x".toList)).map fun s => s .prudpVersion) = .error .value := by decide

/-! ## every setting takes effect (explicit witnesses), except the one nobody reads -/

theorem setting_takes_effect (k : Key) (hk : k ≠ .prudpEncryption) :
    ∃ v₁ v₂, observe (defaults.set k v₁) ≠ observe (defaults.set k v₂) :=
  ⟨(witness k).1, (witness k).2, setting_effect k hk⟩

/-- D8: `prudp.encryption` is documented but consulted by no consumer -/
theorem prudp_encryption_has_no_effect (s : Settings) (v₁ v₂ : Val) :
    observe (s.set .prudpEncryption v₁) = observe (s.set .prudpEncryption v₂) :=
  encryption_no_effect s v₁ v₂

/-! ## every setter of every HTTP client takes effect -/

theorem dauth_setters_effect (s : Dauth) (a b : String) (hne : a ≠ b) (cid : Nat) (ch mac : String) :
    hostsOf (({ s with host := a }).call .challenge) ≠ hostsOf (({ s with host := b }).call .challenge) ∧
    hdrOf "X-Nintendo-PowerState" (({ s with powerState := a }).call .challenge) ≠ hdrOf "X-Nintendo-PowerState" (({ s with powerState := b }).call .challenge) ∧
    formOf "ist" (({ s with region := 1 }).call (.deviceToken cid ch mac)) ≠ formOf "ist" (({ s with region := 2 }).call (.deviceToken cid ch mac)) :=
  ⟨(dauth_set_host s a b hne).1, dauth_set_power_state s a b hne, dauth_set_platform_region s cid ch mac⟩

theorem aauth_setters_effect (s : Aauth) (a b : String) (hne : a ≠ b) (t v : Nat) (tok : String) :
    hostsOf (({ s with host := a }).call (.challenge tok)) ≠ hostsOf (({ s with host := b }).call (.challenge tok)) ∧
    hdrOf "X-Nintendo-PowerState" (({ s with powerState := a }).call (.authSystem t v tok)) ≠
      hdrOf "X-Nintendo-PowerState" (({ s with powerState := b }).call (.authSystem t v tok)) :=
  ⟨aauth_set_host s a b hne tok, aauth_set_power_state s a b hne t v tok⟩

theorem baas_setters_effect (s : Baas) (u : String) (hu : fmtS s.ua "nnAccount" = .ok u) (a b : String) (hne : a ≠ b) (tok : String) :
    hostsOf (({ s with host := a }).call (.authenticate tok none)) ≠ hostsOf (({ s with host := b }).call (.authenticate tok none)) ∧
    hdrOf "X-Nintendo-PowerState" (({ s with powerState := a }).call (.authenticate tok none)) ≠
    hdrOf "X-Nintendo-PowerState" (({ s with powerState := b }).call (.authenticate tok none)) :=
  baas_set_host_power s u hu a b hne tok

theorem five_dragons_sun_atumn_host_effect (T : Tables) (f : Five) (d : Dragons) (ua : String) (hd : d.uaNim = some ua) (n : Nim)
    (a b : String) (hne : a ≠ b) (tok cid : String) (uid : Nat) :
    hostsOf (Five.call T { f with host := a } (.getInbox tok uid)) ≠ hostsOf (Five.call T { f with host := b } (.getInbox tok uid)) ∧
    hostsOf (({ d with hostDragons := a }).call (.publishDeviceLinkedElicenses tok)) ≠ hostsOf (({ d with hostDragons := b }).call (.publishDeviceLinkedElicenses tok)) ∧
    hostsOf (({ n with host := a }).sunCall .systemUpdateMeta) ≠ hostsOf (({ n with host := b }).sunCall .systemUpdateMeta) ∧
    hostsOf (({ n with host := a }).atumnCall (.downloadContent cid)) ≠ hostsOf (({ n with host := b }).atumnCall (.downloadContent cid)) :=
  ⟨five_set_host T f a b hne tok uid, dragons_set_hosts d ua hd a b hne tok, (nim_set_host n a b hne cid).1, (nim_set_host n a b hne cid).2⟩
/- `set_system_version` of the seven Switch clients: `Nx.C18.set_version_atomic` / `values_are_that_versions_*`. -/

/-- nnas: each of the ten setters changes the url or a header of `login` for the two listed values -/
theorem nnas_setters_take_effect : nnasWitness.all (fun p => nnasObs (Nnas.apply {} p.1) != nnasObs (Nnas.apply {} p.2)) = true :=
  nnas_setters_effect

/-- nasc: each of the ten setters changes the url, a header or a form field of `login` (with `set_sdk_version`
    modelled as repaired — D7) -/
theorem nasc_setters_take_effect : nascWitness.all (fun p => nascObs (nascBase.apply p.1) != nascObs (nascBase.apply p.2)) = true :=
  nasc_setters_effect

/-! ### … for every value, not only for the two witnesses

The witnesses above show *that* a setter has an effect.  The statements below say *where* the arguments go and hold for
all values of the arguments — 0, the empty string and the largest value of the field are not special — and for every
public call, and after any later setter of another attribute group.  The check asks the real client the same question
for the boundary values of every parameter (harness/api_boundary.py). -/

/-- nnas: after `set_x(args)` every prepared request carries `args` in the documented headers -/
theorem nnas_setter_argument_carried (s : Nnas) (st : NnasSet) (auth cert : Option String) :
    ∀ f ∈ st.fields, f ∈ (s.apply st).prepare auth cert :=
  nnas_setter_carried s st auth cert

/-- … `login` additionally carries the device certificate -/
theorem nnas_login_argument_carried (s : Nnas) (st : NnasSet) (u p : String) (t : Option String) :
    ∀ f ∈ st.fields ++ st.loginFields, f ∈ ((s.apply st).login u p t).2.headers :=
  nnas_login_carried s st u p t

/-- … and a later setter of another group leaves it in place -/
theorem nnas_setter_argument_persists (s : Nnas) (st st' : NnasSet) (h : st.kind ≠ st'.kind) (auth cert : Option String) :
    ∀ f ∈ st.fields, f ∈ ((s.apply st).apply st').prepare auth cert :=
  nnas_setter_persists s st st' h auth cert

/-- setter sequences on one object: a later call of the same setter replaces everything the earlier call configured — an
    optional argument given earlier and omitted later is the default again (`cert := none`), nothing stale survives.
    (harness/c20_optseq.py asks the real client this for every spelling of the two calls.) -/
theorem nnas_setter_last_call_wins (s : Nnas) (st st' : NnasSet) (h : st.kind = st'.kind) :
    (s.apply st).apply st' = s.apply st' :=
  nnas_last_call_wins s st st' h

example : ((({} : Nnas).apply (.device 1 "SER1" 0x260 (some "certA"))).apply (.device 2 "SER2" 0x270 none)).deviceCert = none := rfl

/-- the same for nasc (`set_title` may refuse: the statement is about the accepted first call) -/
theorem nasc_setter_last_call_wins (s s₁ : Nasc) (st st' : NascSet) (h : st.kind = st'.kind) (h₁ : s.apply st = .ok s₁) :
    s₁.apply st' = s.apply st' :=
  nasc_last_call_wins s s₁ st st' h h₁

example : ∃ s₁, ({ bssId := "aabbcc" } : Nasc).apply (.title 0x0004000000030800 1 "AAAA" "07" 2 (some "romA")) = .ok s₁ ∧
    (s₁.apply (.title 0x0004000000030900 2 "----" "00" 0 none)).toOption.map (·.romId) = some none := ⟨_, rfl, rfl⟩

/-- a REJECTED setter call (the exception caught) leaves the client as it was: from any history of setter calls on one client the
    rejected calls can be deleted without changing the client — hence every later request is the request of a client that never saw
    them. (`Nasc.apply` is `Except`-valued, so "no partial write" is how the model is built; the statement is the specification the
    real client is held to by harness/c20_reject.py, which finds the rejected values itself. Switch clients: `Nx.C18.set_version_atomic`.) -/
theorem nasc_rejected_setter_changes_nothing (s : Nasc) (l : List NascSet) :
    l.foldl Nasc.applyCaught s = (l.filter fun st => !st.refused).foldl Nasc.applyCaught s :=
  nasc_history_without_rejected s l

/-- the refused calls are exactly the ones `apply` raises on, whatever the client's state -/
theorem nasc_rejected_iff_refused (s : Nasc) (st : NascSet) : (∃ e, s.apply st = .error e) ↔ st.refused = true :=
  nasc_refused_iff s st

example : ([NascSet.title 0x0004000000030800 1 "AAAA" "07" 1 (some "romA"), .title 0x0004000000030900 2 "AMKE" "01" 2 none].foldl
    Nasc.applyCaught ({ bssId := "aabbcc" } : Nasc)).titleId = some 0x0004000000030800 := rfl
example : (NascSet.title 0x0004000000030900 2 "AMKE" "01" 2 none).refused = true ∧
    (NascSet.title 0x0004000000030900 2 "AMKE" "01" 2 (some "r")).refused = false := ⟨rfl, rfl⟩

/-- the optional headers are absent from a client on which the setter was never called; hence `set_title` / `set_device`
    with *any* arguments is observable against the never-configured client -/
theorem nnas_optional_headers_omitted_by_default (auth cert : Option String) :
    ∀ p ∈ ({} : Nnas).prepare auth cert, p.1 ∉ nnasOptionalHeaders :=
  nnas_optional_omitted auth cert

theorem nnas_title_observable (id v : Nat) (auth cert : Option String) :
    (({} : Nnas).apply (.title id v)).prepare auth cert ≠ ({} : Nnas).prepare auth cert := by
  intro h
  have h1 := nnas_setter_carried {} (.title id v) auth cert ("X-Nintendo-Application-Version", hexU 4 v) (by simp [NnasSet.fields])
  rw [h] at h1
  exact nnas_optional_omitted auth cert _ h1 (by simp [nnasOptionalHeaders])

theorem nnas_device_observable (id sv : Nat) (serial : String) (c auth cert : Option String) :
    (({} : Nnas).apply (.device id serial sv c)).prepare auth cert ≠ ({} : Nnas).prepare auth cert := by
  intro h
  have h1 := nnas_setter_carried {} (.device id serial sv c) auth cert ("X-Nintendo-Device-ID", dec id) (by simp [NnasSet.fields])
  rw [h] at h1
  exact nnas_optional_omitted auth cert _ h1 (by simp [nnasOptionalHeaders])

/-- every public nnas call sends exactly the prepared headers -/
theorem nnas_every_call_prepares (s : Nnas) (tok cid : String) (g : Nat) (pids : List Nat) (nnids : List String) :
    (s.getNexToken tok g).2.headers = s.prepare (some tok) none ∧ (s.getServiceToken tok cid).2.headers = s.prepare (some tok) none ∧
    (s.getProfile tok).2.headers = s.prepare (some tok) none ∧ (s.getMiis pids).2.headers = s.prepare none none ∧
    (s.getPids nnids).2.headers = s.prepare none none ∧ (s.getNnids pids).2.headers = s.prepare none none :=
  nnas_calls_prepare s tok cid g pids nnids

/-- nasc: after a setter that accepted its arguments, the `LOGIN` form and headers carry them in the documented fields -/
theorem nasc_setter_argument_carried (s s' : Nasc) (st : NascSet) (h : s.apply st = .ok s') (g : Nat) (nick dt : String)
    (F : List (String × RawV)) (hF : s'.form g nick dt = some F) :
    (∀ f ∈ st.fields, f ∈ F) ∧ (∀ f ∈ st.hdrFields, f ∈ s'.loginHeaders g) :=
  ⟨nasc_setter_carried s s' st h g nick dt F hF, nasc_setter_hdr_carried s s' st h g⟩

-- the hypotheses are satisfiable at the boundary values the statement is about
example : ("X-Nintendo-Application-Version", "0000") ∈ (({} : Nnas).apply (.title 0 0)).prepare none none := by decide
example : ("X-Nintendo-Device-ID", "0") ∈ (({} : Nnas).apply (.device 0 "" 0 (some ""))).prepare none none := by decide
example : (nascBase.apply (.user 0 "")).map (fun s => (s.form 0 "" "").map fun F => decide (("userid", RawV.s "0") ∈ F)) = .ok (some true) := by decide

theorem hpp_environment_takes_effect :
    Hpp.host { gameServerId := 0x1234, environment := "L1" } ≠ Hpp.host { gameServerId := 0x1234, environment := "D1" } :=
  hpp_set_environment

/- NOT a Lean theorem (no model of object identity / TLS): `set_context`, `set_certificate`, `set_request_callback` and
   "every call hands the configured host, context and callback through" are checked on the real code only (every public
   call of every client, in harness/corr_C20.py); constructing every documented class likewise. -/

/-! ## the `nex.*` settings at the RMC layer, under every negotiated connection parameter

`RMCClient` encodes with its own copy of the caller's settings, adjusted to the connection (`rmcSettings`, rmc.py:126-131).  The statements
say that this layer never takes a setting away from the caller: `nex.struct_header = 1` enables the headers on **every** connection (any
kind, any minor version), the two values of the setting give different `login_ex` request bodies on every connection with a negotiated minor
version below 3 (all of prudp v0 — the shipped 3ds.cfg / friends.cfg —, v1 / lite with minor version 0..2), and `nex.pid_size`,
`nex.version`, `nex.client_version` pass through untouched on every connection.  From minor version 3 on the headers are on whatever the
setting says (the code's rule, mirrored; the check compares it on every configuration).  Tie: harness/api_wire.py (real `RMCClient`s
over the simulated PRUDP connection, bodies captured at a raw endpoint, driver op `wire`). -/

open Nx.Api.Wire in
/-- `nex.struct_header = 1` is honoured on every connection -/
theorem struct_header_enabled_on_every_connection (k : Kind) (cmin smin : Nat) (c : NexCfg) (h : c.structHeader = true) :
    (rmcSettings (negotiatedMinor k cmin smin) c).structHeader = true :=
  rmcSettings_header_kept _ c h

open Nx.Api.Wire in
/-- below minor version 3 the connection encodes with exactly the caller's settings; prudp v0 always is below -/
theorem rmc_uses_callers_settings_below_minor_3 (k : Kind) (cmin smin : Nat) (c : NexCfg) (h : negotiatedMinor k cmin smin < 3) :
    rmcSettings (negotiatedMinor k cmin smin) c = c ∧ rmcSettings (negotiatedMinor .v0 cmin smin) c = c :=
  ⟨rmcSettings_below _ c h, rmcSettings_below _ c (by rw [negotiatedMinor_v0]; omega)⟩

open Nx.Api.Wire in
/-- `nex.struct_header` takes effect on the wire of every connection with a negotiated minor version below 3: the `login_ex` request
    bodies for the two values differ (by the 2 x 5 header bytes of `AuthenticationInfo(Data)`), for every user name and token -/
theorem struct_header_takes_effect_on_the_wire (m : Nat) (hm : m < 3) (c : NexCfg) (user token : String) {x y : Bytes}
    (hx : reqLoginEx (rmcSettings m { c with structHeader := false }) user token = .ok x)
    (hy : reqLoginEx (rmcSettings m { c with structHeader := true }) user token = .ok y) : y.length = x.length + 10 ∧ x ≠ y := by
  rw [rmcSettings_below m _ hm] at hx hy
  exact ⟨reqLoginEx_header_len c user token hx hy, reqLoginEx_header_ne c user token hx hy⟩

open Nx.Api.Wire in
/-- from minor version 3 on the headers are on for both values (mirrors rmc.py:130-131) -/
theorem struct_header_forced_from_minor_3 (m : Nat) (hm : 3 ≤ m) (c : NexCfg) :
    rmcSettings m { c with structHeader := false } = rmcSettings m { c with structHeader := true } := by
  rw [rmcSettings_from3 m _ hm, rmcSettings_from3 m _ hm]

open Nx.Api.Wire in
/-- `nex.pid_size`, `nex.version`, `nex.client_version` pass through the RMC layer on every connection … -/
theorem rmc_keeps_pid_size_version_client_version (m : Nat) (c : NexCfg) :
    (rmcSettings m c).pidSize = c.pidSize ∧ (rmcSettings m c).version = c.version ∧ (rmcSettings m c).clientVersion = c.clientVersion :=
  rmcSettings_others m c

open Nx.Api.Wire in
/-- … so `request_ticket(source, target)` carries 2 x `nex.pid_size` bytes whatever the connection -/
theorem pid_size_on_the_wire (m : Nat) (c : NexCfg) (a b : Nat) {x : Bytes} (h : reqTicket (rmcSettings m c) a b = .ok x) :
    x.length = if c.pidSize = 8 then 16 else 8 := by
  have := reqTicket_len (rmcSettings m c) a b h
  rwa [(rmcSettings_others m c).1] at this

open Nx.Api.Wire in
/-- `nex.version` on the wire: with headers `RVConnectionData` grows by the 8-byte server time at 3.5.0; without headers it does not show -/
theorem nex_version_on_the_wire (c : NexCfg) (lo hi : Nat) (hlo : lo < 30500) (hhi : 30500 ≤ hi) (main special : String)
    (protocols : List Nat) (time : Nat) :
    (∀ x y, wConnData { c with structHeader := true, version := lo } main special protocols time = .ok x →
            wConnData { c with structHeader := true, version := hi } main special protocols time = .ok y → y.length = x.length + 8) ∧
    wConnData { c with structHeader := false, version := lo } main special protocols time =
      wConnData { c with structHeader := false, version := hi } main special protocols time :=
  ⟨fun _ _ hx hy => wConnData_version_len c lo hi hlo hhi main special protocols time hx hy,
   wConnData_version_without_header c lo hi main special protocols time⟩

open Nx.Api.Wire in
/-- which login method `BackEndClient.login` sends follows `nex.version` -/
theorem backend_login_method_follows_version (c : NexCfg) (user token : String) :
    (reqBackendLogin c user token).1 = if c.version < 40400 then 2 else 6 :=
  reqBackendLogin_method c user token

-- the hypotheses are satisfiable: a v0 connection, headers requested, both encodings exist and differ
open Nx.Api.Wire in
example : (reqLoginEx (rmcSettings (negotiatedMinor .v0 4 4) ⟨false, 4, 30400, 0⟩) "u" "t").toOption.map List.length = some 46 ∧
          (reqLoginEx (rmcSettings (negotiatedMinor .v0 4 4) ⟨true, 4, 30400, 0⟩) "u" "t").toOption.map List.length = some 56 ∧
          (reqLoginEx (rmcSettings (negotiatedMinor .v1 4 5) ⟨false, 4, 30400, 0⟩) "u" "t").toOption.map List.length = some 56 := by decide
open Nx.Api.Wire in
example : (reqTicket (rmcSettings 5 ⟨true, 8, 40000, 0⟩) 1 2).toOption.map List.length = some 16 := by decide
open Nx.Api.Wire in
example : (reqBackendLogin ⟨true, 8, 40400, 9⟩ "u" "t").1 = 6 ∧ (reqBackendLogin ⟨true, 8, 40300, 9⟩ "u" "t").1 = 2 := by decide

end Nx.C20
