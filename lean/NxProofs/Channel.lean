import NxProofs.Window
import NxProofs.Frag
/-! the L2 channel: receiver state is a function of the released prefix of the sender's log; safety and completeness -/
namespace Nx.Chan
open Nx

/-- what the theorems need from the payload transformation (RC4 after optional compression):
    decoding at the position where a fragment was encoded returns it, and a non-empty fragment never
    encodes to the empty string (the code skips decoding of empty payloads) -/
structure CipherOk (c : Cipher) : Prop where
  dec_enc : ∀ p x, c.dec p (c.enc p x) = x
  enc_ne : ∀ p x, x ≠ [] → c.enc p x ≠ []

theorem consume_closed (c : Cipher) (r : Core) (l : List Wire) (h : r.closed = true) : Core.consume c r l = r := by
  cases l with
  | nil => rfl
  | cons w ws => simp [Core.consume, h]

theorem consume_append (c : Cipher) (a b : List Wire) : ∀ r : Core,
    Core.consume c r (a ++ b) = Core.consume c (Core.consume c r a) b := by
  induction a with
  | nil => intro r; rfl
  | cons w ws ih =>
    intro r
    by_cases hc : r.closed = true
    · rw [consume_closed c r _ hc, consume_closed c r _ hc, consume_closed c r _ hc]
    · simp only [List.cons_append, Core.consume, hc, Bool.false_eq_true, if_false]
      cases w.kind with
      | data fid => simp only [ih]
      | ping => simp only [ih]
      | disconnect =>
        simp only []
        rw [consume_closed c _ b rfl]

theorem out_prefix (c : Cipher) (l : List Wire) : ∀ r : Core, r.reasm.out <+: (Core.consume c r l).reasm.out := by
  induction l with
  | nil => intro r; exact List.prefix_refl _
  | cons w ws ih =>
    intro r
    by_cases hc : r.closed = true
    · rw [consume_closed c r _ hc]; exact List.prefix_refl _
    · simp only [Core.consume, hc, Bool.false_eq_true, if_false]
      cases w.kind with
      | data fid =>
        simp only []
        refine List.IsPrefix.trans ?_ (ih _)
        simp only [Reasm.absorb]
        split
        · exact List.prefix_append _ _
        · exact List.prefix_refl _
      | ping => exact ih r
      | disconnect => exact List.prefix_refl _

theorem consume_wiresOf (c : Cipher) (hc : CipherOk c) :
    ∀ (fs : List Frag) (id pos : Nat) (re : Reasm), (∀ f ∈ fs, f.data ≠ []) →
      Core.consume c ⟨pos, re, false⟩ (wiresOf c id pos fs) =
        ⟨pos + wiresLen (wiresOf c id pos fs), absorbFrags re fs, false⟩ := by
  intro fs
  induction fs with
  | nil => intro id pos re _; simp [wiresOf, wiresLen, Core.consume, absorbFrags]
  | cons f fs ih =>
    intro id pos re hne
    have hf : f.data ≠ [] := hne f (List.mem_cons_self)
    have hfe : f.data.isEmpty = false := by cases h : f.data with
      | nil => exact absurd h hf
      | cons _ _ => rfl
    have hce : (c.enc pos f.data).isEmpty = false := by
      cases h : c.enc pos f.data with
      | nil => exact absurd h (hc.enc_ne pos _ hf)
      | cons _ _ => rfl
    simp only [wiresOf, hfe, Bool.false_eq_true, if_false, Core.consume, hce, hc.dec_enc, wiresLen]
    rw [ih _ _ _ (fun g hg => hne g (List.mem_cons_of_mem _ hg))]
    simp [absorbFrags, Nat.add_assoc]

theorem wiresOf_length (c : Cipher) : ∀ (fs : List Frag) (id pos : Nat), (wiresOf c id pos fs).length = fs.length := by
  intro fs; induction fs with
  | nil => intro _ _; rfl
  | cons f fs ih => intro id pos; simp [wiresOf, ih]

theorem iterSeq_idOf (start : Nat) : ∀ (k n : Nat), iterSeq k (idOf start n) = idOf start (n + k) := by
  intro k
  induction k with
  | zero => intro n; rfl
  | succ k ih =>
    intro n
    simp only [iterSeq]
    have : seqNext (idOf start n) = idOf start (n + 1) := by unfold seqNext idOf; omega
    rw [this, ih]; congr 1; omega

theorem wiresOf_ids (c : Cipher) (start : Nat) : ∀ (fs : List Frag) (n pos k : Nat) (h : k < (wiresOf c (idOf start n) pos fs).length),
    ((wiresOf c (idOf start n) pos fs)[k]).id = idOf start (n + k) := by
  intro fs
  induction fs with
  | nil => intro n pos k h; simp [wiresOf] at h
  | cons f fs ih =>
    intro n pos k h
    cases k with
    | zero => simp [wiresOf]
    | succ k =>
      simp only [wiresOf, List.getElem_cons_succ]
      have hs : seqNext (idOf start n) = idOf start (n + 1) := by unfold seqNext idOf; omega
      simp only [hs]
      rw [ih (n + 1)]
      congr 1; omega

/-- invariant of the sender: ids follow the log index; processing the whole log in order yields exactly `sent` -/
structure SndInv (c : Cipher) (start : Nat) (s : Sender) : Prop where
  ids : ∀ j (h : j < s.log.length), (s.log[j]).id = idOf start j
  next : s.nextId = idOf start s.log.length
  cons : Core.consume c core0 s.log = ⟨s.encPos, ⟨[], s.sent⟩, s.closing⟩

theorem ids_append {start : Nat} {L N : List Wire} (hL : ∀ j (h : j < L.length), (L[j]).id = idOf start j)
    (hN : ∀ k (h : k < N.length), (N[k]).id = idOf start (L.length + k)) :
    ∀ j (h : j < (L ++ N).length), ((L ++ N)[j]).id = idOf start j := by
  intro j h
  by_cases hj : j < L.length
  · rw [List.getElem_append_left hj]; exact hL j hj
  · have hj' : L.length ≤ j := Nat.le_of_not_lt hj
    rw [List.getElem_append_right hj']
    rw [hN]; congr 1; omega

theorem sndInv_send (c : Cipher) (hc : CipherOk c) (size : Nat) (hs : 1 ≤ size) (start : Nat) (s : Sender)
    (m : Bytes) (h : SndInv c start s) : SndInv c start (s.send c size m) := by
  unfold Sender.send
  by_cases hcl : s.closing = true
  · simpa [hcl] using h
  · have hcl' : s.closing = false := by cases hh : s.closing <;> simp_all
    simp only [hcl, Bool.false_eq_true, if_false]
    refine ⟨?_, ?_, ?_⟩
    · apply ids_append h.ids
      intro k hk
      have := wiresOf_ids c start (split size m) s.log.length s.encPos k (by rw [← h.next]; exact hk)
      simpa [h.next] using this
    · simp only [List.length_append]
      rw [h.next, iterSeq_idOf]
    · show Core.consume c core0 (s.log ++ _) = _
      rw [consume_append, h.cons, hcl']
      rw [consume_wiresOf c hc _ _ _ _ (fun f hf => (split_sizes size hs m f hf).1)]
      rw [split_absorb size hs m]
      by_cases hm : m.isEmpty = true <;> simp [hm]

theorem sndInv_ping (c : Cipher) (start : Nat) (s : Sender) (h : SndInv c start s) : SndInv c start s.ping := by
  unfold Sender.ping
  refine ⟨?_, ?_, ?_⟩
  · apply ids_append h.ids
    intro k hk
    simp at hk; subst hk
    simp [h.next]
  · simp only [List.length_append, List.length_cons, List.length_nil]
    rw [h.next]; unfold seqNext idOf; omega
  · show Core.consume c core0 (s.log ++ _) = _
    rw [consume_append, h.cons]
    by_cases hcl : s.closing = true
    · rw [consume_closed c _ _ (by simpa using hcl)]
    · have hcl' : s.closing = false := by cases hh : s.closing <;> simp_all
      simp [Core.consume, hcl']

theorem sndInv_disconnect (c : Cipher) (start : Nat) (s : Sender) (h : SndInv c start s) :
    SndInv c start s.disconnect := by
  unfold Sender.disconnect
  by_cases hcl : s.closing = true
  · simpa [hcl] using h
  · have hcl' : s.closing = false := by cases hh : s.closing <;> simp_all
    simp only [hcl, Bool.false_eq_true, if_false]
    refine ⟨?_, ?_, ?_⟩
    · apply ids_append h.ids
      intro k hk
      simp at hk; subst hk
      simp [h.next]
    · simp only [List.length_append, List.length_cons, List.length_nil]
      rw [h.next]; unfold seqNext idOf; omega
    · show Core.consume c core0 (s.log ++ _) = _
      rw [consume_append, h.cons, hcl']
      simp [Core.consume]

/-- invariant of the receiver relative to the sender's log -/
structure RcvInv (c : Cipher) (start : Nat) (ch : Chan) : Prop where
  le : ch.r.nrel ≤ ch.s.log.length
  win : ch.r.core.closed = false → SInv ch.s.log start ch.r.win ch.r.nrel
  core : ch.r.core = Core.consume c core0 (ch.s.log.take ch.r.nrel)

theorem winv_mono {L N : List Wire} {start : Nat} {w : Window Wire} {r : Nat} (h : WInv L start w r) :
    WInv (L ++ N) start w r := by
  refine ⟨by have := h.le; simp; omega, h.next, h.nodup, ?_⟩
  intro id p hp
  obtain ⟨j, h1, h2, h3, h4⟩ := h.ents id p hp
  refine ⟨j, h1, h2, ?_, h4⟩
  have hj : j < L.length := by
    cases hlt : decide (j < L.length) with
    | true => exact of_decide_eq_true hlt
    | false =>
      have : L.length ≤ j := Nat.le_of_not_lt (of_decide_eq_false hlt)
      rw [List.getElem?_eq_none this] at h3; cases h3
  rw [List.getElem?_append_left hj]; exact h3

theorem rcvInv_grow (c : Cipher) (start : Nat) (ch : Chan) (s' : Sender) (N : List Wire)
    (hlog : s'.log = ch.s.log ++ N) (h : RcvInv c start ch) : RcvInv c start { ch with s := s' } := by
  refine ⟨?_, ?_, ?_⟩
  · show ch.r.nrel ≤ s'.log.length
    rw [hlog]; have := h.le; simp; omega
  · intro hcl
    show SInv s'.log start ch.r.win ch.r.nrel
    rw [hlog]
    obtain ⟨hw, hn⟩ := h.win hcl
    exact ⟨winv_mono hw, hn⟩
  · show ch.r.core = Core.consume c core0 (s'.log.take ch.r.nrel)
    rw [hlog, List.take_append_of_le_length h.le]
    exact h.core

theorem rcvInv_arrive (c : Cipher) (start : Nat) (ch : Chan) (j : Nat) (w : Wire)
    (hs : SndInv c start ch.s) (h : RcvInv c start ch) (hw : ch.s.log[j]? = some w)
    (h1 : j < ch.r.nrel + 32768) (h2 : ch.r.nrel < j + 32768) :
    RcvInv c start { ch with r := ch.r.arrive c w } ∧ ch.r.nrel ≤ (ch.r.arrive c w).nrel := by
  unfold Receiver.arrive
  by_cases hcl : ch.r.core.closed = true
  · simp only [hcl, if_true]
    exact ⟨⟨h.le, h.win, h.core⟩, Nat.le_refl _⟩
  · have hcl' : ch.r.core.closed = false := by cases hh : ch.r.core.closed <;> simp_all
    simp only [hcl, Bool.false_eq_true, if_false]
    have hjlt : j < ch.s.log.length := by
      cases hlt : decide (j < ch.s.log.length) with
      | true => exact of_decide_eq_true hlt
      | false =>
        have : ch.s.log.length ≤ j := Nat.le_of_not_lt (of_decide_eq_false hlt)
        rw [List.getElem?_eq_none this] at hw; cases hw
    have hid : w.id = idOf start j := by
      have := hs.ids j hjlt
      rw [List.getElem?_eq_getElem hjlt] at hw
      cases hw; exact this
    rw [hid]
    obtain ⟨r', hr', hS, hrel⟩ := update_spec ch.s.log start ch.r.win ch.r.nrel j w (h.win hcl') hw h2 h1
    have hr'le : r' ≤ ch.s.log.length := hS.1.le
    have hlen : ((ch.s.log.drop ch.r.nrel).take (r' - ch.r.nrel)).length = r' - ch.r.nrel := by
      simp; omega
    have hnl : ch.r.nrel + (ch.r.win.update (idOf start j) w).2.length = r' := by
      rw [hrel, hlen]; omega
    refine ⟨⟨?_, ?_, ?_⟩, ?_⟩
    · show ch.r.nrel + (ch.r.win.update (idOf start j) w).2.length ≤ ch.s.log.length
      rw [hnl]; exact hr'le
    · intro _
      show SInv ch.s.log start (ch.r.win.update (idOf start j) w).1
        (ch.r.nrel + (ch.r.win.update (idOf start j) w).2.length)
      rw [hnl]; exact hS
    · show Core.consume c ch.r.core (ch.r.win.update (idOf start j) w).2 =
        Core.consume c core0 (ch.s.log.take (ch.r.nrel + (ch.r.win.update (idOf start j) w).2.length))
      rw [hnl, hrel, h.core, ← consume_append]
      congr 1
      have : r' = ch.r.nrel + (r' - ch.r.nrel) := by omega
      conv => rhs; rw [this, List.take_add]
    · show ch.r.nrel ≤ ch.r.nrel + (ch.r.win.update (idOf start j) w).2.length
      omega

/-- both invariants hold in every state reachable under the half-window hypothesis -/
theorem inv_run (c : Cipher) (hc : CipherOk c) (size : Nat) (hsz : 1 ≤ size) (start : Nat) :
    ∀ (ops : List Op) (ch : Chan), SndInv c start ch.s → RcvInv c start ch → runOk c size ch ops = true →
      SndInv c start (run c size ch ops).s ∧ RcvInv c start (run c size ch ops) := by
  intro ops
  induction ops with
  | nil => intro ch hs hr _; exact ⟨hs, hr⟩
  | cons op ops ih =>
    intro ch hs hr hok
    simp only [runOk, Bool.and_eq_true] at hok
    obtain ⟨hop, hrest⟩ := hok
    simp only [run, List.foldl_cons]
    apply ih _ ?_ ?_ hrest
    · cases op with
      | send m => exact sndInv_send c hc size hsz start ch.s m hs
      | ping => exact sndInv_ping c start ch.s hs
      | disconnect => exact sndInv_disconnect c start ch.s hs
      | arrive j =>
        simp only [step]
        split <;> exact hs
    · cases op with
      | send m =>
        simp only [step]
        by_cases hcl : ch.s.closing = true
        · have : ch.s.send c size m = ch.s := by simp [Sender.send, hcl]
          rw [this]; exact hr
        · exact rcvInv_grow c start ch _ (wiresOf c ch.s.nextId ch.s.encPos (split size m)) (by simp [Sender.send, hcl]) hr
      | ping =>
        simp only [step]
        exact rcvInv_grow c start ch _ [⟨ch.s.nextId, .ping, []⟩] (by simp [Sender.ping]) hr
      | disconnect =>
        simp only [step]
        by_cases hcl : ch.s.closing = true
        · have : ch.s.disconnect = ch.s := by simp [Sender.disconnect, hcl]
          rw [this]; exact hr
        · exact rcvInv_grow c start ch _ [⟨ch.s.nextId, .disconnect, []⟩] (by simp [Sender.disconnect, hcl]) hr
      | arrive j =>
        simp only [step]
        cases hw : ch.s.log[j]? with
        | none => exact hr
        | some w =>
          simp only [opOk, Bool.or_eq_true, decide_eq_true_eq] at hop
          have hjlt : j < ch.s.log.length := by
            cases hlt : decide (j < ch.s.log.length) with
            | true => exact of_decide_eq_true hlt
            | false =>
              have : ch.s.log.length ≤ j := Nat.le_of_not_lt (of_decide_eq_false hlt)
              rw [List.getElem?_eq_none this] at hw; cases hw
          cases hop with
          | inl h12 => exact (rcvInv_arrive c start ch j w hs hr hw h12.1 h12.2).1
          | inr h => omega

theorem inv_init (c : Cipher) (start : Nat) (h : start < 65536) :
    SndInv c start (init start).s ∧ RcvInv c start (init start) := by
  refine ⟨⟨?_, ?_, ?_⟩, ⟨?_, ?_, ?_⟩⟩
  · intro j h; simp [init] at h
  · simp [init, idOf]; omega
  · simp [init, Core.consume, core0]
  · simp [init]
  · intro _; exact sinv_init _ start h
  · simp [init, Core.consume]

end Nx.Chan
