"""C19 — request authentication codes and auxiliary codecs.

Three ties, all on the current working tree:
 1. translator obligations (ast): the 68-field Mii layout on both the decode and the encode side, the byte-swap
    list, and the literal constants the model copies (RSA modulus/exponent, DAUTH_SOURCE, prodinfo CRC table)
    are regenerated from the source and kernel-checked against the Lean constants;
 2. differential: the real helpers vs the compiled Lean model / Lean reference implementations on generated inputs;
 3. property oracles on the real code alone (round trips, checksum validity, rejection of corrupted checksums,
    decryptability of the certificate envelope with a test key);
 4. ONE object, many operations (aux_c19_walks.py and the "ONE object" section below): construct, request, turn every
    public knob, request again — against the Lean object models (`hpp-walk`, `dauth-walk`), the stateless references
    for the values in force, and a freshly constructed object with the current values.
 5. the TYPE of a byte-string argument (aux_c19_types.py): bytes / bytearray / memoryview / subclasses carrying the same
    value into every entry point that takes bytes; same result, caller's buffer unchanged.
"""
import ast, base64, hashlib, os, struct
import aux_mii_layout as L
import aux_c19_real as R
import aux_c19_walks as W
import aux_c19_bounds as B
import aux_c19_wire as X
import aux_c19_types as T
from aux_c19_real import hx, cps

LEVEL = "proof"


# ---------------------------------------------------------------------------------------------- translator
def extract_constants(repo):
    out, problems = {}, []
    def assigns(path):
        tree = ast.parse(open(os.path.join(repo, path)).read())
        return {t.id: n.value for n in tree.body if isinstance(n, ast.Assign) for t in n.targets if isinstance(t, ast.Name)}
    try:
        a = assigns("nintendo/switch/aauth.py")
        m = a["RSA_MODULUS"]
        if isinstance(m, ast.Call) and isinstance(m.func, ast.Name) and m.func.id == "int" and len(m.args) == 1 \
                and isinstance(m.args[0], ast.Constant) and isinstance(m.args[0].value, str):
            out["modulus"] = int(m.args[0].value)
        else: problems.append("RSA_MODULUS is not int(<string literal>)")
        out["exponent"] = a["RSA_EXPONENT"].value
        d = assigns("nintendo/switch/dauth.py")["DAUTH_SOURCE"]
        if isinstance(d, ast.Call) and ast.unparse(d.func) == "bytes.fromhex" and isinstance(d.args[0], ast.Constant):
            out["dauth_source"] = list(bytes.fromhex(d.args[0].value))
        else: problems.append("DAUTH_SOURCE is not bytes.fromhex(<literal>)")
        t = assigns("nintendo/switch/__init__.py")["table"]
        out["table"] = [e.value for e in t.elts]
    except Exception as e:
        problems.append("constant extraction failed: %r" % (e,))
    return out, problems


def constants_lean(c):
    return """import NxModel.Misc.Auth
open Nx Nx.Misc Nx.Crypto
theorem aauth_modulus_agrees : rsaModulus = %d := by decide +kernel
theorem aauth_exponent_agrees : rsaExponent = %d := by decide +kernel
theorem dauth_source_agrees : dauthSource.map (·.toNat) = %s := by decide +kernel
theorem prod_table_agrees : prodTable.toList = %s := by decide +kernel
""" % (c["modulus"], c["exponent"], c["dauth_source"], c["table"])


# ---------------------------------------------------------------------------------------------- case collection
class Cases:
    def __init__(self, ctx):
        self.ctx = ctx
        self.lines, self.reals, self.meta = [], [], []
    def add(self, line, real, tag, replay=None, reference=False, nontrivial=True):
        """reference=True: the Lean side is an independent reference implementation, a difference IS a property failure"""
        self.lines.append(line); self.reals.append(real); self.meta.append((tag, replay, reference, nontrivial))


def run(ctx):
    rng = ctx.rng
    quick = ctx.tier == "quick"
    drv = ctx.driver()
    repo = os.environ.get("NX_REPO", "/repo")
    C = Cases(ctx)
    oracle_fail = []          # (key, what, replay) found by the property oracles on the real code
    ctx.rule = ("each case = one call of a real helper (MiiData.build/parse/swap_endian, crc16 x2, anynet BitStream, nasc/base64 helpers, "
                "DAuthClient.calculate_mac/device_token/edge_token, AAuthClient.auth_digital with pinned RNG, HppClient.request, "
                "nnas.calc_password_hash, ProdInfo.check/get_device_id/get_tls_cert/get_tls_key) and the same input through the compiled Lean model; "
                "every Mii field is swept over its full range with the other fields random; malformed/out-of-range inputs included. "
                "single DAuth/AAuth/Hpp/NASC/ProdInfo/MiiData objects are driven through operation sequences in which every public knob (shared Settings object, "
                "keys dict, attributes, setters) is turned between requests, each request compared with the Lean reference for the values in force and with a fresh object; "
                "every counter block / length / id / key generation these routines read is placed at and around every carry, block and width limit "
                "(128-bit CTR counter block of the wrapped TLS key: low k bits all ones or j short of it for every byte position k and every j the 16 blocks can cross); "
                "every entry point that takes a byte string is called with the same value as bytes / bytearray / memoryview (read-only, writable, window) / subclasses: "
                "same result as for bytes (which is compared with the Lean side), caller's buffer unchanged afterwards; "
                "distinct non-trivial = distinct input lines that are not plain rejections of random garbage")

    # ---- 0. self-test of the Lean references against published vectors
    st = drv.batch(["selftest"])[0]
    if not st.startswith("ok"):
        ctx.corr_break("lean-reference-selftest", "Lean crypto references fail published vectors: " + st)
        return
    ctx.extra["reference_vectors_checked"] = int(st.split()[1])

    # ---- 1. translator obligations
    x = L.extract(repo)
    layout_ok = not x["problems"]
    for p in x["problems"]:
        ctx.tag("translator-problem")
    ok, out = ctx.lean_check("MiiLayoutObl", L.lean_obligations(x))
    for i in range(3): ctx.obligation(ok)
    ctx.obligation(layout_ok)
    layout_broken = (not ok) or (not layout_ok)
    consts, cprob = extract_constants(repo)
    if cprob:
        for i in range(4): ctx.obligation(False)
        const_broken, cout = True, "; ".join(cprob)
    else:
        cok, cout = ctx.lean_check("C19Constants", constants_lean(consts))
        for i in range(4): ctx.obligation(cok)
        const_broken = not cok
    ctx.extra["mii_fields_extracted"] = len(x["dec"])

    # the layout the *code* has (drives the real objects); the Lean names for cross-checking
    names = [n for n, k, c in x["dec"]]
    kinds = [k for n, k, c in x["dec"]]
    counts = [c for n, k, c in x["dec"]]
    lean_names = drv.batch(["mii-names"])[0].split()[1:]
    if lean_names != names:
        layout_broken = True

    # ------------------------------------------------------------------------------------------ Mii
    BMP_EDGE = [1, 0x20, 0x25, 0x5C, 0x7F, 0x80, 0xFF, 0x100, 0x3042, 0xD7FF, 0xD800, 0xDBFF, 0xDC00, 0xDFFF, 0xE000, 0xFFFE, 0xFFFF]
    def rand_name(n, maxlen=None):
        ln = rng.randint(0, n if maxlen is None else maxlen)
        return [rng.choice(BMP_EDGE) if rng.random() < 0.3 else rng.randint(1, 0xFFFF) for _ in range(ln)]
    def rand_val(k, c):
        if k == "bits": return rng.randrange(1 << c)
        if k in ("bit", "flag", "flagBits"): return rng.randint(0, 1)
        if k == "u8": return rng.choice([0, 1, 127, 128, 255]) if rng.random() < 0.2 else rng.randrange(256)
        if k in ("u8s", "raw"): return [rng.randrange(256) for _ in range(c)]
        if k == "wstr": return rand_name(c)
        raise KeyError(k)
    def rand_vals(): return [rand_val(k, c) for k, c in zip(kinds, counts)]

    def crc_real(b):
        from nintendo import miis
        return miis.crc16(b)

    def oracle_roundtrip(vals):
        """the property on the real code: in-range values -> build -> 0x60 bytes with crc16 == 0 -> parse -> same values"""
        from nintendo import miis
        try:
            m = R.mii_object(names, kinds, vals)
            data = m.build()
            if len(data) != 0x60: return "build returned %d bytes" % len(data)
            if miis.crc16(data) != 0: return "checksum of built data is not valid (crc16 = %#x)" % miis.crc16(data)
            got = R.mii_vals_of(miis.MiiData.parse(data), names, kinds)
        except Exception as e:
            return "build/parse raised %r" % (e,)
        if got != vals:
            bad = [(n, a, b) for n, a, b in zip(names, vals, got) if a != b][:3]
            return "round trip changed fields (name, sent, got): %r" % (bad,)
        return None

    def add_build(vals, tag, inrange):
        line = "mii-build " + R.show_vals(vals)
        real = R.mii_build(names, kinds, vals)
        C.add(line, real, "mii-build:" + tag, {"fields": dict(zip(names, vals)), "how": "MiiData with these attributes .build() vs the 68-field reference layout"}, reference=inrange)
        if inrange:
            C.add("mii-inrange " + R.show_vals(vals), "ok true", "mii-inrange", {"vals": dict(zip(names, vals))})
            why = oracle_roundtrip(vals)
            if why:
                changed = why
                oracle_fail.append(("mii-roundtrip:" + tag.split(":")[-1], "MiiData.parse(MiiData.build()) fails on the real code: " + why,
                                    {"fields": {n: v for n, v in zip(names, vals)}, "why": why, "how": "set the attributes on nintendo.miis.MiiData(), build(), parse()"}))
        return real

    built = []
    # every field over its full range, the others random
    for i, (n, k, c) in enumerate(zip(names, kinds, counts)):
        if k == "bits": dom = range(1 << c)
        elif k in ("bit", "flag", "flagBits"): dom = [0, 1]
        elif k == "u8": dom = range(256)
        elif k in ("u8s", "raw"):
            dom = [[v] * c for v in (0, 1, 0x7F, 0x80, 0xFF)] + [[(j == p) * 0xFF for j in range(c)] for p in range(c)] + [[rng.randrange(256) for _ in range(c)] for _ in range(8)]
        else:
            dom = [[ch] * ln for ln in range(0, c + 1) for ch in (rng.choice(BMP_EDGE), rng.randint(1, 0xFFFF))] + [[e] for e in BMP_EDGE] + [BMP_EDGE[:c], BMP_EDGE[-c:]]
        for v in dom:
            vals = rand_vals()
            vals[i] = v
            r = add_build(vals, "sweep:" + n, True)
            if r.startswith("ok "): built.append((vals, bytes.fromhex(r[3:])))
    for _ in range(300 if quick else 6000):
        vals = rand_vals()
        r = add_build(vals, "random", True)
        if r.startswith("ok "): built.append((vals, bytes.fromhex(r[3:])))
    # out-of-range values: the model mirrors truncation / errors (not part of the round-trip claim)
    for _ in range(400 if quick else 4000):
        vals = rand_vals()
        i = rng.randrange(len(names)); k, c = kinds[i], counts[i]
        if k == "bits": vals[i] = rng.choice([1 << c, (1 << c) + 1, (1 << (c + 3)) - 1, rng.randrange(1 << c, 1 << 40)])
        elif k in ("bit", "flag"): vals[i] = rng.choice([2, 3, 255, 256])
        elif k == "flagBits": vals[i] = rng.choice([2, 3, 31, 32, 33, 64])
        elif k == "u8": vals[i] = rng.choice([256, 257, 1000, 1 << 32])
        elif k in ("u8s", "raw"):
            if k == "u8s" and rng.random() < 0.4: vals[i] = [rng.choice([256, 300, 0]) for _ in range(c)]
            else: vals[i] = [rng.randrange(256) for _ in range(rng.choice([0, c - 1, c + 1, c + 2]))]
        else:
            r = rng.random()
            if r < 0.3: vals[i] = [rng.randint(1, 0xFFFF) for _ in range(rng.choice([c + 1, c + 2, 2 * c]))]
            elif r < 0.6:
                nm = rand_name(c, c - 1) + [0]
                vals[i] = (nm + rand_name(c, c - len(nm)))[:c]
            else: vals[i] = rand_name(c, c - 1) + [rng.choice([0x10000, 0x1F600, 0x10FFFF])]
        add_build(vals, "out-of-range:" + k, False)
    # parse
    rng.shuffle(built)
    from nintendo import miis as _miis
    parse_src = built[: (400 if quick else 5000)]
    for vals, data in parse_src:
        C.add("mii-parse " + hx(data), R.mii_parse(names, kinds, data), "mii-parse:built")
    for vals, data in parse_src[: (150 if quick else 1500)]:
        # corrupted checksum field: must be rejected
        good = struct.unpack(">H", data[0x5E:])[0]
        for bad in {good ^ (1 << rng.randrange(16)), (good + 1) & 0xFFFF, rng.randrange(65536)} - {good}:
            d2 = data[:0x5E] + struct.pack(">H", bad)
            real = R.mii_parse(names, kinds, d2)
            C.add("mii-parse " + hx(d2), real, "mii-parse:bad-crc")
            if real != "err ValueError":
                oracle_fail.append(("mii-bad-crc", "a Mii with a corrupted checksum is not rejected by the real parser: " + real,
                                    {"data": d2.hex(), "real": real, "how": "nintendo.miis.MiiData.parse(bytes.fromhex(data))"}))
        # one flipped data bit: checksum no longer matches
        d3 = bytearray(data); d3[rng.randrange(0x5E)] ^= 1 << rng.randrange(8); d3 = bytes(d3)
        real = R.mii_parse(names, kinds, d3)
        C.add("mii-parse " + hx(d3), real, "mii-parse:bitflip")
        if real != "err ValueError":
            oracle_fail.append(("mii-bad-crc", "a Mii with one flipped data bit is not rejected: " + real, {"data": d3.hex(), "real": real}))
        k = rng.randrange(0x60)
        C.add("mii-parse " + hx(data[:k]), R.mii_parse(names, kinds, data[:k]), "mii-parse:truncated")
        ext = data + rng.randbytes(rng.randint(1, 8))
        C.add("mii-parse " + hx(ext), R.mii_parse(names, kinds, ext), "mii-parse:extended")
    for _ in range(300 if quick else 4000):
        # arbitrary bit patterns with a correct checksum (decode side on values no encoder produces)
        body = rng.randbytes(0x5E)
        d = body + struct.pack(">H", _miis.crc16(body + b"\0\0"))
        C.add("mii-parse " + hx(d), R.mii_parse(names, kinds, d), "mii-parse:arbitrary")
    # swap_endian, crc16, reference CRC
    for _ in range(300 if quick else 3000):
        n = rng.choice([0, 1, 0x5D, 0x5E, 0x5F, 0x60, 0x61, 200]) if rng.random() < 0.6 else rng.randint(0, 150)
        d = rng.randbytes(n)
        C.add("mii-swap " + hx(d), R.mii_swap(d), "mii-swap")
        C.add("mii-crc " + hx(d), "ok %d" % _miis.crc16(d), "mii-crc")
        # the checksum build() stores equals the textbook CRC-16/XMODEM of the data (independent reference)
        C.add("mii-crc-ref " + hx(d), "ok %d" % _miis.crc16(d + b"\0\0"), "mii-crc-ref", {"data": d.hex()}, reference=True)
    # generic bit streams (anynet) at arbitrary alignments
    for _ in range(500 if quick else 6000):
        nf = rng.randint(0, 12)
        ws = [rng.choice([1, 2, 3, 4, 5, 6, 7, 8, 8, 16, 16, 13, 24, 32]) for _ in range(nf)]
        vs = [rng.randrange(1 << w) if rng.random() < 0.8 else rng.randrange(1 << (w + 4)) for w in ws]
        real = R.bits_write(ws, vs)
        wl = ",".join(map(str, ws)) or "-"
        C.add("bits-write %s %s" % (wl, ",".join(map(str, vs)) or "-"), real, "bits-write")
        data = bytes.fromhex(real[3:]) if real[3:] != "-" else b""
        if rng.random() < 0.3: data = data[: rng.randint(0, len(data))]
        how = [rng.random() < 0.5 for _ in ws]
        C.add("bits-read %s %s" % (wl, hx(data)), R.bits_read(ws, data, how), "bits-read")

    # ------------------------------------------------------------------------------------------ base64 family / nasc
    from nintendo import nasc
    def rbytes(maxn=40):
        r = rng.random()
        return b"" if r < 0.05 else rng.randbytes(rng.randint(1, 5)) if r < 0.4 else rng.randbytes(rng.randint(0, maxn))
    ALPH = "ABCDEFGHIJKLMNOPQRSTUVWXYZabcdefghijklmnopqrstuvwxyz0123456789"
    def rtext(extra):
        n = rng.randint(0, 24)
        pool = ALPH + extra * 6 + "=" * 6 + " \n!~" + "éあ"
        return "".join(rng.choice(pool) for _ in range(n))
    def mutate(t, extra):
        t = list(t)
        for _ in range(rng.randint(1, 3)):
            r = rng.random()
            if r < 0.3 and t: del t[rng.randrange(len(t))]
            elif r < 0.7: t.insert(rng.randint(0, len(t)), rng.choice(ALPH + extra + "=== \n"))
            elif t: t[rng.randrange(len(t))] = rng.choice(ALPH + extra + "=")
        return "".join(t)
    for _ in range(600 if quick else 20000):
        d = rbytes()
        C.add("b64-enc " + hx(d), R.wrap(base64.b64encode, d), "b64-enc")
        C.add("url-enc " + hx(d), R.wrap(lambda d: base64.b64encode(d, b"-_"), d), "url-enc")
        C.add("url-enc-nopad " + hx(d), R.wrap(R.url_enc_nopad, d), "url-enc-nopad")
        C.add("nasc-enc " + hx(d), R.wrap(nasc.b64encode, d), "nasc-enc", {"data": d.hex(), "how": "nasc.b64encode(data) vs the reference 3DS alphabet (+/= -> .-*)"}, reference=True)
        e_std, e_url, e_nopad, e_nasc = base64.b64encode(d).decode(), base64.b64encode(d, b"-_").decode(), R.url_enc_nopad(d), nasc.b64encode(d)
        C.add("b64-dec " + cps(e_std), R.wrap(base64.b64decode, e_std), "b64-dec:valid")
        C.add("url-dec " + cps(e_url), R.wrap(lambda t: base64.b64decode(t, "-_"), e_url), "url-dec:valid")
        C.add("url-dec-repad " + cps(e_nopad), R.wrap(R.url_dec_repad, e_nopad), "url-dec-repad:valid")
        C.add("nasc-dec " + cps(e_nasc), R.wrap(nasc.b64decode, e_nasc), "nasc-dec:valid")
        # property oracles on the real code
        try:
            if nasc.b64decode(nasc.b64encode(d)) != d:
                oracle_fail.append(("nasc-roundtrip", "nasc.b64decode(nasc.b64encode(x)) != x", {"x": d.hex()}))
            if R.url_dec_repad(R.url_enc_nopad(d)) != d:
                oracle_fail.append(("url-roundtrip", "unpadded url-safe base64 does not round-trip", {"x": d.hex()}))
        except Exception as e:
            oracle_fail.append(("nasc-roundtrip", "base64 round trip raised %r" % (e,), {"x": d.hex()}))
        # lenient decoding of damaged / arbitrary text
        for t, op, f, extra in ((mutate(e_std, "+/"), "b64-dec", base64.b64decode, "+/"),
                                (mutate(e_nopad, "-_+/"), "url-dec-repad", R.url_dec_repad, "-_"),
                                (mutate(e_nasc, ".-*+/"), "nasc-dec", nasc.b64decode, ".-*"),
                                (rtext(".-*+/_"), "nasc-dec", nasc.b64decode, ""),
                                (rtext("+/-_"), "url-dec", lambda t: base64.b64decode(t, "-_"), "")):
            real = R.wrap(f, t)
            C.add(op + " " + cps(t), real, op + ":damaged", nontrivial=real.startswith("ok"))
    for _ in range(150 if quick else 3000):
        form = {"k%d" % i + "".join(rng.choice(ALPH) for _ in range(rng.randint(0, 4))): rbytes(20) for i in range(rng.randint(0, 5))}
        enc = nasc.encode_form(form)
        C.add("nasc-form-enc " + (R.form_pairs(form) if form else ""), "ok " + R.form_pairs(enc), "nasc-form-enc")
        try:
            dec = nasc.decode_form(enc)
            C.add("nasc-form-dec " + (R.form_pairs(enc) if enc else ""), "ok " + R.form_pairs(dec), "nasc-form-dec")
            if dec != form:
                oracle_fail.append(("nasc-form-roundtrip", "decode_form(encode_form(f)) != f", {"form": {k: v.hex() for k, v in form.items()}}))
        except Exception as e:
            oracle_fail.append(("nasc-form-roundtrip", "decode_form raised %r" % (e,), {"form": {k: v.hex() for k, v in form.items()}}))

    # ------------------------------------------------------------------------------------------ primitives vs libraries
    from Crypto.Cipher import AES
    from Crypto.Hash import CMAC
    for _ in range(120 if quick else 3000):
        d = rng.randbytes(rng.choice([0, 1, 55, 56, 57, 63, 64, 65, 119, 120, 128]) if rng.random() < 0.5 else rng.randint(0, 300))
        C.add("sha256 " + hx(d), "ok " + hashlib.sha256(d).hexdigest(), "ref:sha256", {"data": d.hex()}, reference=True)
        k = rng.randbytes(rng.choice([16, 24, 32]))
        blk = rng.randbytes(16 * rng.randint(1, 4))
        C.add("aes-ecb-dec %s %s" % (hx(k), hx(blk)), "ok " + AES.new(k, AES.MODE_ECB).decrypt(blk).hex(), "ref:aes-ecb", {"key": k.hex(), "data": blk.hex()}, reference=True)
        m = rng.randbytes(rng.choice([0, 1, 15, 16, 17, 31, 32, 33, 64]) if rng.random() < 0.6 else rng.randint(0, 200))
        c = CMAC.new(k, ciphermod=AES); c.update(m)
        C.add("cmac %s %s" % (hx(k), hx(m)), "ok " + c.hexdigest(), "ref:cmac", {"key": k.hex(), "msg": m.hex()}, reference=True)
        C.add("aes-cbc-enc %s %s" % (hx(k), hx(m)), "ok " + AES.new(k, AES.MODE_CBC, iv=bytes(16)).encrypt(_pad(m)).hex(), "ref:aes-cbc", None, reference=True)
        iv = rng.randbytes(16) if rng.random() < 0.8 else b"\xff" * 15 + bytes([rng.choice([0xFE, 0xFF, 0xF0])])
        try:
            real = "ok " + hx(AES.new(k, AES.MODE_CTR, nonce=b"", initial_value=iv).decrypt(m))
        except Exception as e:
            real = "err " + R.exc_name(e)
        C.add("aes-ctr %s %s %s" % (hx(k), hx(iv), hx(m)), real, "ref:aes-ctr", None, reference=True)

    # ------------------------------------------------------------------------------------------ dauth
    from nintendo.switch import dauth, aauth
    versions = sorted(dauth.KEY_GENERATION)
    keygens = sorted(set(dauth.KEY_GENERATION.values()) | set(range(1, 33)))
    def keymat(valid=True):
        if valid: return rng.randbytes(16) if rng.random() < 0.7 else rng.randbytes(rng.choice([24, 32]))
        return rng.randbytes(rng.choice([0, 1, 15, 17, 31, 33, 48]))
    kn_out = drv.batch(["dauth-keyname %d" % g for g in range(0, 40)])
    keyname = {g: bytes.fromhex(o[3:]).decode() for g, o in zip(range(0, 40), kn_out)}
    for g in keygens:
        name = keyname[g]
        for _ in range(3 if quick else 30):
            bad = rng.random() < 0.25
            kek = rng.randbytes(16 * rng.randint(1, 2)) if not bad or rng.random() < 0.5 else rng.randbytes(rng.choice([0, 8, 20]))
            master = keymat(not bad or rng.random() < 0.5)
            data = rng.randbytes(16) if rng.random() < 0.7 else rng.randbytes(rng.choice([0, 8, 24, 32, 48]))
            form = "".join(rng.choice(ALPH + "=&#-_%. é") for _ in range(rng.randint(0, 120)))
            # decoys under the neighbouring key names: the right generation must be picked
            keys = {"aes_kek_generation_source": kek, name: master}
            for dg in (g - 1, g + 1):
                if dg >= 1:
                    dn = keyname[dg]
                    keys.setdefault(dn, rng.randbytes(16))
            c = dauth.DAuthClient(keys); c.key_generation = g
            try: real = "ok " + hx(c.calculate_mac(form, data).encode())
            except Exception as e: real = "err " + R.exc_name(e)
            C.add("dauth-mac %s %s %s %s" % (hx(kek), hx(master), hx(data), hx(form.encode())), real, "dauth-mac:keygen",
                  {"keys": {k: v.hex() for k, v in keys.items()}, "key_generation": g, "form": form, "data": data.hex(),
                   "how": "DAuthClient(keys).calculate_mac(form, data) with client.key_generation set"}, reference=True)
    # whole request path for every system version
    for v in versions:
        for _ in range(2 if quick else 12):
            g = dauth.KEY_GENERATION[v]
            name = "master_key_%02x" % (g - 1)
            keys = {"aes_kek_generation_source": rng.randbytes(16), name: rng.randbytes(16)}
            challenge = base64.b64encode(rng.randbytes(32), b"-_").decode()
            raw = rng.randbytes(16) if rng.random() < 0.8 else rng.randbytes(rng.choice([15, 17, 32]))
            dt = base64.b64encode(raw, b"-_").decode()
            if rng.random() < 0.5: dt = dt.rstrip("=")
            if rng.random() < 0.1: dt = mutate(dt, "-_")
            cid = rng.choice([dauth.CLIENT_ID_BAAS, 0, 1, (1 << 64) - 1, rng.randrange(1 << 64)])
            region = rng.choice([1, 2, 2, 3])
            edge = rng.random() < 0.5
            vendor = rng.choice(["akamai", "v" + str(rng.randrange(100))])
            real, req, cl = R.dauth_token(keys, v, region, challenge, dt, cid, edge, vendor)
            vend = hx(vendor.encode()) if (edge and cl.api_version == 7) else "none"
            C.add("dauth-token %s %s %s %s %d %d %d %s %s" % (hx(keys["aes_kek_generation_source"]), hx(keys[name]), cps(dt), hx(challenge.encode()), cid,
                                                              1 if region == 2 else 0, g, hx(cl.system_digest.encode()), vend),
                  real, "dauth-token:" + ("edge" if edge else "device"),
                  {"version": v, "keys": {k: x.hex() for k, x in keys.items()}, "challenge": challenge, "data": dt, "client_id": cid, "region": region,
                   "edge": edge, "vendor": vendor, "how": "DAuthClient.device_token/edge_token with a scripted request callback; compare rawform['mac']"}, reference=True)

    # ------------------------------------------------------------------------------------------ aauth envelope
    from Crypto.PublicKey import RSA
    from Crypto.Cipher import PKCS1_OAEP
    from Crypto.Hash import SHA256
    from Crypto.Util.Padding import unpad
    test_key = RSA.generate(2048, randfunc=_rand(rng)) if not quick or True else None
    v3 = [v for v in sorted(aauth.API_VERSION) if aauth.API_VERSION[v] == 3]
    for i in range(24 if quick else 400):
        v = v3[i % len(v3)]
        tid = rng.randrange(1 << 64)
        bad = rng.choice([None, None, None, "size", "sig", "title", "rev"])
        ticket = R.make_ticket(rng, tid, bad=bad)
        pk, seed = rng.randbytes(16), rng.randbytes(32)
        use_test = i % 2 == 1
        n, e = (test_key.n, test_key.e) if use_test else (0, 0)
        real, form = R.aauth_digital(v, tid, rng.randrange(1 << 32), ticket, pk, seed, *( (test_key.n, test_key.e) if use_test else (None, None)))
        C.add("aauth-env %d %d %s %d %s %s" % (n, e, hx(ticket), tid, hx(pk), hx(seed)), real, "aauth-env:" + (bad or "valid") + (":testkey" if use_test else ":nintendo-key"),
              {"version": v, "title_id": tid, "ticket": ticket.hex(), "plain_key": pk.hex(), "oaep_seed": seed.hex(), "test_modulus": n,
               "how": "AAuthClient.auth_digital with aauth.get_random_bytes and Crypto.Random.get_random_bytes pinned"}, reference=True)
        if use_test and real.startswith("ok "):
            # independent oracle: the holder of the private key recovers the ticket
            try:
                ct = base64.b64decode(form["cert"] + "=" * (-len(form["cert"]) % 4), "-_")
                ck = base64.b64decode(form["cert_key"] + "=" * (-len(form["cert_key"]) % 4), "-_")
                key = PKCS1_OAEP.new(test_key, SHA256).decrypt(ck)
                plain = unpad(AES.new(key, AES.MODE_CBC, iv=bytes(16)).decrypt(ct), 16)
                if plain != ticket or key != pk:
                    oracle_fail.append(("aauth-envelope", "certificate envelope does not decrypt to the ticket", {"ticket": ticket.hex(), "plain_key": pk.hex()}))
            except Exception as ex:
                oracle_fail.append(("aauth-envelope", "certificate envelope cannot be opened with the private key: %r" % (ex,), {"ticket": ticket.hex(), "plain_key": pk.hex(), "seed": seed.hex()}))

    # ------------------------------------------------------------------------------------------ hpp
    from nintendo.nex import settings as nexsettings, rmc
    for i in range(40 if quick else 500):
        s = nexsettings.default()
        ak = "".join(rng.choice("0123456789abcdef") for _ in range(2 * rng.choice([0, 1, 4, 7, 8, 8, 9, 16])))
        s["prudp.access_key"] = ak
        pid = rng.choice([0, 1, 1023, 1024, 1025, (1 << 32) - 1, rng.randrange(1 << 32)])
        pw = "".join(rng.choice(ALPH + "!#é") for _ in range(rng.randint(0, 20)))
        call_id = rng.choice([1, 0xFFFFFFFF, rng.randrange(1, 1 << 32)])
        proto, meth = rng.choice([1, 0x7E, 0x7F, 0x80, 200]), rng.randrange(1, 0x7FFF)
        body = rng.randbytes(rng.randint(0, 60))
        # scripted response
        kind = rng.choice(["ok", "ok", "err", "badsize", "badcall", "badmethod", "trailing", "short", "http"])
        cid2 = call_id if kind != "badcall" else (call_id ^ (1 << rng.randrange(32)))
        rb = rng.randbytes(rng.randint(0, 30))
        if kind in ("ok", "badsize", "badcall", "badmethod", "http"):
            m2 = (meth | 0x8000) if kind != "badmethod" else rng.choice([meth, (meth | 0x8000) ^ 1, meth + 0x8001])
            pl = b"\x01" + struct.pack("<II", cid2, m2) + rb
        else:
            pl = b"\x00" + struct.pack("<II", rng.choice([0x00010001, 0x80010002, 0x00030065]), cid2) + (rb[:3] if kind == "trailing" else b"")
        resp = struct.pack("<I", len(pl) + (1 if kind == "badsize" else 0)) + pl
        if kind == "short": resp = resp[: rng.randint(0, len(resp) - 1)]
        status = 500 if kind == "http" else 200
        sig, val = R.hpp_request(s, pid, pw, call_id, proto, meth, body, status, resp)
        data, s1, s2 = sig
        C.add("hpp-sig %s %s %d %s" % (hx(bytes.fromhex(ak)), hx(pw.encode()), pid, hx(data)), "ok %s %s" % (hx(s1.encode()), hx(s2.encode())), "hpp-sig",
              {"access_key": ak, "pid": pid, "password": pw, "message": data.hex(), "how": "HppClient.request with hpp.http.request replaced; headers signature1/signature2"}, reference=True)
        if kind != "http":
            C.add("hpp-val %d %d %s" % (call_id, meth, hx(resp)), val, "hpp-val:" + kind)
        elif val != "err ValueError":
            oracle_fail.append(("hpp-http-error", "HTTP error status did not raise ValueError: " + val, {"status": status}))

    # ------------------------------------------------------------------------------------------ nnas
    from nintendo import nnas
    for _ in range(200 if quick else 5000):
        pid = rng.choice([0, 1, (1 << 32) - 1, 1 << 32, rng.randrange(1 << 32), rng.randrange(1 << 32)])
        pw = "".join(rng.choice(ALPH + "!@# ~" + ("éあ" if rng.random() < 0.15 else "")) for _ in range(rng.randint(0, 70)))
        try: real = "ok " + hx(nnas.calc_password_hash(pid, pw).encode())
        except Exception as e: real = "err " + R.exc_name(e)
        C.add("nnas %d %s" % (pid, cps(pw)), real, "nnas", {"pid": pid, "password": pw, "how": "nnas.calc_password_hash(pid, password)"}, reference=True)

    # ------------------------------------------------------------------------------------------ prodinfo
    from nintendo import switch as nswitch
    from anynet import tls
    for _ in range(200 if quick else 4000):
        d = rng.randbytes(rng.randint(0, 64))
        C.add("prod-crc " + hx(d), "ok %d %d" % (nswitch.crc16(d), nswitch.crc16(d)), "prod-crc", {"data": d.hex(), "how": "nintendo.switch.crc16(data) vs bit-serial CRC-16/ARC with init 0x55AA"}, reference=True)
        n = rng.randint(2, 80)
        off = rng.randint(0, 20); size = rng.randint(2, n)
        blob = bytearray(rng.randbytes(off + size + rng.randint(0, 4)))
        if rng.random() < 0.6:
            struct.pack_into("<H", blob, off + size - 2, nswitch.crc16(bytes(blob[off:off + size - 2])))
        if rng.random() < 0.1: blob = blob[: off + size - rng.randint(1, 2)]
        real = R.prod_check(bytes(blob), off, size)
        C.add("prod-check %d %d %s" % (off, size, hx(bytes(blob))), real + " | " + real, "prod-check:" + real.split()[0] + real.split()[1][:5],
              {"data": bytes(blob).hex(), "offset": off, "size": size}, reference=True)
    tkey = tls.TLSPrivateKey.generate(1024)
    tcert = tls.TLSCertificate.generate(tkey)
    tcert.sign(tkey)
    der_cert = tcert.encode(tls.TYPE_DER)
    rsa = RSA.import_key(tkey.encode(tls.TYPE_DER))
    def put_crc(blob, off, size):
        struct.pack_into("<H", blob, off + size - 2, nswitch.crc16(bytes(blob[off:off + size - 2])))
    def make_prod(devid, kek, initial=None):
        """well-formed calibration data: device id, the test certificate, the test key's private exponent wrapped with `kek`"""
        blob = bytearray(rng.randbytes(0x3C40))
        blob[0x2B56:0x2B66] = (("%016x" if rng.random() < 0.5 else "%016X") % devid).encode()
        put_crc(blob, 0x2A90, 0x250)
        struct.pack_into("<I", blob, 0xAD0, len(der_cert)); put_crc(blob, 0xAD0, 0x10)
        blob[0xAE0:0xAE0 + len(der_cert)] = der_cert
        blob[0x12E0:0x1300] = hashlib.sha256(der_cert).digest()
        if initial is None: initial = rng.randbytes(16)
        blob[0x3AE0:0x3AF0] = initial
        blob[0x3AF0:0x3BF0] = B.ctr_textbook(kek, initial, rsa.d.to_bytes(0x100, "big"))
        put_crc(blob, 0x3AE0, 0x140)
        return bytes(blob)
    for i in range(10 if quick else 120):
        blob = bytearray(rng.randbytes(0x3C40))
        devid = rng.randrange(1 << 64)
        blob[0x2B56:0x2B66] = (("%016x" if rng.random() < 0.5 else "%016X") % devid).encode()
        put_crc(blob, 0x2A90, 0x250)
        struct.pack_into("<I", blob, 0xAD0, len(der_cert)); put_crc(blob, 0xAD0, 0x10)
        blob[0xAE0:0xAE0 + len(der_cert)] = der_cert
        blob[0x12E0:0x1300] = hashlib.sha256(der_cert).digest()
        kek = rng.randbytes(16)
        initial = rng.randbytes(16)
        dbytes = rsa.d.to_bytes(0x100, "big")
        blob[0x3AE0:0x3AF0] = initial
        blob[0x3AF0:0x3BF0] = AES.new(kek, AES.MODE_CTR, nonce=b"", initial_value=initial).encrypt(dbytes)
        put_crc(blob, 0x3AE0, 0x140)
        damage = rng.choice([None, None, "devcrc", "certcrc", "certhash", "keycrc", "certlen"])
        if damage == "devcrc": blob[rng.randrange(0x2A90, 0x2CDE)] ^= 1 << rng.randrange(8)
        if damage == "certcrc": blob[0xAD8] ^= 1
        if damage == "certhash": blob[0x12E0 + rng.randrange(32)] ^= 1
        if damage == "keycrc": blob[rng.randrange(0x3AE0, 0x3C1E)] ^= 1 << rng.randrange(8)
        if damage == "certlen": struct.pack_into("<I", blob, 0xAD0, 0x801); put_crc(blob, 0xAD0, 0x10)
        blob = bytes(blob)
        keyname = rng.choice(["ssl_rsa_kek", "ssl_rsa_kek_personalized"])
        keys = {keyname: kek}
        if keyname.endswith("personalized") and rng.random() < 0.5: keys["ssl_rsa_kek"] = rng.randbytes(16)
        P = R.Prod(blob, keys).p
        try: real = "ok %d" % P.get_device_id()
        except Exception as e: real = "err " + R.exc_name(e)
        C.add("prod-devid " + hx(blob), real, "prod-devid:" + str(damage), {"damage": damage}, reference=False)
        if damage is None and real != "ok %d" % devid:
            oracle_fail.append(("prod-devid", "get_device_id does not return the stored id", {"expected": devid, "real": real}))
        try: real = "ok " + hx(P.get_tls_cert().encode(tls.TYPE_DER))
        except Exception as e: real = "err " + R.exc_name(e)
        C.add("prod-cert " + hx(blob), real, "prod-cert:" + str(damage))
        try:
            got = RSA.import_key(P.get_tls_key().encode(tls.TYPE_DER))
            real = "ok %d" % got.d
            if got.d != rsa.d:
                oracle_fail.append(("prod-tlskey", "get_tls_key does not recover the wrapped private exponent", {"damage": damage}))
        except Exception as e:
            real = "err " + R.exc_name(e)
        if damage in (None, "keycrc", "devcrc"):
            # with a damaged certificate get_tls_key fails later, inside get_tls_cert; the model stops at the exponent
            if not (damage == "keycrc" and real.startswith("ok")):
                C.add("prod-tlsd %s %s" % (hx(kek), hx(blob)), real, "prod-tlsd:" + str(damage), {"damage": damage}, reference=True)

    # ------------------------------------------------------------------------------------------ ONE object, many steps
    # State carried by a client object across a sequence (caches, counters, fields set by setters) is invisible to
    # the per-call cases above, which build a fresh object each time. Here single objects are driven through random
    # walks; after every step the result must equal the Lean reference for the CURRENT configuration, and what a
    # fresh object produces for that configuration.
    all_keys = {"aes_kek_generation_source": rng.randbytes(16)}
    for g in range(1, 0x28):
        all_keys["master_key_%02x" % (g - 1)] = rng.randbytes(16)
    gens = sorted(set(dauth.KEY_GENERATION.values()))
    by_gen = {g: [v for v in versions if dauth.KEY_GENERATION[v] == g] for g in gens}
    def dict_tok(d): return ",".join(hx(k.encode()) + ":" + hx(v) for k, v in d.items()) or "-"
    for w in range(3 if quick else 40):
        cur_keys = dict(all_keys)                      # the harness's own view of client.keys (never the same object)
        client = dauth.DAuthClient(dict(cur_keys))
        history = []
        nsteps = 45 if quick else 120
        # the walk visits every version at least once, goes up and down, revisits, and changes key generation often;
        # in between every other public knob is turned: entries of client.keys, the whole dict, key_generation itself
        order = list(versions); rng.shuffle(order)
        prev_v = None
        cur_g, cur_region = client.key_generation, 1
        last_form, last_data = "a=0&b=x", rng.randbytes(16)
        # the same sequence through the stateful object model (one line per walk)
        mops = ["keys=" + dict_tok(cur_keys), "ver=%d:%s:%d" % (client.key_generation, hx(client.system_digest.encode()), client.api_version == 7), "ist=0"]
        mreal = []
        for step in range(nsteps):
            r = rng.random()
            if step < len(order) and r < 0.6: v = order[step]
            elif r < 0.8 and prev_v is not None:           # jump to another key generation
                v = rng.choice(by_gen[rng.choice([g for g in gens if g != dauth.KEY_GENERATION[prev_v]])])
            elif r < 0.9 and prev_v is not None: v = prev_v  # no switch at all
            else: v = rng.choice(versions)
            switch = (v != prev_v) or rng.random() < 0.5     # sometimes call set_system_version with the same version
            # ---- knobs other than the setters, turned BEFORE the version switch of this step (the switch resets key_generation)
            knobs = []
            kr = rng.random()
            if step > 0 and kr < 0.12:
                # replace the master key of the generation the NEXT request uses (or the kek source): client.keys[name] = value
                name = rng.choice(["master_key_%02x" % (dauth.KEY_GENERATION[v] - 1), "master_key_%02x" % (dauth.KEY_GENERATION[v] - 1), "aes_kek_generation_source",
                                   "master_key_%02x" % (rng.choice(gens) - 1)])
                val = rng.randbytes(16)
                client.keys[name] = val; cur_keys[name] = val
                knobs.append({"client.keys[%r]" % name: val.hex()}); mops.append("key=%s:%s" % (hx(name.encode()), hx(val)))
            elif step > 0 and kr < 0.18:
                cur_keys = {k: rng.randbytes(16) for k in all_keys}
                client.keys = dict(cur_keys)
                knobs.append({"client.keys = ": {k: x.hex() for k, x in cur_keys.items()}}); mops.append("keys=" + dict_tok(cur_keys))
            elif step > 0 and kr < 0.24:
                client.set_power_state(rng.choice(["FA", "HA"])); client.set_host(rng.choice(["dauth-lp1.ndas.srv.nintendo.net", "dauth.example"]))
                knobs.append({"set_power_state/set_host": True}); mops.append("nop")
            region = rng.choice([None, None, 1, 2, 3])
            edge = rng.random() < 0.5
            challenge = base64.b64encode(rng.randbytes(32), b"-_").decode()
            dt = base64.b64encode(rng.randbytes(16), b"-_").decode()
            if rng.random() < 0.5: dt = dt.rstrip("=")
            cid = rng.choice([dauth.CLIENT_ID_BAAS, rng.randrange(1 << 64)])
            vendor = rng.choice(["akamai", "v%d" % rng.randrange(9)])
            if switch:
                cur_g = dauth.KEY_GENERATION[v]
                mops.append("ver=%d:%s:%d" % (cur_g, hx(dauth.SYSTEM_VERSION_DIGEST[v].encode()), dauth.API_VERSION[v] == 7))
            # key_generation assigned directly AFTER the switch (public attribute; the per-call cases above use it the same way)
            set_g = None
            if step > 0 and rng.random() < 0.1:
                set_g = rng.choice([g for g in gens if g != cur_g])
                knobs.append({"client.key_generation = ": set_g}); mops.append("kg=%d" % set_g)
            if region is not None:
                cur_region = region; mops.append("ist=%d" % (region == 2))
            history.append({"before": knobs, "set_system_version": v if switch else None, "then client.key_generation = ": set_g, "set_platform_region": region,
                            "call": "edge_token" if edge else "device_token", "client_id": cid, "vendor": vendor, "challenge": challenge, "data": dt})
            if switch: client.set_system_version(v)
            if set_g is not None:
                client.key_generation = set_g; cur_g = set_g
            real, req, cl = R.dauth_token(None, None, region, challenge, dt, cid, edge, vendor, client=client)
            prev_v = v
            g = cur_g
            vend = hx(vendor.encode()) if (edge and dauth.API_VERSION[v] == 7) else "none"
            replay = {"keys_at_construction": {k: x.hex() for k, x in all_keys.items()}, "sequence_on_one_client": list(history),
                      "how": "ONE DAuthClient(keys); for each step: the knobs under 'before', set_system_version / key_generation / set_platform_region if given, "
                             "then the call against a scripted request callback returning the step's challenge/data; the LAST step's rawform['mac'] is wrong"}
            C.add("dauth-token %s %s %s %s %d %d %d %s %s" % (hx(cur_keys["aes_kek_generation_source"]), hx(cur_keys["master_key_%02x" % (g - 1)]), cps(dt),
                                                              hx(challenge.encode()), cid, 1 if cur_region == 2 else 0, g, hx(dauth.SYSTEM_VERSION_DIGEST[v].encode()), vend),
                  real, "dauth-walk:" + ("edge" if edge else "device"), replay, reference=True)
            mops.append("tok=%d/%s/%s/%d/%s" % (edge, hx(challenge.encode()), cps(dt), cid, hx(vendor.encode())))
            mreal.append(real.replace(" ", ":"))
            # the same step on a fresh client with the current values
            fc = dauth.DAuthClient(dict(cur_keys)); fc.set_system_version(v)
            if g != dauth.KEY_GENERATION[v]: fc.key_generation = g
            fresh, _, _ = R.dauth_token(None, None, cur_region, challenge, dt, cid, edge, vendor, client=fc)
            if fresh != real:
                oracle_fail.append(("dauth-stateful", "a reused DAuthClient produces a different MAC/form than a fresh client for the same configuration "
                                    "(step %d: version %d, key generation %d): reused %s, fresh %s" % (len(history), v, g, real[:60], fresh[:60]), replay))
            # calculate_mac called directly in between (fills / uses any cache as well); forms and challenge data repeat on purpose
            if rng.random() < 0.3:
                form = last_form if rng.random() < 0.4 else "a=%d&b=x" % rng.randrange(1000)
                data = last_data if (rng.random() < 0.4 and form != last_form) else rng.randbytes(16)
                last_form, last_data = form, data
                try: real2 = "ok " + hx(client.calculate_mac(form, data).encode())
                except Exception as e: real2 = "err " + R.exc_name(e)
                history.append({"call": "calculate_mac", "form": form, "data": data.hex()})
                C.add("dauth-mac %s %s %s %s" % (hx(cur_keys["aes_kek_generation_source"]), hx(cur_keys["master_key_%02x" % (g - 1)]), hx(data), hx(form.encode())),
                      real2, "dauth-walk:mac", {"keys_at_construction": {k: x.hex() for k, x in all_keys.items()}, "sequence_on_one_client": list(history)}, reference=True)
                mops.append("mac=%s/%s" % (hx(form.encode()), hx(data)))
                mreal.append(real2.replace(" ", ":"))
        C.add("dauth-walk " + " ".join(mops), " ".join(["ok"] + mreal), "dauth-walk:object-model",
              {"keys_at_construction": {k: x.hex() for k, x in all_keys.items()}, "sequence_on_one_client": list(history),
               "record_format": "one record per device_token / edge_token / calculate_mac call: ok:<mac>[:<signed form>] (hex)"}, reference=True)
    # one AAuthClient across all versions (api 3 envelopes; api >= 4 passes a token through), up and down
    aversions = sorted(aauth.API_VERSION)
    for w in range(1 if quick else 8):
        client = aauth.AAuthClient()
        history = []
        for step in range(16 if quick else 60):
            v = rng.choice(v3) if rng.random() < 0.6 else rng.choice(aversions)
            tid = rng.randrange(1 << 64)
            pk, seed = rng.randbytes(16), rng.randbytes(32)
            # knobs and calls that take no part in the envelope, in between (the callback of the previous step is still installed)
            if step > 0 and rng.random() < 0.4:
                client.set_power_state(rng.choice(["FA", "HA"])); client.set_host(rng.choice(["aauth-lp1.ndas.srv.nintendo.net", "aauth.example"]))
                other = rng.choice(["auth_system", "auth_nocert", "auth_gamecard"])
                history.append({"other": "set_power_state/set_host, then " + other})
                try:
                    if other == "auth_gamecard": R.run(client.auth_gamecard(rng.randrange(1 << 64), 1, "devtoken", rng.randbytes(0x200), rng.randbytes(0x20), "c", "s"))
                    else: R.run(getattr(client, other)(rng.randrange(1 << 64), 1, "devtoken"))
                except Exception as e:
                    oracle_fail.append(("aauth-stateful", "%s on a reused AAuthClient raised %r" % (other, e), {"sequence_on_one_client": list(history)}))
            if aauth.API_VERSION[v] == 3:
                ticket = R.make_ticket(rng, tid)
                history.append({"set_system_version": v, "title_id": tid, "ticket": ticket.hex(), "plain_key": pk.hex(), "oaep_seed": seed.hex()})
                real, form = R.aauth_digital(v, tid, 7, ticket, pk, seed, client=client)
                C.add("aauth-env 0 0 %s %d %s %s" % (hx(ticket), tid, hx(pk), hx(seed)), real, "aauth-walk:v3",
                      {"sequence_on_one_client": list(history), "how": "ONE AAuthClient; set_system_version then auth_digital per step, RNG pinned"}, reference=True)
            else:
                token = "a.b.%d" % rng.randrange(1000)
                history.append({"set_system_version": v, "title_id": tid, "token": token})
                real, form = R.aauth_digital(v, tid, 7, token, pk, seed, client=client)
                if real != "nocertkey" or form.get("cert") != token:
                    oracle_fail.append(("aauth-stateful", "auth_digital on api version %d did not pass the token through: %s" % (aauth.API_VERSION[v], real[:80]),
                                        {"sequence_on_one_client": list(history)}))
    # one HppClient: the call-id counter advances (and wraps), every message is signed on its own
    for w in range(1 if quick else 6):
        s = nexsettings.default(); s["prudp.access_key"] = "".join(rng.choice("0123456789abcdef") for _ in range(8))
        pid, pw = rng.randrange(1 << 32), "pw%d" % w
        client = R.hpp_client(s, pid, pw)
        client.call_id = rng.choice([1, 0xFFFFFFFD])
        history = []
        for step in range(6 if quick else 12):
            expect_call = client.call_id
            proto, meth, body = rng.choice([1, 0x7F, 200]), rng.randrange(1, 0x7FFF), rng.randbytes(rng.randint(0, 20))
            if rng.random() < 0.3: client.set_environment(rng.choice(["L1", "D1", "T1"]))
            good = rng.random() < 0.7
            cid2 = expect_call if good else (expect_call - 1) & 0xFFFFFFFF      # a stale call id (the previous request's) must be rejected
            rb = rng.randbytes(rng.randint(0, 12))
            pl = b"\x01" + struct.pack("<II", cid2, meth | 0x8000) + rb
            resp = struct.pack("<I", len(pl)) + pl
            history.append({"protocol": proto, "method": meth, "body": body.hex(), "response": resp.hex()})
            sig, val = R.hpp_request(s, pid, pw, expect_call, proto, meth, body, 200, resp, client=client)
            data, s1, s2 = sig
            rp = {"access_key": s["prudp.access_key"], "pid": pid, "password": pw, "sequence_on_one_client": list(history)}
            C.add("hpp-sig %s %s %d %s" % (hx(bytes.fromhex(s["prudp.access_key"])), hx(pw.encode()), pid, hx(data)), "ok %s %s" % (hx(s1.encode()), hx(s2.encode())), "hpp-walk:sig", rp, reference=True)
            C.add("hpp-val %d %d %s" % (expect_call, meth, hx(resp)), val, "hpp-walk:val:" + ("ok" if good else "stale-call-id"), rp)
            # the message that was signed carries this request's call id
            if struct.unpack_from("<I", data, 5 if proto < 0x7F else 7)[0] != expect_call:
                oracle_fail.append(("hpp-stateful", "request %d on a reused HppClient does not carry its own call id" % (step + 1), rp))
            if client.call_id != (expect_call + 1) & 0xFFFFFFFF:
                oracle_fail.append(("hpp-stateful", "call id counter did not advance modulo 2^32", rp))
    # one MiiData object rebuilt after attribute changes; parse results re-built
    for w in range(2 if quick else 20):
        vals = rand_vals()
        m = R.mii_object(names, kinds, vals)
        for step in range(12 if quick else 40):
            i = rng.randrange(len(names))
            vals[i] = rand_val(kinds[i], counts[i])
            v = vals[i]
            setattr(m, names[i], bytes(v) if kinds[i] == "raw" else "".join(map(chr, v)) if kinds[i] == "wstr" else v)
            try: real = "ok " + hx(m.build())
            except Exception as e: real = "err " + R.exc_name(e)
            C.add("mii-build " + R.show_vals(vals), real, "mii-walk:build", {"fields": dict(zip(names, vals)), "how": "ONE MiiData object, attributes changed between build() calls"}, reference=True)
            if real.startswith("ok ") and rng.random() < 0.5:
                m = _miis.MiiData.parse(bytes.fromhex(real[3:]))      # continue from the parsed object
                got = R.mii_vals_of(m, names, kinds)
                if got != vals:
                    oracle_fail.append(("mii-roundtrip:walk", "parse(build()) on a reused object changed fields", {"fields": dict(zip(names, vals))}))

    # every public knob of ONE HppClient / NASCClient (and of the Settings object shared with the caller) turned between requests
    W.hpp_walks(ctx, rng, C, oracle_fail, quick)
    W.nasc_walks(ctx, rng, C, oracle_fail, quick)
    W.nnas_grid(ctx, rng, C, oracle_fail, quick)
    # EVERY request one call puts on the wire (servers whose first answer is each documented error / retry flag): aux_c19_wire.py
    X.wire_families(ctx, rng, C, oracle_fail, quick)
    # one ProdInfo object: the keys dict it was given and its data are replaced between calls
    walk_ctrs = B.carry_values(rng, 128, 16, quick)
    for w in range(1 if quick else 6):
        kname = rng.choice(["ssl_rsa_kek", "ssl_rsa_kek_personalized"])
        kek = rng.randbytes(16)
        pkeys = {kname: kek}
        devid = rng.randrange(1 << 64)
        P = R.Prod(make_prod(devid, kek), pkeys).p
        history = [{"construct": "ProdInfo(keys, file)", "keys": {kname: kek.hex()}, "device_id": devid}]
        for step in range(5 if quick else 10):
            if step > 0:
                k = rng.choice(["keys[name]=", "add-personalized", "del-personalized", "keys=", "data="])
                if k == "del-personalized" and not ("ssl_rsa_kek_personalized" in P.keys and "ssl_rsa_kek" in P.keys): k = "add-personalized"
                if k == "add-personalized" and "ssl_rsa_kek_personalized" in P.keys: k = "keys[name]="
                if k == "keys[name]=":
                    n = "ssl_rsa_kek_personalized" if "ssl_rsa_kek_personalized" in P.keys else "ssl_rsa_kek"
                    kek = rng.randbytes(16); P.keys[n] = kek
                    history.append({"do": "prodinfo.keys[%r] = %s; prodinfo.data = calibration data wrapped with that key" % (n, kek.hex())})
                elif k == "add-personalized":
                    kek = rng.randbytes(16); P.keys["ssl_rsa_kek_personalized"] = kek       # takes precedence over ssl_rsa_kek from now on
                    history.append({"do": "prodinfo.keys['ssl_rsa_kek_personalized'] = %s; prodinfo.data = data wrapped with it" % kek.hex()})
                elif k == "del-personalized":
                    del P.keys["ssl_rsa_kek_personalized"]; kek = P.keys["ssl_rsa_kek"]
                    history.append({"do": "del prodinfo.keys['ssl_rsa_kek_personalized']; prodinfo.data = data wrapped with ssl_rsa_kek"})
                elif k == "keys=":
                    kname = rng.choice(["ssl_rsa_kek", "ssl_rsa_kek_personalized"]); kek = rng.randbytes(16); P.keys = {kname: kek}
                    history.append({"do": "prodinfo.keys = {%r: %s}; prodinfo.data = data wrapped with it" % (kname, kek.hex())})
                else:
                    history.append({"do": "prodinfo.data = other calibration data (same key, other device id / counter block)"})
                devid = rng.randrange(1 << 64)
                ini = None
                if rng.random() < 0.6:
                    lab, c0 = rng.choice(walk_ctrs); ini = c0.to_bytes(16, "big")
                    history[-1]["counter_block_of_the_new_data"] = "%s (%s)" % (ini.hex(), lab)
                P.data = make_prod(devid, kek, ini)
            blob = P.data
            rp = {"sequence_on_one_object": list(history), "how": "ONE ProdInfo object; after the listed assignments get_tls_key() / get_device_id() must answer for the CURRENT keys and data"}
            try:
                got = RSA.import_key(P.get_tls_key().encode(tls.TYPE_DER)); real = "ok %d" % got.d
            except Exception as e:
                real = "err " + R.exc_name(e)
            history.append({"call": "get_tls_key", "result": real[:40]})
            C.add("prod-tlsd %s %s" % (hx(kek), hx(blob)), real, "prod-walk:tlsd", rp, reference=True)
            if real != "ok %d" % rsa.d:
                oracle_fail.append(("prod-stateful", "get_tls_key on a re-configured ProdInfo does not recover the private exponent wrapped with the current key: " + real[:60], rp))
            try: real = "ok %d" % P.get_device_id()
            except Exception as e: real = "err " + R.exc_name(e)
            if real != "ok %d" % devid:
                oracle_fail.append(("prod-stateful", "get_device_id on a ProdInfo whose data was replaced returns %s, stored id %d" % (real, devid), rp))

    # ------------------------------------------------------------------------------------------ boundary values
    # every counter / nonce / length / index these routines take from their input, AT and AROUND every carry, block and
    # width limit of its positional representation (uniform draws above never get there): see aux_c19_bounds.py
    import time as _time
    _t0, _n0 = _time.time(), len(C.lines)
    B.prod_bounds(ctx, rng, C, oracle_fail, quick, B.ProdKit(rng, tkey, der_cert))
    B.dauth_bounds(ctx, rng, C, oracle_fail, quick, drv)
    B.aauth_bounds(ctx, rng, C, oracle_fail, quick, test_key)
    B.hpp_bounds(ctx, rng, C, oracle_fail, quick)
    B.nnas_bounds(ctx, rng, C, oracle_fail, quick)
    B.nasc_bounds(ctx, rng, C, oracle_fail, quick)
    ctx.extra["boundary_lines"] = len(C.lines) - _n0
    ctx.extra["boundary_seconds_real_side"] = round(_time.time() - _t0, 1)

    # ------------------------------------------------------------------------------------------ the TYPE of a byte-string argument
    # every entry point that takes a byte string, called with the same value as bytes / bytearray / memoryview (read-only,
    # writable, window into a larger buffer) / subclasses; the caller's buffer inspected afterwards: see aux_c19_types.py
    _t0, _n0 = _time.time(), len(C.lines)
    T.type_families(ctx, rng, C, oracle_fail, quick, names, kinds, counts, built, B.ProdKit(rng, tkey, der_cert), rand_vals)
    ctx.extra["byte_type_lines"] = len(C.lines) - _n0
    ctx.extra["byte_type_seconds_real_side"] = round(_time.time() - _t0, 1)

    # ------------------------------------------------------------------------------------------ compare
    outs = par_batch(drv, C.lines)
    diffs = []
    for line, real, model, (tag, replay, reference, nontrivial) in zip(C.lines, C.reals, outs, C.meta):
        ctx.case(key=line if len(line) < 60 else hash(line), nontrivial=nontrivial, tag=tag.split(":")[0] + ":" + model.split(" ")[0] + ((":" + model.split(" ")[1]) if model.startswith("err") else ""),
                 sample={"op": line[:160], "model": model[:120], "real": real[:120]} if ctx.evaluations % 4001 == 0 else None)
        if real != model:
            diffs.append((line, real, model, tag, replay, reference))
    ctx.traces_validated = len(C.lines)
    ctx.extra["correspondence_lines"] = len(C.lines)
    ctx.extra["correspondence_diffs"] = len(diffs)
    ctx.extra["oracle_failures"] = len(oracle_fail)

    for key, what, replay in oracle_fail[:40]:
        ctx.violation(key, what, replay)
    # a difference from a Lean *reference implementation* is itself the failing input of "agrees with an independent reference"
    for line, real, model, tag, replay, reference in diffs:
        if reference:
            r = dict(replay or {}); r.update({"op": line, "real": real, "reference": model})
            ra, rb = real.split(" "), model.split(" ")
            if tag.split(":")[0] in ("hpp-knobs", "dauth-walk") and "walk" in line.split(" ")[0] and len(ra) == len(rb):
                k = next(i for i in range(len(ra)) if ra[i] != rb[i])
                r.update({"first_wrong_record": k, "record_real": ra[k], "record_reference": rb[k]})
                ctx.violation("reference:" + tag.split(":")[0], "%s: call %d of the sequence on ONE object is not authenticated for the values in force when it was made "
                              "(library %s, reference %s)" % (tag, k, ra[k][:120], rb[k][:120]), r)
                continue
            ctx.violation("reference:" + tag.split(":")[0], "%s: the library's result differs from the independent reference implementation" % tag, r)
    if (diffs or layout_broken or const_broken) and not ctx.violations and not ctx.known_hits:
        if diffs:
            line, real, model, tag, replay, reference = diffs[0]
            ctx.corr_break("model-correspondence", "real code and Lean model disagree on %d of %d lines (first: %s)" % (len(diffs), len(C.lines), tag),
                           {"first_op": line[:4000], "real": real[:2000], "model": model[:2000], "theorems_no_longer_tied": ["Nx.C19.mii_parse_build", "Nx.C19.nasc_roundtrip"]})
        elif layout_broken:
            ctx.corr_break("mii-layout-obligation", "the layout extracted from miis.py no longer equals the Lean constant: %s %s" % (x["problems"][:3], out[-600:]), {"extracted": x["dec"][:80]})
        else:
            ctx.corr_break("constants-obligation", "a literal constant of the source no longer equals the Lean constant: " + cout[-800:], {})


def par_batch(drv, lines, nproc=8):
    """the compiled model is a stateless line filter: split the batch over several driver processes (interleaved, so the
    expensive 65000-round key derivations spread out) and put the answers back in order"""
    if len(lines) < 64:
        return drv.batch(lines)
    from concurrent.futures import ThreadPoolExecutor
    chunks = [lines[i::nproc] for i in range(nproc)]
    with ThreadPoolExecutor(nproc) as ex:
        res = list(ex.map(drv.batch, chunks))
    out = [None] * len(lines)
    for i, r in enumerate(res):
        out[i::nproc] = r
    return out


def _pad(m):
    from Crypto.Util.Padding import pad
    return pad(m, 16)


def _rand(rng):
    return lambda n: rng.randbytes(n)
