"""C14 — values survive a client -> server -> client round trip through any generated method.

Tie of the theorems of NxProps/C14.lean to the tree:
 * every supported method of every generated module is called through the real generated client -> real RMCClient
   -> in-memory transport (a pair of queues; the PRUDP layer is C01's) -> real RMCClient -> real generated server
   with a recording implementation; the arguments the implementation saw and the values the caller got back are
   compared, as canonical trees, with what was passed / returned (the interpreter's `visible` value: gated-out
   attributes keep their defaults);
 * every method with a string-valued position (arguments, results, structure fields, list / map elements and keys, station
   URLs, variants, anydata contents) is repeated under every configuration with non-ASCII text and with a string from the
   EDGES of the value domain in every such position (harness/c14_values.py: ending in / consisting of / containing U+0000,
   white space and control characters at either end, BOM, U+D7FF / U+E000 / U+FFFD..U+FFFF, normalisation-sensitive text,
   encoded lengths 254..256, 32766..32768, 65533, 65534 = the longest encodable string, map keys that differ only in such
   a tail); the same mode is drawn for a share of the calls of the bursts, the PRUDP sessions and the mixed sessions;
 * struct headers are never set by the harness: they follow from the transport's minor version (struct_header_auto);
 * unsupported methods, methods left at the generated stub, unknown method and protocol ids -> Core::NotImplemented;
 * state must not leak between connections: sequences of connections with mixed minor versions sharing one Settings
   object per side behave exactly like fresh pairs with fresh Settings, and the caller's Settings object is unchanged;
 * for every versioned structure: the revision byte raised and 1..16 bytes spliced into the length-prefixed body ->
   same fields, rest untouched (forward_compat); the generated obligations `rev_ascending_<Struct>` are the
   theorem's hypothesis;
 * the WHOLE path (harness/c14_wire.py): real generated client -> RMCClient -> real PRUDP connection (rmc.connect) ->
   simulated network (harness/sim.py, virtual time) -> real PRUDP server (rmc.serve) -> RMCClient -> generated server, under
   every shipped settings profile (default = v1, 3ds and friends = v0, switch = lite; loaded with the library's loader),
   with and without credentials, client / server configured with different minor versions, a dozen calls per connection
   (plain, structure-carrying, anydata, values large enough to fragment, calls in flight together, pauses that let
   retransmissions happen) under duplication, reordering, loss of data and of acknowledgements within the retransmission
   budget, re-chunking of the lite byte stream; per call the same oracle as above, per connection the minor version and
   structure-header flag of BOTH real RMCClient objects against the model's `conn` line (both_ends_same_codec,
   negotiated_minor_is_handshake); rpc_request/response_over_faulty_network are the theorems this ties;
 * SEVERAL protocols on one connection, in both directions (harness/c14_mixed.py): an ordinary protocol next to a
   response-less one (Notification, MessageDelivery, NintendoNotification: found from `set noresponse` in the definitions),
   the response-less protocol handled by the accepting side, the connecting side, both, neither; sequences of steps in which
   one-way calls stand directly in front of ordinary calls, several in a row, mixed groups in flight together, ordinary calls
   whose implementation pushes one-way calls to its caller, stubs and unserved protocols in between; over the in-memory pair
   (every negotiated minor version, direct / yielding sends, call id counters near the wrap) and over the real PRUDP leg of every
   shipped profile under the fault regimes; oracle: every ordinary call gets exactly its implementation's values (never
   NotImplemented for an implemented method), only stubs / unserved protocols yield NotImplemented, every one-way call reaches
   a registered handler's implementation exactly once with the arguments given; every instrumented RMCClient's requests / received
   datagrams / resumptions are replayed through the Lean call-matching machine (rpc_mixed_one_way_own_result,
   one_way_request_has_its_own_call_id); failing sessions are shrunk before they are reported;
 * the NotImplemented clause for requests that CARRY parameters (harness/c14_notimpl.py): under every configuration of the module,
   every method the definition marks unsupported, unknown method ids (0/1, max+1, max+1000, 2^32-1, one drawn) and unregistered
   protocol ids (one-byte and extended form) as raw RMC requests with non-empty bodies (one byte, a u32, a hand-made stream, the
   generated client's encoding of a sibling method's arguments, an encoded structure of the module, arbitrary bytes of 1..2048) ->
   Core::NotImplemented whatever the body; EVERY supported method left at the generated stub through the generated client with
   schema-directed arguments -> Core::NotImplemented, and as raw requests with that encoding plus trailing bytes / truncated /
   one byte changed / arbitrary bytes, judged against a twin server that implements the method: the implementation reached ->
   the stub server answers Core::NotImplemented, not reached (parameters undecodable) -> at least not a success; `dispatch`
   (which has no body argument: not_supported / supported_runs) and `sreq` replayed through the driver.
"""
import multiprocessing, os, time
import vf
from schema_proto2lean import load_env
import schema_tie as T
import schema_rpc as R
import c14_wire as W14
import c14_mixed as X14
import c14_notimpl as N14
from corr_C13 import obligations, proto_names

LEVEL = "proof"

WIRE_CORE = ("ranking", "authentication", "matchmaking", "datastore")      # structures + buffers, anydata, versioned structures, big lists


def _run_task(t):
    if t[0] == "notimpl": return N14.task(t[1])
    return W14.task(t[1]) if t[0] == "wire" else (X14.task(t[1]) if t[0] == "mixed" else R.task(t[1]))


def run(ctx):
    repo = vf.REPO
    quick = ctx.tier == "quick"
    protodir = os.path.join(repo, "nintendo/files/proto")
    exe = ctx.driver().exe
    ctx.rule = ("every supported method of every generated module called through generated client -> RMCClient -> in-memory transport -> RMCClient -> generated "
                "server with a recording implementation, under nex.version in {0, every gate, gate-1, 99999} x (minor version <3 / >=3, which decides the struct header) x pid size 4/8, "
                "%s schema-directed value set(s) per (method, configuration), every method with a string-valued position repeated with non-ASCII text and again with a string from the EDGES "
                "of the domain in every such position (ending in / only / containing U+0000, white space and control characters at the ends, BMP border characters, lengths at the borders of the "
                "16-bit prefix up to the longest encodable string of 65534 bytes, map keys differing only in their tail); every unsupported / unimplemented / unknown method and an unknown protocol per module; "
                "every versioned structure under every header-on configuration with %s; "
                "per module slice and protocol: sequences of 7 connections with mixed negotiated minor versions (4,2,4,0,3 plus two random) in which the server side, the client side, "
                "or both pass ONE shared Settings object to every RMCClient, 3 structure-carrying calls per connection, each connection compared (wire bytes, arguments seen, results, "
                "header flags) with a fresh pair with fresh Settings, and the shared Settings objects compared with their snapshot; "
                "over the real PRUDP leg in simulation: %s generated modules x the 4 shipped settings profiles (default v1, 3ds v0, friends v0, switch lite) x %s sessions each "
                "(one connection, 14..15 calls incl. a group in flight together, fragmenting values, with/without credentials, differing minor versions on the two ends) under "
                "clean / duplicating / reordering / lossy / ack-losing / all-at-once networks (every distinct datagram lost at most once) resp. a re-chunked byte stream; "
                "several protocols on ONE connection in both directions: %s ordinary modules x every module with a response-less protocol (Notification, MessageDelivery, NintendoNotification) x "
                "%s in-memory sessions (handler for the response-less protocol on the accepting side / the connecting side / both / neither, cyclically; every minor version; direct and yielding sends; "
                "call id counters fresh and near the wrap) + one session per shipped profile over the simulated network: 12..30 calls per session — one-way calls directly in front of ordinary calls, "
                "runs of one-way calls, mixed groups in flight together, implementations that push one-way calls to their caller, stubs, calls to a side that does not serve the protocol — "
                "every call judged (values / NotImplemented / handler reached exactly once), every RMCClient's events replayed through the Lean call-matching machine. "
                "requests that carry parameters to what is not implemented, per module x EVERY configuration x protocol with responses: every unsupported method, 5..6 unknown method ids, 2 unregistered protocol ids "
                "as raw requests with %s non-empty bodies each (one byte, u32, hand-made stream, a sibling method's generated-client encoding, an encoded structure, arbitrary bytes) -> Core::NotImplemented; "
                "every supported method at the generated stub through the generated client with schema-directed arguments and as %s raw variants of that encoding (trailing bytes; truncated / byte changed / arbitrary), "
                "each judged against a twin server implementing the method (implementation reached => the stub server says Core::NotImplemented; otherwise no success). "
                "distinct non-trivial = distinct (module, method or structure, configuration, repetition or splice) cases whose oracle held"
                % ("1" if quick else "4", "8 (revision, extra bytes) splices" if quick else "every higher revision up to 255 and every extra length 1..16",
                   "7 (4 fixed + 3 drawn)" if quick else "all", "6" if quick else "24", "8 (4 fixed + 4 drawn)" if quick else "all", "12" if quick else "48",
                   "up to 8 (3 arbitrary lengths drawn)" if quick else "up to 18 (arbitrary lengths 1,2,3,5,8,13,16,33,64,255,256,1024,2048)", "2" if quick else "4"))
    envs = {}
    for n in proto_names(repo):
        env, problem = load_env(protodir, repo, n)
        if problem:
            ctx.corr_break("proto-readers:" + n, "the two .proto readers disagree / fail on %s.proto: %s" % (n, problem), {"file": n})
        if env is not None: envs[n] = env
    # ---- generated obligations: revisions ascending, per versioned structure
    failing_obl = []
    for name, thm, ok, out in obligations(ctx, {n: e for n, e in envs.items() if e.versioned()}, which=("rev",)):
        ctx.obligation(ok)
        if not ok: failing_obl.append((name, thm[len("rev_ascending_"):], out))
    # ---- the tie
    per_item = 1 if quick else 4
    tasks, weight = [], {}
    for n, env in envs.items():
        cfgs = T.module_configs(env)
        w = sum(len(p["methods"]) for p in env.protos) * len(cfgs) + 200 * len(env.versioned())
        weight[n] = w
        nchunks = max(1, min(len(cfgs), round(w / (1200 if quick else 300))))
        size = (len(cfgs) + nchunks - 1) // nchunks
        for i in range(0, len(cfgs), size):
            tasks.append(("rpc", (repo, n, cfgs[i:i + size], ctx.seed, per_item, exe, not quick)))
    tasks.sort(key=lambda t: -weight[t[1][1]] * len(t[1][2]))
    # ---- the whole path over the simulated network
    wire_mods = sorted(envs)
    if quick:
        core = [m for m in WIRE_CORE if m in envs]
        rest = [m for m in wire_mods if m not in core]
        wire_mods = core + ctx.rng.sample(rest, min(3, len(rest)))
    wire_tasks = [("wire", (repo, n, prof, ctx.seed, exe, 6 if quick else 24)) for n in wire_mods for prof in W14.PROFILES]
    # ---- several protocols on one connection (ordinary + response-less), both directions
    one_way_mods = sorted(n for n, e in envs.items() if X14.one_way_protocols(e))
    mixed_mods = sorted(n for n, e in envs.items() if X14.ordinary_protocols(e))
    if quick:
        core = [m for m in WIRE_CORE if m in mixed_mods]
        rest = [m for m in mixed_mods if m not in core]
        mixed_mods = core + ctx.rng.sample(rest, min(4, len(rest)))
    mixed_tasks = [("mixed", (repo, n, nr, ctx.seed, exe, 12 if quick else 48, W14.PROFILES if quick else W14.PROFILES * 3))
                   for n in mixed_mods for nr in one_way_mods]
    # ---- non-empty parameter bodies to unsupported / unknown / unimplemented methods: every configuration of every module
    ni_tasks = []
    for n, env in sorted(envs.items()):
        cfgs = T.module_configs(env)
        size = 8 if quick else 4
        for i in range(0, len(cfgs), size):
            ni_tasks.append(("notimpl", (repo, n, cfgs[i:i + size], ctx.seed, exe, not quick)))
    # interleave: the long rpc slices first, the short wire / mixed sessions fill the gaps
    tasks = tasks[:16] + wire_tasks + mixed_tasks + tasks[16:] + ni_tasks
    mp = multiprocessing.get_context("fork")
    methods, fc_cases = {}, 0
    soft, hard, worker_errors = [], [], []
    with mp.Pool(processes=min(16, os.cpu_count() or 4), maxtasksperchild=1) as pool:
        for res in pool.imap_unordered(_run_task, tasks):
            if res["error"]:
                # never abort here: the other workers' findings (failing inputs) are what gets reported; see below
                worker_errors.append(res)
            methods[res["module"]] = max(methods.get(res["module"], 0), res["methods"])
            fc_cases += res["fc_cases"]
            for k in res["keys"]: ctx.case(key=k, nontrivial=True)
            ctx.evaluations += res["cases"] - len(res["keys"])
            for t, c in res["tags"].items(): ctx.tag(t, c)
            for s in res["samples"]:
                if len(ctx.samples) < 6: ctx.samples.append(s)
            ctx.traces_validated += res["lines"]
            for d in res["diffs"]:
                (soft if d.get("soft") else hard).append(d)
    for res in worker_errors:
        if res.get("error_in_library"):
            # the tree under test raised where the harness does not even expect an error: a failure of the code, with what is known of the input
            hard.append({"key": "%s:worker" % res["module"], "vkey": "library-exception:%s:worker" % res["module"], "module": res["module"],
                         "what": "the library raised while module %s was driven (no unit of work isolated it): %s" % (res["module"], res["error"].strip().splitlines()[-1][:300]),
                         "traceback": res["error"][-4000:]})
    infra = [r for r in worker_errors if not r.get("error_in_library")]
    if infra and not hard:
        raise vf.InfraError("worker for %s crashed:\n%s" % (infra[0]["module"], infra[0]["error"]))
    if infra:
        ctx.extra["worker_errors"] = ["%s: %s" % (r["module"], r["error"].strip().splitlines()[-1][:300]) for r in infra]
    seen_fc = set()
    # one violation per key: prefer the most telling failing input (a later connection misbehaving) over its cause
    hard.sort(key=lambda d: (0 if "does not behave like a fresh pair" in d["what"] else (1 if "struct_header_auto says" in d["what"] else (3 if d.get("vkey", "").startswith("library-exception:") else 2)),
                             d.get("size", 0) if d.get("vkey", "").startswith("mixed-protocols:") else 0))      # of several failing mixed sessions report the shortest
    for d in hard:
        vkey = d.get("vkey", d["key"])
        if vkey.startswith("forward-compat:"): seen_fc.add(vkey)
        if vkey.startswith("struct-roundtrip:"): seen_fc.add("forward-compat:" + vkey[len("struct-roundtrip:"):])    # a failing input for that structure is reported
        d = {k: v for k, v in d.items() if k != "size"}
        ctx.violation(vkey, d["what"], dict({"how": "harness/schema_rpc.py: real generated classes of nintendo.nex.<module>, settings (nex.version, struct_header, pid_size)=cfg"}, **d))
    for name, sname, out in failing_obl:
        if "forward-compat:%s:%s" % (name, sname) not in seen_fc:
            ctx.corr_break("obligation:%s:rev_ascending_%s" % (name, sname),
                           "revisions of %s (%s.proto) are not ascending (max_version does not bound every reachable revision block) but no splice broke the real decoder" % (sname, name),
                           {"file": name, "struct": sname, "lean_output": out[-1200:]})
    # the client's call matching differs from the model on an observed burst, and no caller was affected
    mux_soft = [d for d in soft if d.get("model_disagreements")]
    soft = [d for d in soft if not d.get("model_disagreements")]
    if mux_soft and not any(v[0].startswith(("concurrent-calls:", "mixed-protocols:")) for v in ctx.violations):
        ctx.corr_break("call-matching-correspondence", "%d bursts of concurrent calls on which RMCClient's call matching (call ids, returned bodies) differs from the model although every caller got its own values: %s" % (
            len(mux_soft), mux_soft[0]["what"][:300]), mux_soft[0])
    if soft and not ctx.violations and not ctx.known_hits:
        ctx.corr_break("model-correspondence", "%d inputs on which the real code and the model differ (spliced structures / call matching), none of which breaks the property: %s" % (len(soft), soft[0]["what"][:200]), soft[0])
    ctx.programs = sum(methods.values())
    ctx.exhaustive = True
    ctx.extra["modules"] = len(envs)
    ctx.extra["methods"] = sum(methods.values())
    ctx.extra["forward_compat_splices"] = fc_cases
    ctx.extra["connection_sequence_steps"] = sum(c for t, c in ctx.tags.items() if t.startswith("seq:"))
    ctx.extra["concurrent_bursts"] = sum(c for t, c in ctx.tags.items() if t.startswith("burst:") and "-in-flight:" in t)
    ctx.extra["calls_made_in_bursts"] = ctx.tags.get("burst:calls-matched", 0)
    ctx.extra["non_ascii_repetitions"] = sum(c for t, c in ctx.tags.items() if t.startswith("rpc-nonascii-rep:") and not t.endswith("string-positions"))
    ctx.extra["non_ascii_string_positions"] = ctx.tags.get("rpc-nonascii-rep:string-positions", 0)
    ctx.extra["edge_string_repetitions"] = sum(c for t, c in ctx.tags.items() if t.startswith("rpc-edge-rep:") and not t.startswith("rpc-edge-rep:strings:"))
    ctx.extra["edge_string_positions"] = sum(c for t, c in ctx.tags.items() if t.startswith("rpc-edge-rep:strings:"))
    ctx.extra["edge_strings_of_the_longest_encodable_length"] = ctx.tags.get("rpc-edge-rep:strings:longest", 0)
    ctx.extra["wire_sessions"] = sum(c for t, c in ctx.tags.items() if t.startswith("wire:") and t.split(":")[1] in W14.PROFILES)
    ctx.extra["wire_calls_ok"] = sum(c for t, c in ctx.tags.items() if t.startswith("wire-call:") and t.endswith(":ok"))
    ctx.extra["wire_datagrams"] = ctx.tags.get("wire:datagrams", 0)
    ctx.extra["wire_network_faults"] = ctx.tags.get("wire:faults", 0)
    ctx.extra["mixed_protocol_sessions"] = sum(c for t, c in ctx.tags.items() if t.startswith("mixed:") and ":handlers-" in t)
    ctx.extra["mixed_protocol_sessions_over_prudp"] = sum(c for t, c in ctx.tags.items() if t.startswith("mixed-wire:"))
    ctx.extra["mixed_protocol_calls_ok"] = sum(c for t, c in ctx.tags.items() if t.startswith("mixed-call:"))
    ctx.extra["mixed_one_way_calls_ok"] = sum(c for t, c in ctx.tags.items() if t.startswith("mixed-call:") and ":nr:" in t)
    ctx.extra["mixed_call_matching_lines_replayed"] = ctx.tags.get("mixed:mux-lines", 0)
    ctx.extra["not_implemented_requests_with_parameters"] = sum(c for t, c in ctx.tags.items() if t.startswith("notimpl-body:") and t.split(":")[1] in ("unsupported", "unknown-method", "unknown-protocol", "unimplemented"))
    ctx.extra["not_implemented_stub_raw_variants"] = sum(c for t, c in ctx.tags.items() if t.startswith("notimpl-body:stub-raw:decodable:") or t.startswith("notimpl-body:stub-raw:undecodable:"))
    ctx.extra["not_implemented_stub_raw_variants_reaching_an_implementation"] = sum(c for t, c in ctx.tags.items() if t.startswith("notimpl-body:stub-raw:decodable:"))
    ctx.extra["versioned_structures"] = sum(len([s for s in e.versioned() if s["name"] in e.structs]) for e in envs.values())
    ctx.extra["disagreements"] = len(hard) + len(soft)
    ctx.assumptions.append("in the per-method sweep the PRUDP layer between the two RMCClient instances is replaced by a pair of in-memory queues; the whole path (real PRUDP endpoints, "
                           "simulated faulty network) is exercised on a subset of modules in the quick tier and on all modules in the thorough tier, with sampled methods and fault schedules")
    ctx.assumptions.append("simulated network faults stay inside the retransmission budget: each distinct datagram is lost at most once, delays stay below a quarter of the resend timeout")
    ctx.assumptions.append("values are compared as canonical trees: strings as UTF-8 bytes, floats as IEEE bit patterns, DateTime/Result as integers; gated-out attributes must keep the fresh instance's default")
