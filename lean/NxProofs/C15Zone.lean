import NxModel.Nex.C15Zone
import NxProofs.NexDateTime
/-! C15, zones whose rules changed: `local_to_seconds` inverts `local` at every instant whose civil time
occurs once, provided the zone shows at most one rule change within three days of the instant. -/
namespace Nx.Nex.Zone
open Nx Nx.Nex Nx.Nex.DateTime

/-- a zone with exactly one rule change, between ANY two offsets (no bound needed) -/
theorem localToSeconds_two (T a b u : Int)
    (once : ∀ u', localOf (zTwo T a b) u' = localOf (zTwo T a b) u → u' = u) :
    localToSeconds (zTwo T a b) (localOf (zTwo T a b) u) = u := by
  have h1 := once (u + a - b)
  have h2 := once (u + b - a)
  simp only [localToSeconds, localOf, zTwo] at *
  grind

/-- the routine looks at the zone only within two days of `t` -/
theorem localToSeconds_congr (z z' : Zone) (t : Int)
    (hb : ∀ x, -86400 ≤ z' x ∧ z' x ≤ 86400)
    (h : ∀ x, t - 172800 ≤ x → x ≤ t + 172800 → z x = z' x) :
    localToSeconds z t = localToSeconds z' t := by
  have b0 := hb t
  have e0 := h t (by omega) (by omega)
  have b1 := hb (t - z' t)
  have e1 := h (t - z' t) (by omega) (by omega)
  have b2 := hb (t - z' t - 86400)
  have e2 := h (t - z' t - 86400) (by omega) (by omega)
  have e3 := h (t - z' (t - z' t)) (by omega) (by omega)
  have e4 := h (t - z' (t - z' t - 86400)) (by omega) (by omega)
  simp only [localToSeconds, localOf]
  grind

theorem zTwo_bound (T a b : Int) (ha : -86400 ≤ a ∧ a ≤ 86400) (hb : -86400 ≤ b ∧ b ≤ 86400) (x : Int) :
    -86400 ≤ zTwo T a b x ∧ zTwo T a b x ≤ 86400 := by
  unfold zTwo; split <;> assumption

/-- ANY zone: if within three days of the instant `u` the zone shows at most one rule change (offsets
within a day of UTC, as all real ones are) and the civil time of `u` occurs once, the routine returns `u`. -/
theorem localToSeconds_once (z : Zone) (T a b u : Int)
    (ha : -86400 ≤ a ∧ a ≤ 86400) (hb : -86400 ≤ b ∧ b ≤ 86400)
    (hz : ∀ x, u - 259200 ≤ x → x ≤ u + 259200 → z x = zTwo T a b x)
    (once : ∀ u', localOf z u' = localOf z u → u' = u) :
    localToSeconds z (localOf z u) = u := by
  have bu := zTwo_bound T a b ha hb u
  have eu := hz u (by omega) (by omega)
  have hl : localOf z u = localOf (zTwo T a b) u := by simp only [localOf, eu]
  rw [hl, localToSeconds_congr z (zTwo T a b) _ (zTwo_bound T a b ha hb)]
  · apply localToSeconds_two
    intro u' hu'
    have bu' := zTwo_bound T a b ha hb u'
    have hw : z u' = zTwo T a b u' := by
      simp only [localOf] at hu'
      exact hz u' (by omega) (by omega)
    apply once
    simp only [localOf, hw, eu]
    simpa only [localOf] using hu'
  · intro x h1 h2
    simp only [localOf] at h1 h2
    exact hz x (by omega) (by omega)

/-- Unix time → DateTime → Unix time in a zone with a history -/
theorem timestampZ_fromTimestampZ (z : Zone) (T a b t : Int)
    (ha : -86400 ≤ a ∧ a ≤ 86400) (hb : -86400 ≤ b ∧ b ≤ 86400)
    (hz : ∀ x, t - 259200 ≤ x → x ≤ t + 259200 → z x = zTwo T a b x)
    (once : ∀ t', t' + z t' = t + z t → t' = t)
    (h1 : yearOk (t + z t + E) = true) (h2 : yearOk (t + z t + E - 86400) = true) :
    ∃ v, fromTimestampZ z t = .ok v ∧ timestampZ z v = .ok t := by
  unfold fromTimestampZ fromTimestamp
  simp only [E] at h1 h2
  simp only [h1, h2, Bool.and_self, if_true]
  refine ⟨_, rfl, ?_⟩
  generalize hs : t + z t + (epochZ * 86400 : Nat) = s at *
  simp only [yearOk, Bool.and_eq_true, decide_eq_true_eq] at h1 h2
  have hn1 : 306 * 86400 ≤ s.toNat := by omega
  have hn2 : s.toNat < 3652365 * 86400 := by omega
  obtain ⟨hv, hr⟩ := fieldsOfSecondsZ_valid s.toNat hn1 hn2
  unfold timestampZ
  simp only [fields_make _ hr, hv, if_true, secondsZ_fieldsOfSecondsZ, Except.ok.injEq]
  have hsn : (s.toNat : Int) = s := by omega
  -- the zone on the scale of the routine
  have key := localToSeconds_once (fun x => z (x - E)) (T + E) a b (t + E) ha hb
    (by
      intro x hx1 hx2
      have := hz (x - E) (by omega) (by omega)
      simp only [this, zTwo]
      by_cases hc : x - E < T
      · have : x < T + E := by omega
        simp [hc, this]
      · have : ¬ x < T + E := by omega
        simp [hc, this])
    (by
      intro u' hu'
      simp only [localOf] at hu'
      have e : t + E - E = t := by omega
      rw [e] at hu'
      have := once (u' - E) (by omega)
      omega)
  have e : t + E - E = t := by omega
  simp only [localOf, e] at key
  have hs' : t + E + z t = (s.toNat : Int) := by simp only [E]; omega
  rw [hs'] at key
  rw [key]; omega

end Nx.Nex.Zone
