import NxProofs.Channel
/-!
# C01 — the receiver only ever decodes what the sender encoded, at the position where it was encoded

With compression on, decoding can *fail* (`zlib.decompress` raises on bytes that are not a zlib stream), and a raised
exception inside `process_reliable` leaves the receiver with a window that has advanced past packets whose payload was
never handed on. So the refinement of the endpoint model to the channel needs to know that no decode in the release loop
is ever applied to anything but a genuine encoding at the matching cipher position. That is a fact about the channel, proved
here once and for all: `Core.wellAt c r ws` says that every data wire of `ws` that the core `r` would decode (i.e. that it
reaches while open) is empty or is `c.enc` *at the position the core has then* of some plaintext. The sender's log has
this property from the initial core (`logWell_step`: every sender step keeps it — new wires are produced at `encPos`, and
`SndInv` says that is where the core stands after the whole log), hence every run the window releases has it from the
receiver's current core (`released_well`: the receiver's core is the initial core after `log.take nrel`, and what the window
releases is `log[nrel ..< nrel']`).
-/
namespace Nx.Chan
open Nx

def Core.wellAt (c : Cipher) : Core → List Wire → Prop
  | _, [] => True
  | r, w :: ws =>
    r.closed = true ∨
    (match w.kind with
     | .data fid => (w.cipher = [] ∨ ∃ x, w.cipher = c.enc r.decPos x) ∧
         Core.wellAt c { r with decPos := r.decPos + w.cipher.length,
                                reasm := r.reasm.absorb fid (if w.cipher.isEmpty then w.cipher else c.dec r.decPos w.cipher) } ws
     | .ping => Core.wellAt c r ws
     | .disconnect => True)

theorem wellAt_of_closed (c : Cipher) (r : Core) (l : List Wire) (h : r.closed = true) : Core.wellAt c r l := by
  cases l with
  | nil => trivial
  | cons w ws => exact Or.inl h

theorem wellAt_append (c : Cipher) (a b : List Wire) : ∀ r : Core,
    Core.wellAt c r (a ++ b) ↔ (Core.wellAt c r a ∧ Core.wellAt c (Core.consume c r a) b) := by
  induction a with
  | nil => intro r; simp [Core.wellAt, Core.consume]
  | cons w ws ih =>
    intro r
    cases hcl : r.closed with
    | true =>
      have : Core.consume c r (w :: ws) = r := consume_closed c r _ hcl
      rw [this]
      exact ⟨fun _ => ⟨Or.inl hcl, wellAt_of_closed c r b hcl⟩, fun _ => Or.inl hcl⟩
    | false =>
      simp only [List.cons_append, Core.wellAt, Core.consume, hcl, Bool.false_eq_true, false_or, if_false]
      cases hk : w.kind with
      | data fid =>
        simp only []
        rw [ih]
        exact ⟨fun h => ⟨⟨h.1, h.2.1⟩, h.2.2⟩, fun h => ⟨h.1.1, h.1.2, h.2⟩⟩
      | ping => simp only []; exact ih r
      | disconnect =>
        simp only [true_and, true_iff]
        exact wellAt_of_closed c _ b rfl

/-- the wires `wiresOf` produces from position `pos` are well-encoded for a core standing at `pos` -/
theorem wellAt_wiresOf (c : Cipher) : ∀ (fs : List Frag) (id pos : Nat) (r : Core), r.decPos = pos →
    Core.wellAt c r (wiresOf c id pos fs) := by
  intro fs
  induction fs with
  | nil => intro id pos r _; trivial
  | cons f fs ih =>
    intro id pos r hp
    simp only [wiresOf, Core.wellAt]
    refine Or.inr ⟨?_, ?_⟩
    · by_cases he : f.data.isEmpty = true
      · left; simp only [he, if_true]; simpa using he
      · right; simp only [he, Bool.false_eq_true, if_false]; exact ⟨f.data, by rw [hp]⟩
    · apply ih
      show r.decPos + _ = pos + _
      rw [hp]

/-- position and openness after a run of data wires -/
theorem consume_data_decPos (c : Cipher) : ∀ (ws : List Wire) (r : Core), (∀ w ∈ ws, ∃ fid, w.kind = .data fid) → r.closed = false →
    (Core.consume c r ws).decPos = r.decPos + wiresLen ws ∧ (Core.consume c r ws).closed = false := by
  intro ws
  induction ws with
  | nil => intro r _ h; exact ⟨rfl, h⟩
  | cons w ws ih =>
    intro r hall hcl
    obtain ⟨fid, hk⟩ := hall w List.mem_cons_self
    simp only [Core.consume, hcl, Bool.false_eq_true, if_false, hk, wiresLen]
    have := ih ⟨r.decPos + w.cipher.length,
                r.reasm.absorb fid (if w.cipher.isEmpty then w.cipher else c.dec r.decPos w.cipher), false⟩
      (fun x hx => hall x (List.mem_cons_of_mem _ hx)) rfl
    refine ⟨?_, this.2⟩
    rw [this.1]
    show r.decPos + w.cipher.length + wiresLen ws = r.decPos + (w.cipher.length + wiresLen ws)
    omega

theorem wiresOf_all_data (c : Cipher) : ∀ (fs : List Frag) (id pos : Nat), ∀ w ∈ wiresOf c id pos fs, ∃ fid, w.kind = .data fid := by
  intro fs
  induction fs with
  | nil => intro id pos w hw; cases hw
  | cons f fs ih =>
    intro id pos w hw
    simp only [wiresOf, List.mem_cons] at hw
    rcases hw with h | h
    · exact ⟨f.fragId, by rw [h]⟩
    · exact ih _ _ w h

/-- while the sender is open, the core stands at `encPos`, open, after the whole log -/
theorem sndInv_log_pos {c : Cipher} {start : Nat} {s : Sender} (h : SndInv c start s) (hcl : s.closing = false) :
    (Core.consume c core0 s.log).decPos = s.encPos ∧ (Core.consume c core0 s.log).closed = false := by
  have hopen := sndInv_log_open h hcl
  have hl := h.live hcl
  rw [consume_append] at hl
  have hd := consume_data_decPos c (wiresOf c s.nextId s.encPos s.pending) (Core.consume c core0 s.log) (wiresOf_all_data c _ _ _) hopen
  rw [hl] at hd
  refine ⟨?_, hopen⟩
  have := hd.1
  simp only [] at this
  omega

/-- **every step of the sender keeps the log well-encoded** -/
theorem logWell_send (c : Cipher) (size start : Nat) (s : Sender) (m : Bytes) (h : SndInv c start s)
    (hw : Core.wellAt c core0 s.log) : Core.wellAt c core0 (s.send c size m).log := by
  unfold Sender.send
  split
  · exact hw
  · rename_i hc
    have hcl : s.closing = false := by cases hh : s.closing <;> simp_all
    show Core.wellAt c core0 (s.log ++ _)
    rw [wellAt_append]
    exact ⟨hw, wellAt_wiresOf c _ _ _ _ (sndInv_log_pos h hcl).1⟩

theorem logWell_frag (c : Cipher) (start : Nat) (s : Sender) (h : SndInv c start s)
    (hw : Core.wellAt c core0 s.log) : Core.wellAt c core0 (s.frag c).log := by
  unfold Sender.frag
  split
  · exact hw
  · rename_i f fs hp
    show Core.wellAt c core0 (s.log ++ _)
    rw [wellAt_append]
    refine ⟨hw, ?_⟩
    cases hcl : s.closing with
    | true => exact wellAt_of_closed c _ _ (h.dead hcl).1
    | false =>
      have hpos := (sndInv_log_pos h hcl).1
      have := wellAt_wiresOf c [f] s.nextId s.encPos (Core.consume c core0 s.log) hpos
      simpa [wiresOf] using this

theorem logWell_ping (c : Cipher) (s : Sender) (hw : Core.wellAt c core0 s.log) : Core.wellAt c core0 s.ping.log := by
  show Core.wellAt c core0 (s.log ++ _)
  rw [wellAt_append]
  refine ⟨hw, ?_⟩
  simp only [Core.wellAt]
  exact Or.inr trivial

theorem logWell_disconnect (c : Cipher) (s : Sender) (hw : Core.wellAt c core0 s.log) : Core.wellAt c core0 s.disconnect.log := by
  unfold Sender.disconnect
  split
  · exact hw
  · show Core.wellAt c core0 (s.log ++ _)
    rw [wellAt_append]
    refine ⟨hw, ?_⟩
    simp only [Core.wellAt]
    exact Or.inr trivial

theorem logWell_step (c : Cipher) (size start : Nat) (ch : Chan) (op : Op) (h : SndInv c start ch.s)
    (hw : Core.wellAt c core0 ch.s.log) : Core.wellAt c core0 (step c size ch op).s.log := by
  cases op with
  | send m => exact logWell_send c size start ch.s m h hw
  | «begin» m =>
    show Core.wellAt c core0 (ch.s.begin size m).log
    unfold Sender.begin
    split <;> exact hw
  | frag => exact logWell_frag c start ch.s h hw
  | ping => exact logWell_ping c ch.s hw
  | disconnect => exact logWell_disconnect c ch.s hw
  | arrive j =>
    simp only [step]
    split <;> exact hw

/-- **what the window releases is well-encoded for the receiver's core** -/
theorem released_well (c : Cipher) (start : Nat) (ch : Chan) (j : Nat) (w : Wire)
    (hs : SndInv c start ch.s) (h : RcvInv c start ch) (hwell : Core.wellAt c core0 ch.s.log) (hw : ch.s.log[j]? = some w)
    (h1 : j < ch.r.nrel + 32768) (h2 : ch.r.nrel < j + 32768) (hcl' : ch.r.core.closed = false) :
    Core.wellAt c ch.r.core (ch.r.win.update w.id w).2 := by
  have hjlt : j < ch.s.log.length := by
    cases hlt : decide (j < ch.s.log.length) with
    | true => exact of_decide_eq_true hlt
    | false =>
      have : ch.s.log.length ≤ j := Nat.le_of_not_lt (of_decide_eq_false hlt)
      rw [List.getElem?_eq_none this] at hw; cases hw
  have hid : w.id = idOf start j := by
    have := hs.ids j hjlt
    rw [List.getElem?_eq_getElem hjlt] at hw
    cases hw; exact this
  rw [hid]
  obtain ⟨r', hr', hS, hrel⟩ := update_spec ch.s.log start ch.r.win ch.r.nrel j w (h.win hcl') hw h2 h1
  rw [hrel, h.core]
  have hsplit : ch.s.log = ch.s.log.take ch.r.nrel ++ ((ch.s.log.drop ch.r.nrel).take (r' - ch.r.nrel) ++
      (ch.s.log.drop ch.r.nrel).drop (r' - ch.r.nrel)) := by
    rw [List.take_append_drop, List.take_append_drop]
  rw [hsplit, wellAt_append, wellAt_append] at hwell
  exact hwell.2.1

end Nx.Chan
