"""C14 over the WHOLE path: real generated client -> real RMCClient -> real PRUDP connection (rmc.connect) -> simulated
network -> real PRUDP server (rmc.serve) -> real RMCClient -> real generated server with a recording implementation.

One worker = one generated module under one shipped settings profile (default = PRUDP v1 over UDP, 3ds / friends =
PRUDP v0 over UDP, switch = PRUDP Lite over a byte stream), settings loaded with the library's own loader.  A worker runs
several *sessions*; a session is ONE connection on which a dozen calls are made one after the other (plain methods,
structure-carrying methods, anydata, values large enough to be fragmented, a group of calls in flight together), with
pauses that give pending retransmissions the time to happen, while the network misbehaves in one of the ways a datagram
network may (harness/sim.py decides a fate per datagram): duplication, reordering, loss of any datagram (data or
acknowledgement) — each distinct datagram is lost at most once, which keeps every packet inside the retransmission
budget (resend_limit 2: three transmissions) — or all of them together; the byte stream of the lite transport is re-chunked.
In half of the sessions a second client connects to the same server in the middle of the session and its calls fall between
those of the first; some sessions switch zlib compression on or use another fragment size; a third use credentials (the
RC4 streams are then keyed with the session key); in a third the two ends are configured with different minor versions.
Nothing of the connection is set by hand: the negotiated minor version (hence nex.struct_header) is whatever the two
real endpoints negotiated.

Oracle per call (the same as the in-memory tie of schema_rpc.py): the call returns normally, the arguments the
implementation saw equal the interpreter's visible arguments, the values the caller got equal the interpreter's visible
results.  Per connection: both ends report the minor version the handshake model gives (v0: 0 — no option fields;
otherwise the meet, C06) and run with the structure-header flag `struct_header_auto` gives for it (driver line `conn`).
The first call of a session that fails is reported with the whole session (profile, settings, every call made so far,
every fault the network applied) — damage done by one fault shows in later calls.

Re-run one session:  NX_REPO=<tree> /venv/bin/python harness/c14_wire.py <replay.json>"""
import contextlib, json, os, random, struct, sys, traceback

PROFILES = ("default", "3ds", "friends", "switch")
UDP_REGIMES = ("clean", "duplicate", "reorder", "loss", "ack-loss", "storm")
STREAM_REGIMES = ("clean", "rechunk")
SERVER = ("10.0.0.1", 60000)
SERVER_KEY = b"c14 server key"


def task(args):
    repo, name, profile, seed, exe, nsess = args
    res = {"module": name, "cases": 0, "lines": 0, "tags": {}, "diffs": [], "keys": [], "samples": [], "error": None,
           "methods": 0, "fc_cases": 0}
    try:
        _task(repo, name, profile, seed, exe, nsess, res)
    except Exception:
        res["error"] = traceback.format_exc()
        res["error_in_library"] = os.path.join(os.path.abspath(repo), "nintendo") + os.sep in res["error"]
    return res


def _short(x, n=1500):
    x = str(x)
    return x if len(x) <= n else x[:n] + "...(%d more)" % (len(x) - n)


class Worker:
    """everything a session needs of one module: schema, generator, real classes"""

    def __init__(self, repo, name):
        sys.path.insert(0, repo)
        import importlib, logging
        logging.disable(logging.CRITICAL)
        from schema_proto2lean import load_env
        import schema_values as SV
        import c14_values as V14
        from nintendo.nex import common, notification, prudp
        self.repo, self.name = repo, name
        self.mod = importlib.import_module("nintendo.nex." + name)
        for m in (self.mod, prudp):
            if not os.path.abspath(m.__file__).startswith(os.path.abspath(repo)):
                raise RuntimeError("module %s imported from %s" % (m.__name__, m.__file__))
        self.env, problem = load_env(os.path.join(repo, "nintendo/files/proto"), repo, name)
        if self.env is None: raise RuntimeError(problem)
        self.gen = V14.Gen14(self.env, random.Random(0))
        self.real = SV.Real(self.gen, self.mod, common, notification)

    # ---- classification of methods
    def has(self, m, pred):
        def walk(t, seen=()):
            n = t["name"]
            if pred(n): return True
            if n in ("list", "map"): return any(walk(x, seen) for x in t["template"])
            from schema_proto2lean import BASIC
            if n in BASIC or n in seen: return False
            try: return any(walk(v["type"], seen + (n,)) for v, _ in self.gen.fields(n))
            except KeyError: return False
        return any(walk(v["type"]) for v in m["request"] + m["response"])

    def kinds(self, m):
        from schema_proto2lean import BASIC
        k = set()
        if self.has(m, lambda n: n == "anydata"): k.add("anydata")
        if self.has(m, lambda n: n not in BASIC and n not in ("list", "map")): k.add("struct")
        if self.has(m, lambda n: n in ("buffer", "qbuffer", "string", "list")): k.add("big")
        if not k: k.add("plain")
        return k


def plan_session(W, spec):
    """the calls of one session, from the session's own seed: a list of steps; a step is a list of calls made together
    (one call: alone), each call = dict(method, args, rets, big, pause)"""
    from schema_tie import module_configs
    rng = random.Random("plan/" + spec["seed"])
    g = W.gen
    g.rng, g.any_i, g.var_i = rng, rng.randrange(64), rng.randrange(64)
    protos = [p for p in W.env.protos if any(m["supported"] for m in p["methods"])]
    if not protos: return None
    rich = [p for p in protos if any("struct" in W.kinds(m) for m in p["methods"] if m["supported"])] or protos
    p = rng.choice(rich if rng.random() < 0.8 else protos)
    ms = [m for m in p["methods"] if m["supported"]]
    by = {}
    for m in ms:
        for k in W.kinds(m): by.setdefault(k, []).append(m)
    nex = rng.choice(sorted({c[0] for c in module_configs(W.env)}))
    spec["nex"], spec["proto"] = nex, p["name"]
    cfg = (nex, 0, spec["pid_size"])          # generation does not look at the header flag (the visible values do: judge())
    def call(m, big):
        x = rng.random()
        g.nonascii = x < 0.25
        g.edge = 0.25 <= x < 0.5           # a string from the edges of the domain in every string position (c14_values.py)
        if big: g.start_big()
        # over PRUDP a message must fit 255 fragments (of 500 bytes in some sessions): at most one length-border string of up to 32768 bytes per message
        g.edge_long_cap, g.edge_long_left = 32768, 1
        try:
            args = [g.gen(v["type"], cfg, 0, False) for v in m["request"]]
            g.edge_long_left = 1
            if big: g.start_big()
            rets = [g.gen(v["type"], cfg, 0, len(m["response"]) == 1 and v["type"]["name"] != "anydata") for v in m["response"]]
        finally:
            g.nonascii = False; g.edge = False; g.big = False
        return {"m": m, "args": args, "rets": rets, "big": big, "edge": 0.25 <= x < 0.5, "pause": rng.choice([0, 0, 0.5, 1.25, 2.5])}
    want = [("struct", False)] * 3 + [("anydata", False)] * 2 + [("big", True)] * 3 + [("plain", False)] * 2 + [("struct", True)]
    picks = []
    for k, big in want:
        pool = by.get(k) or ms
        picks.append(call(rng.choice(pool), big))
    rng.shuffle(picks)
    steps = [[c] for c in picks]
    # a group of calls in flight together (different methods: the implementation records per method), then calls alone
    if len(ms) >= 2 and not p["noresponse"]:
        group = rng.sample(ms, min(len(ms), rng.choice([2, 3])))
        steps.insert(rng.randrange(2, len(steps)), [call(m, "big" in W.kinds(m) and rng.random() < 0.4) for m in group])
    # a second client of the same server: its calls fall between those of the first (per-connection state on the server)
    if spec.get("second_client"):
        for _ in range(3):
            c = call(rng.choice(by.get("struct") or ms), rng.random() < 0.3)
            c["who"] = "B"
            steps.insert(rng.randrange(2, len(steps) + 1), [c])
    steps.append([call(rng.choice(by.get("struct") or ms), False)])
    steps[-1][0]["pause"] = 2.5             # everything the faults left pending has happened before the last call
    return p, steps


def make_settings(spec):
    from nintendo.nex import settings as nexsettings
    def one(minor):
        s = nexsettings.default() if spec["profile"] == "default" else nexsettings.load(spec["profile"])
        s.configure(spec["access_key"], spec["nex"], 0 if spec["nex"] >= 40400 else None)
        if minor is not None: s["prudp.minor_version"] = minor
        if spec.get("compression"): s["prudp.compression"] = s.COMPRESSION_ZLIB
        if spec.get("fragment_size"): s["prudp.fragment_size"] = spec["fragment_size"]
        return s
    return one(spec.get("minor_c")), one(spec.get("minor_s"))


def describe(pk):
    t = {0: "SYN", 1: "CONNECT", 2: "DATA", 3: "DISCONNECT", 4: "PING"}.get(pk.type, "type%d" % pk.type)
    f = []
    if pk.flags & 1: f.append("ACK")
    if pk.flags & 0x200: f.append("MULTI-ACK")
    return "%s%s id=%d%s" % (t, "/" + "/".join(f) if f else "", pk.packet_id, " frag=%d len=%d" % (pk.fragment_id, len(pk.payload)) if pk.type == 2 and not pk.flags & 0x201 else "")


def install_network(sim, cs, spec, rng, obs):
    """the misbehaving network of one session (regime = spec["regime"]): a fate per datagram resp. a re-chunking of the byte
    stream; every fault applied is appended to obs["faults"]; returns whether the transport is a datagram transport"""
    from sim import quant
    from nintendo.nex import prudp
    udp = cs["prudp.transport"] == cs.TRANSPORT_UDP
    decoder = prudp.PRUDPMessageSelector(cs)
    def decode(data):
        try: return decoder.decode(data)
        except Exception: return []
    regime = spec["regime"]
    dropped = set()
    def fate(tx):
        pk = decode(tx.data)
        obs["datagrams"] += 1
        if any(x.type == 2 and not x.flags & 0x201 and x.fragment_id != 0 for x in pk): obs["fragmented"] += 1
        base = 0.01
        r = rng.random()
        acks = bool(pk) and all(x.flags & 1 for x in pk)
        what, out = None, [base]
        if regime == "duplicate" or (regime == "storm" and r < 0.25):
            if regime == "storm" or rng.random() < 0.4:
                out = [base] + [base + rng.random() * 0.2 for _ in range(rng.choice([1, 1, 2]))]; what = "delivered %d times" % len(out)
        elif regime == "reorder" or (regime == "storm" and r < 0.5):
            if regime == "storm" or rng.random() < 0.5:
                out = [base + rng.random() * 0.3]; what = "delayed"
        elif regime == "loss" or (regime == "storm" and r < 0.7):
            if tx.data not in dropped and (regime == "storm" or rng.random() < 0.3):
                dropped.add(tx.data); out = []; what = "lost"
        elif regime == "ack-loss":
            if acks and tx.data not in dropped and rng.random() < 0.6:
                dropped.add(tx.data); out = []; what = "lost"
        if what:
            obs["faults"].append("t=%.3f #%d %s: %s %s%s" % (tx.t, tx.g, "client->server" if tx.dst == SERVER else "server->client",
                                 " + ".join(describe(x) for x in pk) or "%d bytes" % len(tx.data), what,
                                 "" if not out else " (after %s s)" % ", ".join("%.3f" % quant(d) for d in out)))
        return out
    def chunker(data):
        if regime == "clean" or len(data) < 2: return [data]
        cuts = sorted({rng.randrange(1, len(data)) for _ in range(rng.choice([1, 2, 3, 8]))})
        out = [data[a:b] for a, b in zip([0] + cuts, cuts + [len(data)])]
        if len(obs["faults"]) < 40: obs["faults"].append("a write of %d bytes arrives as chunks of %r" % (len(data), [len(x) for x in out]))
        return out
    if udp: sim.net.fate = fate
    else: sim.net.chunker = chunker
    return udp


def run_session(W, spec):
    """runs one session on the real code; returns the observation"""
    import anyio
    from sim import Sim, quant
    from nintendo.nex import rmc, prudp, common
    from schema_tie import exc_name, make_class_name
    import schema_values as SV
    planned = plan_session(W, spec)
    if planned is None: return None
    p, steps = planned
    real, mod = W.real, W.mod
    rng = random.Random("net/" + spec["seed"])
    obs = {"proto": p, "steps": steps, "faults": [], "calls": [], "conn": {}, "setup_error": None, "teardown": None, "fragmented": 0, "datagrams": 0}
    with Sim("sim/" + spec["seed"]) as sim:
        sim.install_factories()
        cs, ss = make_settings(spec)
        spec["settings"] = {k: v for k, v in cs.settings.items() if k.startswith(("prudp.", "prudp_v0.", "nex.")) and k != "prudp.access_key"}
        udp = install_network(sim, cs, spec, rng, obs)
        creds = None
        if spec["credentials"]:
            from prudp_session import make_credentials
            creds, _ = make_credentials(cs, random.Random("cred/" + spec["seed"]), cs["kerberos.key_size"], server_key=SERVER_KEY)
        srv = getattr(mod, make_class_name(p["name"], "Server"))()
        recs = {}
        def robj_of(m, rets):
            rr = [real.build_typed(v["type"], t) for v, t in zip(m["response"], rets)]
            if len(rr) > 1:
                o = rmc.RMCResponse()
                for v, x in zip(m["response"], rr): setattr(o, v["name"], x)
                return o
            return rr[0] if rr else None
        async def one_call(cli, c, out):
            m = c["m"]
            rec = recs[m["name"]] = {}
            robj = robj_of(m, c["rets"])
            async def impl(client, *a, _rec=rec, _robj=robj):
                _rec["args"] = a
                obs["conn"].setdefault("s", {})[id(client)] = (int(bool(client.settings["nex.struct_header"])), client.client.minor_version())
                return _robj
            setattr(srv, m["name"], impl)
            rargs = [real.build_typed(v["type"], t) for v, t in zip(m["request"], c["args"])]
            out["t0"] = sim.now()
            try:
                with anyio.fail_after(60):
                    result = await getattr(cli, m["name"])(*rargs)
                flow = "ok"
            except common.RMCError as e:
                flow, result = "rmcerror " + e.name(), None
            except TimeoutError:
                flow, result = "no answer within 60 s (resend budget: %g s)" % (cs["prudp.resend_timeout"] * (cs["prudp.resend_limit"] + 1)), None
            except Exception as e:
                flow, result = "err %s (%s: %s)" % (exc_name(e), type(e).__name__, _short(e, 120)), None
            if p["noresponse"] and flow == "ok":
                for _ in range(200):
                    if "args" in rec: break
                    await anyio.sleep(0.0625)
            out.update(flow=flow, result=result, sargs=rec.get("args"), t1=sim.now())
        def leaf_of(e):
            while getattr(e, "exceptions", None): e = e.exceptions[0]
            return "%s: %s" % (type(e).__name__, _short(e, 200))
        async def main():
            async with rmc.serve(ss, [srv], SERVER[0], SERVER[1], key=SERVER_KEY if creds else None):
                try:
                    async with rmc.connect(cs, SERVER[0], SERVER[1], credentials=creds) as rc:
                        obs["connected"] = True
                        obs["conn"]["c"] = (int(bool(rc.settings["nex.struct_header"])), rc.client.minor_version())
                        cli = getattr(mod, make_class_name(p["name"], "Client"))(rc)
                        async with contextlib.AsyncExitStack() as stack:
                            cli_b = None
                            for step in steps:
                                outs = [{"c": c, "flow": None} for c in step]
                                obs["calls"].append(outs)
                                await anyio.sleep(quant(step[0]["pause"]))
                                if step[0].get("who") == "B":
                                    if cli_b is None:
                                        rc_b = await stack.enter_async_context(rmc.connect(cs, SERVER[0], SERVER[1], credentials=creds))
                                        obs["conn"]["cB"] = (int(bool(rc_b.settings["nex.struct_header"])), rc_b.client.minor_version())
                                        cli_b = getattr(mod, make_class_name(p["name"], "Client"))(rc_b)
                                    await one_call(cli_b, step[0], outs[0])
                                elif len(step) == 1:
                                    await one_call(cli, step[0], outs[0])
                                else:
                                    async with anyio.create_task_group() as tg:
                                        for c, o in zip(step, outs): tg.start_soon(one_call, cli, c, o)
                                for c in step:
                                    if c["m"]["name"] in srv.__dict__: delattr(srv, c["m"]["name"])
                            obs["completed"] = True
                except Exception as e:
                    # before the connection existed: it could not be established; afterwards: it was torn down under the calls
                    # (or, when all calls are done, while closing — not this property's business)
                    if not obs.get("connected"): obs["setup_error"] = leaf_of(e)
                    else: obs["teardown"] = leaf_of(e)
        async def guarded():
            with anyio.move_on_after(3000) as scope:
                await main()
            obs["timed_out"] = scope.cancelled_caught
        try:
            sim.run(guarded())
        except Exception as e:
            leaf = e
            while getattr(leaf, "exceptions", None): leaf = leaf.exceptions[0]
            tb = traceback.format_exc()
            if os.path.join(os.path.abspath(W.repo), "nintendo") + os.sep not in tb: raise
            obs["teardown"] = "%s: %s" % (type(leaf).__name__, _short(leaf, 200))
        obs["end"] = sim.now()
        obs["udp"] = udp
        obs["version"] = cs["prudp.version"] if udp else "lite"
        obs["minors"] = (cs["prudp.minor_version"], ss["prudp.minor_version"])
        obs["orig_hdr"] = (int(bool(cs["nex.struct_header"])), int(bool(ss["nex.struct_header"])))
    return obs


def expected_header(obs):
    """structure headers on this connection (both ends are given equal nex.* settings); cross-checked against the model's
    answer to the `conn` line in judge()"""
    neg = 0 if (obs["udp"] and obs["version"] == 0) else min(obs["minors"])
    return int(bool(obs["orig_hdr"][0]) or neg >= 3)


def sessions_of(name, profile, seed, nsess):
    """the sessions of one worker: every regime of the profile's transport, then more with other seeds"""
    rng = random.Random("wire/%s/%s/%s" % (seed, name, profile))
    regimes = list(STREAM_REGIMES if profile == "switch" else UDP_REGIMES)
    out = []
    for i in range(nsess):
        regime = regimes[i % len(regimes)]
        spec = {"module": name, "profile": profile, "regime": regime, "seed": "%s/%s/%s/%d/%s" % (seed, name, profile, i, regime),
                "access_key": "%08x" % rng.randrange(1 << 32), "pid_size": 8 if profile == "switch" else 4,
                "credentials": rng.random() < 0.34, "second_client": rng.random() < 0.5}
        if rng.random() < 0.15: spec["compression"] = 1
        if rng.random() < 0.15: spec["fragment_size"] = rng.choice([500, 777, 1024])
        # the two ends configured with different minor versions (where the packets can carry one): the meet decides the header
        if rng.random() < 0.3:
            spec["minor_c"], spec["minor_s"] = rng.choice([(2, 4), (4, 2), (3, 5), (5, 3), (0, 4), (4, 4), (2, 2), (1, 3)])
        out.append(spec)
    return out


def _task(repo, name, profile, seed, exe, nsess, res):
    from schema_tie import driver_batch, FUEL
    from schema_proto2lean import code
    import schema_values as SV
    W = Worker(repo, name)
    tags = res["tags"]
    def tag(t, n=1): tags[t] = tags.get(t, 0) + n
    lines = W.env.driver_lines()
    nsetup = len(lines)
    done = []
    for spec in sessions_of(name, profile, seed, nsess):
        obs = run_session(W, spec)
        if obs is None: continue
        p = obs["proto"]
        i0 = len(lines)
        v0 = obs["udp"] and obs["version"] == 0
        lines.append("conn %d %d %d %d %d" % (1 if v0 else 0, obs["minors"][0], obs["minors"][1], obs["orig_hdr"][0], obs["orig_hdr"][1]))
        for step in obs["steps"]:
            for c in step:
                c["line"] = len(lines)
                cs = "%d %d %d %d" % (spec["nex"], expected_header(obs), spec["pid_size"], FUEL)
                mref = "%d %d" % (code(p["name"]), code(c["m"]["name"]))
                lines.append("visreq %s %s %s" % (cs, mref, SV.vals(c["args"])))
                lines.append("visresp %s %s %s" % (cs, mref, SV.vals(c["rets"])))
                lines.append("sresp %s %s %s" % (cs, mref, SV.vals(c["rets"])))
        done.append((spec, obs, i0))
    outs = driver_batch(exe, lines)
    res["lines"] = len(lines)
    for i in range(nsetup):
        if outs[i] != "ok": raise RuntimeError("driver rejected schema line %d: %r -> %r" % (i, lines[i][:200], outs[i]))
    for spec, obs, i0 in done:
        judge(W, spec, obs, outs, i0, res, tag)


def first_difference(expected, got):
    e, g = expected.split(), got.split()
    i = next((i for i, (x, y) in enumerate(zip(e, g)) if x != y), min(len(e), len(g)))
    return "value #%d passed %s, arrived %s" % (i, _short(e[i], 80) if i < len(e) else "<end>", _short(g[i], 80) if i < len(g) else "<end>")


def judge(W, spec, obs, outs, i0, res, tag):
    import schema_values as SV
    real, name, p = W.real, W.name, obs["proto"]
    profile, regime = spec["profile"], spec["regime"]
    skey = "%s:wire:%s:%s:%s" % (name, profile, regime, spec["seed"])
    flat = [(si, o) for si, step in enumerate(obs["calls"]) for o in step]
    def shown(c): return "%s.%s(%s)%s" % (p["name"], c["m"]["name"], _short(SV.vals(c["args"]), 160), " made by a second client connected to the same server" if c.get("who") == "B" else "")
    base = {"module": name, "protocol": p["name"], "profile": profile, "settings_of_both_ends": spec.get("settings"),
            "minor_version_client_server_settings": list(obs["minors"]), "network": regime, "credentials": spec["credentials"], "zlib_compression": bool(spec.get("compression")),
            "session": {k: v for k, v in spec.items() if k != "settings"},
            "calls_in_order": [[{"client": c.get("who", "A"), "method": c["m"]["name"], "args": _short(SV.vals(c["args"]), 1200), "returns": _short(SV.vals(c["rets"]), 1200),
                                 "pause_before_s": c["pause"]} for c in step] for step in obs["steps"]],
            "faults_applied_by_the_network": obs["faults"][:80],
            "observed": [[o.get("flow") or "not reached" for o in step] for step in obs["calls"]],
            "how": "harness/c14_wire.py: rmc.serve + rmc.connect of the tree under test over harness/sim.py (virtual time), settings = nintendo.nex.settings.load(profile) + configure(access_key, nex.version); "
                   "re-run this session with: NX_REPO=<tree> /venv/bin/python /verif/harness/c14_wire.py <this file>"}
    tag("wire:%s:%s" % (profile, regime))
    tag("wire:datagrams", obs["datagrams"]); tag("wire:datagrams-carrying-a-fragment", obs["fragmented"]); tag("wire:faults", len(obs["faults"]))
    res["cases"] += 1
    def diff(key, what, vkey, **more):
        kind = vkey.split(":")[0]
        pk = res.setdefault("_per_kind", {})
        pk[kind] = pk.get(kind, 0) + 1
        if pk[kind] <= 12:
            d = dict(base, key=key, what=what, vkey=vkey); d.update(more); res["diffs"].append(d)
    # ---- the connection: negotiated minor version and header flag on both ends
    w = outs[i0].split()
    bad_conn = None
    if w[0] != "ok" or len(w) != 4:
        raise RuntimeError("driver: %r -> %r" % ("conn", outs[i0]))
    neg, hc, hs = int(w[1]), int(w[2]), int(w[3])
    if not (hc == hs == expected_header(obs)):
        raise RuntimeError("harness and model disagree about the header flag of the connection: %r vs %d" % (outs[i0], expected_header(obs)))
    hdr_txt = "handshake model: both ends report minor version %d; struct_header_auto: client %d, server %d" % (neg, hc, hs)
    if obs["setup_error"] is not None:
        tag("wire:CONNECT-FAILED")
        diff(skey, "profile %s, network '%s': the connection could not be established (%s) although every datagram was lost at most once; faults: %s" % (
            profile, regime, obs["setup_error"], "; ".join(obs["faults"][:6])), "wire:%s:%s:%s" % (name, profile, regime))
        return
    ends = [("the client end", obs["conn"].get("c"), hc), ("the second client's end", obs["conn"].get("cB"), hc)]
    ends += [("the server end", x, hs) for x in sorted(set(obs["conn"].get("s", {}).values()))]
    wrong = ["%s runs with struct_header=%d, minor version %d" % (who, x[0], x[1]) for who, x, h in ends if x is not None and x != (h, neg)]
    if wrong: bad_conn = "; ".join(wrong) + " (%s)" % hdr_txt
    # ---- the calls
    failed = None
    ncalls = 0
    for si, o in flat:
        c = o["c"]; m = c["m"]
        mvreq, mvresp, msresp = outs[c["line"]:c["line"] + 3]
        flow = o.get("flow")
        ckey = "%s:call%d:%s" % (skey, ncalls, m["name"]); ncalls += 1
        res["cases"] += 1
        why = None
        if flow is None:
            why = "never completed: the connection was torn down under it (%s)" % (obs.get("teardown") or ("session timed out" if obs.get("timed_out") else "cancelled"))
        elif flow != "ok":
            if msresp == "err Other" and flow == "rmcerror PythonCore::Exception":
                cls = type(real.build_typed(m["response"][0]["type"], c["rets"][0])).__name__
                diff(ckey, "%s.%s: the implementation returned a %s, the generated server rejects it (isinstance(response, common.Data) fails) and the caller gets PythonCore::Exception" % (p["name"], m["name"], cls),
                     "result-type:anydata:" + cls)
                continue
            why = "failed with %s" % flow
        elif not mvreq.startswith("ok ") or (not p["noresponse"] and not mvresp.startswith("ok ")):
            raise RuntimeError("interpreter rejects generated values: %r / %r" % (mvreq[:100], mvresp[:100]))
        else:
            sargs = o.get("sargs")
            if sargs is None or len(sargs) != len(m["request"]):
                why = "returned, but the server implementation was never called"
            else:
                mask = SV.parse_val(mvreq[3:])
                got = "ok [" + "".join(" " + real.canon(v["type"], a, mk) for v, a, mk in zip(m["request"], sargs, mask)) + " ]"
                if got != mvreq:
                    why = "delivered other arguments to the server implementation than those passed: " + first_difference(mvreq, got)
                elif not p["noresponse"]:
                    result = o["result"]
                    if len(m["response"]) > 1: vals = [getattr(result, v["name"], None) for v in m["response"]]
                    elif len(m["response"]) == 1: vals = [result]
                    else: vals = []
                    mask = SV.parse_val(mvresp[3:])
                    got = "ok [" + "".join(" " + real.canon(v["type"], a, mk) for v, a, mk in zip(m["response"], vals, mask)) + " ]"
                    if got != mvresp or (not m["response"] and result is not None):
                        why = "returned other values to the caller than the implementation returned: " + first_difference(mvresp, got)
        if why is None:
            tag("wire-call:%s:ok" % profile)
            if c["big"]: tag("wire-call:large-values")
            if c.get("edge"): tag("wire-call:edge-of-domain-strings")
            res["keys"].append(ckey)
        elif failed is None:
            failed = (ncalls - 1, si, c, why)
    if failed:
        k, si, c, why = failed
        tag("wire:FAILS")
        together = len(obs["steps"][si]) > 1
        before = [f for f in obs["faults"] if float(f.split()[0][2:]) <= (obs["calls"][si][0].get("t1") or 1e18)] if obs["udp"] else obs["faults"]
        diff(skey, "profile %s (%s, both ends %s), network '%s': call %d of %d of one session (one connection%s), %s%s, %s; %d earlier call(s) of the session were fine; network faults up to then: %s%s" % (
            profile, ("PRUDP v0" if obs["version"] == 0 else "PRUDP v1 packets (prudp.version=%s)" % obs["version"]) if obs["udp"] else "PRUDP lite", "with credentials" if spec["credentials"] else "without credentials", regime,
            k + 1, sum(len(s) for s in obs["steps"]), " + a second client of the same server" if spec.get("second_client") else "", shown(c), " (in flight together with %d other call(s))" % (len(obs["steps"][si]) - 1) if together else "",
            why, k, "; ".join(before[-4:]) or "none", " — " + bad_conn if bad_conn else ""),
             "wire:%s:%s:%s" % (name, profile, regime), failing_call=k, connection=bad_conn or hdr_txt)
    elif bad_conn:
        tag("wire:HEADER-FLAG-DIFFERS")
        diff(skey + ":conn", "profile %s, client/server configured with minor versions %r: %s; no call of this session was affected" % (profile, obs["minors"], bad_conn),
             "wire-conn:%s:%s" % (name, profile), connection=bad_conn)
    elif not obs.get("completed"):
        diff(skey, "profile %s, network '%s': the session ended before all calls were made (%s)" % (profile, regime, obs.get("teardown") or "timed out"),
             "wire:%s:%s:%s" % (name, profile, regime))
    else:
        res["keys"].append(skey)
        if len(res["samples"]) < 1:
            res["samples"].append({"module": name, "profile": profile, "network": regime, "calls": sum(len(s) for s in obs["steps"]),
                                   "datagrams": obs["datagrams"], "faults": len(obs["faults"]), "virtual_seconds": obs["end"]})


if __name__ == "__main__":
    # re-run the session of a replay file on the tree NX_REPO (default /repo) and print what happens
    here = os.path.dirname(os.path.abspath(__file__))
    sys.path[:0] = [os.path.join(here, "..", "lib"), os.path.join(here, "..", "tools"), here]
    repo = os.environ.get("NX_REPO", "/repo")
    sys.path.insert(0, repo)
    rp = json.load(open(sys.argv[1]))
    spec = rp["session"]
    exe = os.environ.get("NXDRV", os.path.join(here, "..", "lean", ".lake", "build", "bin", "nxdrv_C14"))
    W = Worker(repo, spec["module"])
    from schema_tie import driver_batch, FUEL
    from schema_proto2lean import code
    import schema_values as SV
    obs = run_session(W, spec)
    lines = W.env.driver_lines(); i0 = len(lines)
    v0 = obs["udp"] and obs["version"] == 0
    lines.append("conn %d %d %d %d %d" % (1 if v0 else 0, obs["minors"][0], obs["minors"][1], obs["orig_hdr"][0], obs["orig_hdr"][1]))
    for step in obs["steps"]:
        for c in step:
            c["line"] = len(lines)
            cs = "%d %d %d %d" % (spec["nex"], expected_header(obs), spec["pid_size"], FUEL)
            mref = "%d %d" % (code(obs["proto"]["name"]), code(c["m"]["name"]))
            for op in ("visreq", "visresp", "sresp"):
                lines.append("%s %s %s %s" % (op, cs, mref, SV.vals(c["args"] if op == "visreq" else c["rets"])))
    outs = driver_batch(exe, lines)
    res = {"cases": 0, "tags": {}, "diffs": [], "keys": [], "samples": []}
    judge(W, spec, obs, outs, i0, res, lambda t, n=1: None)
    print("faults:", *obs["faults"], sep="\n  ")
    print("flows:", [[o.get("flow") for o in step] for step in obs["calls"]])
    for d in res["diffs"]: print("FAIL:", d["what"])
    print("session fails" if res["diffs"] else "session ok")
    sys.exit(1 if res["diffs"] else 0)
