"""C02: stream transports whose WRITES raise a stream error in the graceful-disconnect phase.

One session over a stream transport (PRUDPLite over WebSocket / TCP; the server side is `PRUDPSocketTransport`): handshake, one
message each way, then the CLOSING PHASE, started by

    closer = 'disconnect'   the client application calls `client.disconnect()` inside its connection block
             'leave'        the client application just leaves the `transport.connect(...)` block (the block's own disconnect)
             'rmc'          RMC layer on both sides, the client calls `RMCClient.disconnect()`
             'server'       the server application's handler returns (serve_client's disconnect), the client reads until end-of-stream

From the first write of the closing phase on, the byte stream misbehaves according to `spec`:

    drop  = None | i        from the i-th write (0-based, both sides counted together) of the closing phase the stream is a black hole:
                            writes succeed, nothing arrives (i = 0: the DISCONNECT is written once and lost, retransmissions follow;
                            i = 1: the DISCONNECT arrives, its acknowledgements are lost)
    side  = 'c' | 's' | 'both', at = j
                            the j-th write (0-based, counted per side from the start of the closing phase) of that side, and every
                            later write of that side, raises a stream error
    notify = False          the write raises anyio.BrokenResourceError, readers learn nothing (half-dead connection: a reset that only
                            the writer sees, a WebSocket already in its closing state)
             True           the connection breaks at that write: both ends' readers see the end of the stream (the server transport
                            forgets the stream: later writes of the server raise `Transport connection is closed`)
    ext_close = True        instead: at the start of the closing phase the client's end of the stream is closed from outside (the client
                            process goes away); side / at are ignored

The client uses `prudp.connect_transport` + `transport.connect` and keeps the transport open until the server had time to forget the peer;
then it closes the stream, and the same address connects again over a new stream.

Result: Session with ops [(name, t0, t1, outcome)], dead_at (instant of the first fault), table_deleted_at (instants at which the
server's client table lost an entry), writes = {'c': n, 's': n} writes of the closing phase, server_table, errors."""
import random, struct
import anyio

from sim import Sim, quant
import prudp_session as ps
from nintendo.nex import prudp

SERVER = ps.SERVER


class _Watch(dict):
    """the server stream's client table, with the instant of every removal (observation only)"""
    def __init__(self, now, sink):
        super().__init__()
        self._now, self._sink = now, sink

    def __delitem__(self, key):
        super().__delitem__(key)
        self._sink.append(self._now())


def flatten(e):
    if isinstance(e, BaseExceptionGroup):
        out = []
        for x in e.exceptions:
            out += flatten(x)
        return out
    return [e]


def run(cfg, seed, closer, spec, tcp=False):
    rng = random.Random(seed)
    out = ps.Session()
    out.cfg, out.seed, out.ops, out.spec, out.closer = cfg, seed, [], spec, closer
    bound = cfg.ping_timeout + (cfg.resend_limit + 1) * cfg.resend_timeout
    out.bound = bound
    rmc = closer == "rmc"
    with Sim(seed) as sim:
        s = cfg.settings()
        if tcp:
            s["prudp.transport"] = s.TRANSPORT_TCP
        sim.install_factories(fixed_client_addr=True)
        st = {"closing": False, "n": 0, "c": 0, "s": 0, "dead_at": None, "healed": False}
        log = sim.net.log

        def stream_fate(src, dst, n, chunk):
            if not st["closing"] or st["healed"]:
                return "deliver"
            side = "s" if src == SERVER else "c"
            i, j = st["n"], st[side]
            st["n"] += 1; st[side] += 1
            if spec is None:
                return "deliver"
            if not spec.get("ext_close") and spec.get("side") is not None and (spec["side"] in (side, "both")) and j >= spec["at"]:
                if st["dead_at"] is None:
                    st["dead_at"] = sim.now()
                if spec.get("notify"):
                    return "break"
                log.append(("swfail", sim.now(), src, dst, bytes(chunk)))
                raise anyio.BrokenResourceError
            if spec.get("drop") is not None and i >= spec["drop"]:
                if st["dead_at"] is None:
                    st["dead_at"] = sim.now()
                return "drop"
            return "deliver"
        sim.net.stream_fate = stream_fate

        creds, session_key = (None, b"")
        if cfg.credentials:
            creds, session_key = ps.make_credentials(s, random.Random(rng.random()), cfg.key_size)
        out.errors, out.got = [], {"c": [], "s": []}
        out.table_deleted_at = []
        out.handlers = 0
        holder = {}

        def op_start(name):
            out.ops.append([name, sim.now(), None, None]); return len(out.ops) - 1
        def op_end(i, outcome):
            out.ops[i][2] = sim.now(); out.ops[i][3] = outcome

        async def start_closing():
            st["closing"] = True
            out.close_start = sim.now()
            if spec is not None and spec.get("ext_close"):
                st["dead_at"] = sim.now()
                await holder["ctransport"].socket.close()       # the client's end of the stream goes away

        async def do_send(side, client, data, name="send@"):
            i = op_start(name + side)
            try:
                await client.send(data, 0)
                op_end(i, "ok")
            except anyio.ClosedResourceError:
                op_end(i, "closed")
            except Exception as e:
                op_end(i, "error:" + type(e).__name__)

        async def do_sendu(side, client):
            i = op_start("sendu@" + side)
            try:
                await client.send_unreliable(b"late unreliable")
                op_end(i, "ok")
            except anyio.ClosedResourceError:
                op_end(i, "closed")
            except Exception as e:
                op_end(i, "error:" + type(e).__name__)

        async def reader(side, client):
            i = op_start("recv@" + side)
            try:
                while True:
                    d = await client.recv(0)
                    out.got[side].append(d)
                    op_end(i, "data")
                    i = op_start("recv@" + side)
            except anyio.EndOfStream:
                op_end(i, "eof")

        async def ureader(side, client):
            i = op_start("recv_unreliable@" + side)
            try:
                while True:
                    await client.recv_unreliable()
            except anyio.EndOfStream:
                op_end(i, "eof")

        class Answering:
            PROTOCOL_ID = 0x65
            async def logout(self, client): pass
            async def handle(self, client, method, input, output):
                output.u32(input.u32() + 1)

        async def rmc_call(rc, name, body):
            i = op_start(name)
            try:
                r = await rc.request(0x65, 1, body)
                op_end(i, "ok:" + r.hex())
            except RuntimeError:
                op_end(i, "closed")
            except Exception as e:
                op_end(i, "error:" + type(e).__name__)

        async def handler(client):
            out.handlers += 1
            if out.handlers > 1:
                # the connection made after the faulty one: a plain echo server
                try:
                    while True:
                        d = await client.recv()
                        await client.send(b"echo:" + d)
                except anyio.EndOfStream:
                    return
            hi = op_start("handler")
            if rmc:
                from nintendo.nex import rmc as rmcmod
                rc = rmcmod.RMCClient(s, client)
                async with rc:
                    await rc.start([Answering()])
                op_end(hi, "returned")
                return
            if closer == "server":
                d = await client.recv(0)
                out.got["s"].append(d)
                await do_send("s", client, b"welcome " * 3)
                await anyio.sleep(quant(0.2617))
                holder["sclient"] = client
                await start_closing()
                op_end(hi, "returned")
                return                                       # serve_client now disconnects gracefully
            async with anyio.create_task_group() as tg:
                tg.start_soon(ureader, "s", client)
                tg.start_soon(do_send, "s", client, b"welcome " * 3)
                await reader("s", client)
            await do_send("s", client, b"late")
            await do_sendu("s", client)
            op_end(hi, "returned")

        async def client_session(transport):
            ci = op_start("connect")
            xi = None
            try:
                async with transport.connect(1, 10, creds) as client:
                    op_end(ci, "ok")
                    holder["cclient"] = client
                    if rmc:
                        from nintendo.nex import rmc as rmcmod
                        rc = rmcmod.RMCClient(s, client)
                        async with rc:
                            async with anyio.create_task_group() as tg:
                                tg.start_soon(rc.start, [])
                                await rmc_call(rc, "call-answered", struct.pack("<I", 41))
                                await anyio.sleep(quant(0.2617))
                                await start_closing()
                                di = op_start("rmc-disconnect")
                                await rc.disconnect()
                                op_end(di, "returned")
                            await rmc_call(rc, "call-after-close", b"\0\0\0\0")
                        xi = op_start("block-exit")
                    else:
                        if closer == "leave":
                            # an application that sends, waits for the answer and leaves the block: the block's own disconnect
                            await do_send("c", client, b"hello " * 5)
                            with anyio.move_on_after(quant(0.2617)):
                                out.got["c"].append(await client.recv(0))
                            await anyio.sleep(quant(0.2617))
                            await start_closing()
                        else:
                            async with anyio.create_task_group() as tg:
                                tg.start_soon(reader, "c", client)
                                tg.start_soon(ureader, "c", client)
                                await do_send("c", client, b"hello " * 5)
                                await anyio.sleep(quant(0.2617))
                                if closer == "disconnect":
                                    await start_closing()
                                    di = op_start("disconnect")
                                    await client.disconnect()
                                    op_end(di, "returned")
                                # closer == 'server': the readers end with end-of-stream when the server has disconnected
                            await do_send("c", client, b"late")
                            await do_sendu("c", client)
                        xi = op_start("block-exit")
                op_end(xi, "returned")
                if closer == "leave":
                    await do_send("c", client, b"late")
                    await do_sendu("c", client)
            except BaseException as e:
                kinds = flatten(e)
                if out.ops[ci][2] is None:
                    op_end(ci, "failed")
                if xi is not None and out.ops[xi][2] is None:
                    op_end(xi, "raised")
                out.errors.append(("client", [type(x).__name__ for x in kinds], repr(e)[:200]))
                if any(isinstance(x, (KeyboardInterrupt, SystemExit)) for x in kinds):
                    raise
                if not all(isinstance(x, Exception) for x in kinds):
                    raise        # cancellation from outside (the session's guard)

        async def main():
            async with prudp.serve_transport(s, SERVER[0], SERVER[1]) as stransport:
                async with stransport.serve(handler, 1, 10, b"server key" if cfg.credentials else None):
                    sstream = stransport.ports.get(1, 10)
                    sstream.clients = _Watch(sim.now, out.table_deleted_at)
                    holder["sstream"] = sstream
                    ti = op_start("client-transport")
                    try:
                        async with prudp.connect_transport(s, SERVER[0], SERVER[1]) as ctransport:
                            holder["ctransport"] = ctransport
                            await client_session(ctransport)
                            # the client application keeps its transport until the server had every chance to forget the peer
                            t_ref = st["dead_at"] if st["dead_at"] is not None else getattr(out, "close_start", sim.now())
                            await anyio.sleep(max(0.0, quant(t_ref + bound + 0.25) - sim.now()))
                            out.server_table = len(sstream.clients)
                            out.table_checked_at = sim.now()
                            out.client_ports = len(ctransport.ports.ports)
                        op_end(ti, "returned")
                    except BaseException as e:
                        kinds = flatten(e)
                        op_end(ti, "raised")
                        out.errors.append(("client-transport", [type(x).__name__ for x in kinds], repr(e)[:200]))
                        if not all(isinstance(x, Exception) for x in kinds):
                            raise
                        t_ref = st["dead_at"] if st["dead_at"] is not None else getattr(out, "close_start", sim.now())
                        await anyio.sleep(max(0.0, quant(t_ref + bound + 0.25) - sim.now()))
                        out.server_table = len(sstream.clients)
                        out.table_checked_at = sim.now()
                    # the stream is closed now; the link is healthy again: the same address connects over a new stream
                    st["healed"] = True
                    await anyio.sleep(quant(0.05))
                    ri = op_start("reconnect")
                    try:
                        async with prudp.connect(s, SERVER[0], SERVER[1], credentials=creds) as c2:
                            await c2.send(b"again")
                            with anyio.fail_after(quant(bound + 5)):
                                d = await c2.recv()
                            op_end(ri, "ok" if d == b"echo:again" else "wrong-echo:%r" % d[:20])
                    except BaseException as e:
                        op_end(ri, "failed:" + repr(e)[:80])
                        if not all(isinstance(x, Exception) for x in flatten(e)):
                            raise
                    out.server_table_end = None
                    await anyio.sleep(quant(0.05))
                    out.server_table_end = len(sstream.clients)

        async def guarded():
            with anyio.move_on_after(10 * bound + 60) as scope:
                await main()
            out.timed_out = scope.cancelled_caught
        try:
            sim.run(guarded()); out.crash = None
        except BaseException as e:
            out.crash = repr(e)[:300]; out.timed_out = False
        out.dead_at = st["dead_at"]
        out.writes = {"c": st["c"], "s": st["s"], "all": st["n"]}
        out.close_start = getattr(out, "close_start", None)
        out.server_table = getattr(out, "server_table", None)
        out.end_time = sim.now()
        out.netlog = log
    return out
