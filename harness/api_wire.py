"""C20 — the nex.* settings take effect AT THE CONSUMER THAT PUTS STRUCTURES ON THE WIRE: a real `RMCClient` over a (simulated) PRUDP
connection, for every kind of connection and every negotiated minor version.

`Settings` objects reach the wire through one more layer than the stream classes: `rmc.connect` / `rmc.serve` / `rmc.serve_on_transport`
build an `RMCClient`, which keeps *its own copy* of the caller's settings (and adjusts it to the negotiated connection parameters), and the
protocol classes and `BackEndClient` encode with that copy.  So "nex.struct_header / nex.pid_size / nex.version / nex.client_version
observably change the wire bytes" has to be asked of that object, under every connection parameter it looks at:

  connection kinds   prudp v0 (3ds.cfg, friends.cfg), v1, "2" (client v1, server both), lite (TCP / WebSocket: switch.cfg)
  minor versions     client x server in 0..5 (the negotiated one is their minimum; v0 carries none: 0)
  base file          each of the four shipped configuration files
  nex.*              struct_header 0 / 1, pid_size 4 / 8, version below / at 30500, 40000, 40400, client_version two values

Two scenarios per configuration, several calls on ONE connection each:
  client   rmc.connect(settings) against a raw PRUDP endpoint (prudp.serve): BackEndClient.login (whichever of the three login methods the
           version selects), AuthenticationClient.login_ex, .request_ticket, .get_name -> the request bodies that arrive at the raw endpoint;
           the raw endpoint answers login_ex in the encoding the caller's settings describe -> what the client decodes
  server   rmc.serve(settings) / rmc.serve_on_transport(settings) with an AuthenticationServer implementation, against a raw PRUDP client
           (prudp.connect) that sends requests in the encoding the caller's settings describe -> what the handler receives, the response bytes

Oracle (independent encoder below, no library code): every body equals the encoding under the caller's nex.* values, where structure headers
are additionally on when the negotiated minor version is >= 3 (rmc.py: the one documented-by-code adjustment); the Lean model
(NxModel/Api/Wire.lean, driver op `wire`) predicts the same bytes and proves that the adjustment never switches a setting OFF and leaves
pid_size / version / client_version alone.  A mismatch that is explained by another value of one setting is reported as that setting being
ignored; the check also demands that the two values of each setting differ on the wire wherever the model says they do.
"""
import multiprocessing, os, struct, traceback
import anyio

AUTH_PROTOCOL = 0xA
M_LOGIN, M_LOGIN_EX, M_REQUEST_TICKET, M_GET_PID, M_GET_NAME = 1, 2, 3, 4, 5
M_VART, M_VART_CUSTOM, M_VART_PARAM = 1, 2, 6
HOST, PORT = "10.0.0.1", 60000
MAIN_URL = "prudp:/address=10.0.0.9;port=60010;CID=1;PID=2;sid=1;stream=10;type=2"
SPECIAL_URL = "prudp:/address=10.0.0.7;port=9"
SERVER_TIME = 135467920001
TICKET = bytes(range(40, 72))
USER = "usér"

KINDS = ("v0", "v1", "v2", "lite")


# ----------------------------------------------------------------------------------------------------- independent encoder
def u8(v): return struct.pack("<B", v)
def u16(v): return struct.pack("<H", v)
def u32(v): return struct.pack("<I", v)
def u64(v): return struct.pack("<Q", v)


def w_string(s):
    if s is None: return u16(0)
    d = s.encode("utf8") + b"\0"
    return u16(len(d)) + d


def w_buffer(b): return u32(len(b)) + b


class Eff:
    """the nex.* values a stream of the connection encodes with"""
    def __init__(self, hdr, pid, ver, cver):
        self.hdr, self.pid, self.ver, self.cver = bool(hdr), pid, ver, cver

    def key(self): return (self.hdr, self.pid, self.ver, self.cver)


def negotiated_minor(kind, cmin, smin):
    return 0 if kind == "v0" else min(cmin, smin)


def effective(c):
    """caller's nex.* + the adjustment of RMCClient to the negotiated connection (headers on from minor version 3)"""
    m = negotiated_minor(c["kind"], c["cmin"], c["smin"])
    return Eff(c["hdr"] or m >= 3, c["pid"], c["ver"], c["cver"])


def w_pid(e, v): return u64(v) if e.pid == 8 else u32(v)


def w_level(e, max_version, body):
    """one class of a structure's hierarchy; body(version) -> bytes"""
    if e.hdr:
        return u8(max_version) + w_buffer(body(max_version))
    return body(0)


def w_auth_info(e, token, ngs=3, ttype=1, sver=0):
    return w_level(e, 0, lambda v: b"") + w_level(e, 0, lambda v: w_string(token) + u32(ngs) + u8(ttype) + u32(sver))


def w_null_data(e):
    return w_level(e, 0, lambda v: b"") + w_level(e, 0, lambda v: b"")


def w_anydata(name, payload):
    return w_string(name) + u32(len(payload) + 4) + w_buffer(payload)


def w_conn_data(e):
    def body(v):
        b = w_string(MAIN_URL) + u32(2) + u8(1) + u8(2) + w_string(SPECIAL_URL)
        if e.ver >= 30500 and v >= 1: b += u64(SERVER_TIME)
        return b
    return w_level(e, 1 if e.ver >= 30500 else 0, body)


def w_param(e, username, data_name, data):
    return w_level(e, 0, lambda v: u32(3) + w_string(username) + w_anydata(data_name, data) + u8(0) + u32(e.ver) + u32(e.cver))


def big_pid(e, k): return (0x100000000 + k) if e.pid == 8 else (0x89ABCD00 + k)


def req_login_ex(e, user, token): return w_string(user) + w_anydata("AuthenticationInfo", w_auth_info(e, token))
def req_ticket(e, a, b): return w_pid(e, a) + w_pid(e, b)
def req_get_name(e, a): return w_pid(e, a)


def req_backend_login(e, user, token):
    """the first request of BackEndClient.login(user, pw, auth_info): (method id, body)"""
    if e.ver < 40000: return M_LOGIN_EX, req_login_ex(e, user, token)
    if e.ver < 40400: return M_VART_CUSTOM, req_login_ex(e, user, token)
    return M_VART_PARAM, w_param(e, user, "AuthenticationInfo", w_auth_info(e, token))


def resp_login(e, pid):
    return u32(0x10001) + w_pid(e, pid) + w_buffer(TICKET) + w_conn_data(e) + w_string("srv")


def resp_ticket(e): return u32(0x10001) + w_buffer(TICKET)


# ----------------------------------------------------------------------------------------------------- RMC frames (by hand)
def rmc_request(protocol, call_id, method, body):
    p = u8(protocol | 0x80) + u32(call_id) + u32(method) + body
    return u32(len(p)) + p


def rmc_response(protocol, call_id, method, body):
    p = u8(protocol) + u8(1) + u32(call_id) + u32(method | 0x8000) + body
    return u32(len(p)) + p


def rmc_error(protocol, call_id, code):
    p = u8(protocol) + u8(0) + u32(code) + u32(call_id)
    return u32(len(p)) + p


def parse_frame(data):
    """-> ("req", protocol, call_id, method, body) | ("ok", protocol, call_id, method, body) | ("err", protocol, call_id, code, b"")"""
    n = struct.unpack_from("<I", data)[0]
    if n != len(data) - 4: raise ValueError("frame length")
    p = data[4]
    if p & 0x80:
        cid, m = struct.unpack_from("<II", data, 5)
        return "req", p & 0x7F, cid, m, data[13:]
    if data[5]:
        cid, m = struct.unpack_from("<II", data, 6)
        return "ok", p, cid, m & ~0x8000, data[14:]
    code, cid = struct.unpack_from("<II", data, 6)
    return "err", p, cid, code, b""


# ----------------------------------------------------------------------------------------------------- settings of a case
def make_settings(c, side):
    """side 'c' / 's': the settings object handed to that side's library entry point"""
    from nintendo.nex import settings as nexsettings
    s = nexsettings.load(c["base"])
    s["prudp.access_key"] = "0f1e2d3c"
    kind = c["kind"]
    if kind == "lite":
        s["prudp.transport"] = s.TRANSPORT_TCP if c.get("tcp") else s.TRANSPORT_WEBSOCKET
    else:
        s["prudp.transport"] = s.TRANSPORT_UDP
        s["prudp.version"] = {"v0": 0, "v1": 1, "v2": 2}[kind]
    s["prudp.minor_version"] = c["cmin"] if side == "c" else c["smin"]
    s["prudp.resend_timeout"] = 1.0
    s["prudp.resend_limit"] = 2
    s["nex.struct_header"] = c["hdr"]
    s["nex.pid_size"] = c["pid"]
    s["nex.version"] = c["ver"]
    s["nex.client_version"] = c["cver"]
    return s


def hx(b): return b.hex() if b else "-"


# ----------------------------------------------------------------------------------------------------- scenario: library client
def run_client(c):
    """rmc.connect(settings) + the protocol classes against a raw PRUDP endpoint; returns the observations (list of (name, hex | text))"""
    from sim import Sim
    from nintendo.nex import prudp, rmc, backend, authentication, common
    e = effective(c)
    obs = []
    seen = []         # (method, body) of every request that arrived at the raw endpoint

    with Sim(c.get("seed", 0)) as sim:
        sim.install_factories()
        sim.net.fate = lambda tx: [0.01]
        s_c, s_s = make_settings(c, "c"), make_settings(c, "s")

        async def handler(client):
            try:
                while True:
                    data = await client.recv()
                    kind, proto, cid, method, body = parse_frame(data)
                    seen.append((method, body))
                    n = len(seen)
                    if n == 1:      # BackEndClient.login: refused
                        await client.send(rmc_error(proto, cid, 0x80030064))
                    elif method == M_LOGIN_EX:
                        await client.send(rmc_response(proto, cid, method, resp_login(e, big_pid(e, 7))))
                    elif method == M_REQUEST_TICKET:
                        await client.send(rmc_response(proto, cid, method, resp_ticket(e)))
                    elif method == M_GET_NAME:
                        await client.send(rmc_response(proto, cid, method, w_string(USER)))
                    else:
                        await client.send(rmc_error(proto, cid, 0x80010002))
            except anyio.EndOfStream:
                pass

        def info():
            i = authentication.AuthenticationInfo()
            i.token = "tökén"
            return i

        async def main():
            async with prudp.serve(handler, s_s, HOST, PORT):
                async with rmc.connect(s_c, HOST, PORT) as client:
                    obs.append(("minor", str(client.client.minor_version())))
                    be = backend.BackEndClient(s_c, client, HOST, PORT)
                    try:
                        async with be.login(USER, "pw", info()):
                            obs.append(("backend-login", "entered"))
                    except common.RMCError as ex:
                        obs.append(("backend-login", "rmc %#x" % ex.code()))
                    auth = authentication.AuthenticationClient(client)
                    try:
                        r = await auth.login_ex(USER, info())
                        obs.append(("login_ex->", "%d|%d|%s|%s|%s|%s|%d|%s" % (
                            r.result.code(), r.pid, r.ticket.hex(), str(r.connection_data.main_station), ",".join(map(str, r.connection_data.special_protocols)),
                            str(r.connection_data.special_station), r.connection_data.server_time.value(), r.server_name)))
                    except Exception as ex:
                        obs.append(("login_ex->", "exc " + type(ex).__name__))
                    try:
                        r = await auth.request_ticket(big_pid(e, 1), big_pid(e, 2))
                        obs.append(("request_ticket->", "%d|%s" % (r.result.code(), r.ticket.hex())))
                    except Exception as ex:
                        obs.append(("request_ticket->", "exc " + type(ex).__name__))
                    try:
                        r = await auth.get_name(big_pid(e, 3))
                        obs.append(("get_name->", r))
                    except Exception as ex:
                        obs.append(("get_name->", "exc " + type(ex).__name__))
        try:
            sim.run(main())
        except BaseException as ex:
            if isinstance(ex, (KeyboardInterrupt, SystemExit)): raise
            obs.append(("session", "exc " + type(ex).__name__ + ": " + str(ex)[:200]))
    for i, (m, b) in enumerate(seen):
        obs.append(("request%d" % i, "%d:%s" % (m, hx(b))))
    return obs


def expect_client(c, e=None):
    """what run_client must observe when the wire follows `e` (default: the caller's settings on this connection); the VALUES of the
    calls are always the ones run_client uses (chosen for the caller's pid size)"""
    v = effective(c)
    e = e or v
    m, body = req_backend_login(e, USER, "tökén")
    exp = [("minor", str(negotiated_minor(c["kind"], c["cmin"], c["smin"]))),
           ("backend-login", "rmc 0x80030064"),
           ("login_ex->", "%d|%d|%s|%s|%s|%s|%d|%s" % (0x10001, big_pid(v, 7), TICKET.hex(), MAIN_URL, "1,2", SPECIAL_URL,
                                                        SERVER_TIME if (e.ver >= 30500 and e.hdr) else 0, "srv")),
           ("request_ticket->", "%d|%s" % (0x10001, TICKET.hex())),
           ("get_name->", USER),
           ("request0", "%d:%s" % (m, hx(body))),
           ("request1", "%d:%s" % (M_LOGIN_EX, hx(req_login_ex(e, USER, "tökén")))),
           ("request2", "%d:%s" % (M_REQUEST_TICKET, hx(req_ticket(e, big_pid(v, 1), big_pid(v, 2))))),
           ("request3", "%d:%s" % (M_GET_NAME, hx(req_get_name(e, big_pid(v, 3)))))]
    return exp


# ----------------------------------------------------------------------------------------------------- scenario: library server
def run_server(c):
    """rmc.serve / rmc.serve_on_transport(settings, [AuthenticationServer implementation]) against a raw PRUDP client"""
    from sim import Sim
    from nintendo.nex import prudp, rmc, authentication, common
    e = effective(c)
    obs = []
    calls = []

    class Srv(authentication.AuthenticationServer):
        async def login_ex(self, client, username, extra_data):
            calls.append("login_ex %s %s %s %d %d %d" % (username, type(extra_data).__name__, getattr(extra_data, "token", None),
                                                        getattr(extra_data, "ngs_version", -1), getattr(extra_data, "token_type", -1), getattr(extra_data, "server_version", -1)))
            r = rmc.RMCResponse()
            r.result = common.Result.success()
            r.pid = big_pid(e, 7)
            r.ticket = TICKET
            d = authentication.RVConnectionData()
            d.main_station = common.StationURL.parse(MAIN_URL)
            d.special_protocols = [1, 2]
            d.special_station = common.StationURL.parse(SPECIAL_URL)
            d.server_time = common.DateTime(SERVER_TIME)
            r.connection_data = d
            r.server_name = "srv"
            return r

        async def request_ticket(self, client, source, target):
            calls.append("request_ticket %d %d" % (source, target))
            r = rmc.RMCResponse()
            r.result = common.Result.success()
            r.ticket = TICKET
            return r

        async def get_name(self, client, pid):
            calls.append("get_name %d" % pid)
            return USER

    with Sim(c.get("seed", 0)) as sim:
        sim.install_factories()
        sim.net.fate = lambda tx: [0.01]
        s_c, s_s = make_settings(c, "c"), make_settings(c, "s")
        import contextlib

        @contextlib.asynccontextmanager
        async def serve():
            if c["side"] == "server-transport":
                async with prudp.serve_transport(s_s, HOST, PORT) as transport:
                    async with rmc.serve_on_transport(s_s, [Srv()], transport, 1):
                        yield
            else:
                async with rmc.serve(s_s, [Srv()], HOST, PORT):
                    yield

        async def main():
            async with serve():
                async with prudp.connect(s_c, HOST, PORT) as client:
                    obs.append(("minor", str(client.minor_version())))
                    reqs = [(M_LOGIN_EX, req_login_ex(e, USER, "tökén")), (M_REQUEST_TICKET, req_ticket(e, big_pid(e, 1), big_pid(e, 2))),
                            (M_GET_NAME, req_get_name(e, big_pid(e, 3))), (M_LOGIN_EX, req_login_ex(e, "second", "t2"))]
                    for i, (m, body) in enumerate(reqs):
                        await client.send(rmc_request(AUTH_PROTOCOL, 100 + i, m, body))
                        data = await client.recv()
                        kind, proto, cid, method, rb = parse_frame(data)
                        obs.append(("response%d" % i, "%s %d %d:%s" % (kind, cid, method, hx(rb))))
        try:
            sim.run(main())
        except BaseException as ex:
            if isinstance(ex, (KeyboardInterrupt, SystemExit)): raise
            obs.append(("session", "exc " + type(ex).__name__ + ": " + str(ex)[:200]))
    for i, cl in enumerate(calls):
        obs.append(("handler%d" % i, cl))
    return obs


def expect_server(c, e=None):
    v = effective(c)
    e = e or v
    return [("minor", str(negotiated_minor(c["kind"], c["cmin"], c["smin"]))),
            ("response0", "ok 100 %d:%s" % (M_LOGIN_EX, hx(resp_login(e, big_pid(v, 7))))),
            ("response1", "ok 101 %d:%s" % (M_REQUEST_TICKET, hx(resp_ticket(e)))),
            ("response2", "ok 102 %d:%s" % (M_GET_NAME, hx(w_string(USER)))),
            ("response3", "ok 103 %d:%s" % (M_LOGIN_EX, hx(resp_login(e, big_pid(v, 7))))),
            ("handler0", "login_ex %s AuthenticationInfo tökén 3 1 0" % USER),
            ("handler1", "request_ticket %d %d" % (big_pid(v, 1), big_pid(v, 2))),
            ("handler2", "get_name %d" % big_pid(v, 3)),
            ("handler3", "login_ex second AuthenticationInfo t2 3 1 0")]


# ----------------------------------------------------------------------------------------------------- scenario: the HTTP transport of RMC
def run_hpp(c):
    """HppClient(settings, ...) is the other object the protocol classes encode through (`client.settings`): no PRUDP connection, hence no
    negotiated parameter - the caller's settings as they are"""
    from anynet import http
    from nintendo.nex import hpp, authentication
    e = effective(c)      # hpp cases carry kind v0 / minor 0: the caller's settings unchanged
    s = make_settings(c, "c")
    obs, seen = [], []
    real_request = http.request

    async def fake(host, req, context=None, **kw):
        kind, proto, cid, method, body = parse_frame(req.files["file"])
        seen.append((method, body))
        r = http.HTTPResponse(200)
        rb = {M_LOGIN_EX: resp_login(e, big_pid(e, 7)), M_REQUEST_TICKET: resp_ticket(e), M_GET_NAME: w_string(USER)}[method]
        p = u8(1) + u32(cid) + u32(method | 0x8000) + rb
        r.body = u32(len(p)) + p
        return r

    def info():
        i = authentication.AuthenticationInfo()
        i.token = "tökén"
        return i

    async def main():
        client = hpp.HppClient(s, 0x1234, "v1", 5, "pw")
        auth = authentication.AuthenticationClient(client)
        try:
            r = await auth.login_ex(USER, info())
            obs.append(("login_ex->", "%d|%d|%s|%s|%s|%s|%d|%s" % (
                r.result.code(), r.pid, r.ticket.hex(), str(r.connection_data.main_station), ",".join(map(str, r.connection_data.special_protocols)),
                str(r.connection_data.special_station), r.connection_data.server_time.value(), r.server_name)))
        except Exception as ex:
            obs.append(("login_ex->", "exc " + type(ex).__name__))
        try:
            r = await auth.request_ticket(big_pid(e, 1), big_pid(e, 2))
            obs.append(("request_ticket->", "%d|%s" % (r.result.code(), r.ticket.hex())))
        except Exception as ex:
            obs.append(("request_ticket->", "exc " + type(ex).__name__))
        try:
            obs.append(("get_name->", await auth.get_name(big_pid(e, 3))))
        except Exception as ex:
            obs.append(("get_name->", "exc " + type(ex).__name__))
    http.request = fake
    try:
        anyio.run(main)
    except Exception as ex:
        obs.append(("session", "exc " + type(ex).__name__ + ": " + str(ex)[:200]))
    finally:
        http.request = real_request
    for i, (m, b) in enumerate(seen):
        obs.append(("request%d" % i, "%d:%s" % (m, hx(b))))
    return obs


def expect_hpp(c, e=None):
    v = effective(c)
    e = e or v
    return [("login_ex->", "%d|%d|%s|%s|%s|%s|%d|%s" % (0x10001, big_pid(v, 7), TICKET.hex(), MAIN_URL, "1,2", SPECIAL_URL,
                                                       SERVER_TIME if (e.ver >= 30500 and e.hdr) else 0, "srv")),
            ("request_ticket->", "%d|%s" % (0x10001, TICKET.hex())),
            ("get_name->", USER),
            ("request0", "%d:%s" % (M_LOGIN_EX, hx(req_login_ex(e, USER, "tökén")))),
            ("request1", "%d:%s" % (M_REQUEST_TICKET, hx(req_ticket(e, big_pid(v, 1), big_pid(v, 2))))),
            ("request2", "%d:%s" % (M_GET_NAME, hx(req_get_name(e, big_pid(v, 3)))))]


def job(c):
    try:
        if c["side"] == "hpp":
            import logging
            logging.disable(logging.CRITICAL)
            return c, run_hpp(c), None
        obs = run_client(c) if c["side"] == "client" else run_server(c)
        return c, obs, None
    except Exception:
        return c, None, traceback.format_exc()


# ----------------------------------------------------------------------------------------------------- the check
NATIVE = {"3ds": ("v0", 4), "friends": ("v0", 4), "default": ("v2", 4), "switch": ("lite", 5)}
NEX = [(4, 30400, 0), (8, 30500, 3), (4, 40000, 7), (8, 40400, 9), (4, 40500, 0xFFFFFFFF), (8, 0, 0), (4, 30499, 1)]
SIDES = ("client", "server", "server-transport")
SETTING_NAMES = {"hdr": "nex.struct_header", "pid": "nex.pid_size", "ver": "nex.version", "cver": "nex.client_version"}


EXPECT = {"client": expect_client, "server": expect_server, "server-transport": expect_server, "hpp": expect_hpp}


def cases(rng, tier):
    out = []
    pairs = [(m, m) for m in range(6)] + [(4, 2), (2, 5), (3, 2), (5, 3)]
    if tier == "quick": pairs += [(rng.randint(0, 6), rng.randint(0, 6)) for _ in range(2)]
    else: pairs = [(a, b) for a in range(7) for b in range(7)]
    bases = list(NATIVE)
    i = rng.randint(0, 3)
    # the shipped files as they are: their own connection kind and minor version, every nex.* combination
    for base, (kind, minor) in NATIVE.items():
        for side in SIDES:
            for hdr in (0, 1):
                for pid, ver, cver in NEX:
                    out.append(dict(base=base, kind=kind, cmin=minor, smin=minor, hdr=hdr, pid=pid, ver=ver, cver=cver, side=side, tcp=0))
    # the HTTP transport of RMC (HppClient): the caller's settings as they are
    for base in NATIVE:
        for hdr in (0, 1):
            for pid, ver, cver in NEX:
                out.append(dict(base=base, kind="v0", cmin=0, smin=0, hdr=hdr, pid=pid, ver=ver, cver=cver, side="hpp", tcp=0))
    # every connection kind x minor versions of both ends (base file rotating)
    nex = NEX if tier != "quick" else NEX[:5]
    for side in SIDES:
        for kind in KINDS:
            for cmin, smin in pairs:
                for hdr in (0, 1):
                    for pid, ver, cver in nex:
                        i += 1
                        out.append(dict(base=bases[i % 4], kind=kind, cmin=cmin, smin=smin, hdr=hdr, pid=pid, ver=ver, cver=cver, side=side, tcp=i % 2))
    seen, uniq = set(), []
    for c in out:
        k = tuple(sorted(c.items()))
        if k not in seen:
            seen.add(k); uniq.append(c)
    return uniq


def model_line(c):
    v = effective(c)
    def h(x): return (x.encode() if isinstance(x, str) else x).hex() or "-"
    return "wire %s %d %d %d %d %d %d %s %s %s %s %d %s %d %d %d %d" % (
        c["kind"], c["cmin"], c["smin"], c["hdr"], c["pid"], c["ver"], c["cver"], h(USER), h("tökén"), h(MAIN_URL), h(SPECIAL_URL), SERVER_TIME,
        h(TICKET), big_pid(v, 7), big_pid(v, 1), big_pid(v, 2), big_pid(v, 3))


def model_obs(c, out):
    """the observations of run_client / run_server the model line predicts (subset: the bodies and the minor version)"""
    f = dict(t.split("=", 1) for t in out.split(" ")) if out != "bad-op" else {}
    if not f: return None
    if c["side"] == "hpp":
        return {"request0": "%d:%s" % (M_LOGIN_EX, f["loginex"]), "request1": "%d:%s" % (M_REQUEST_TICKET, f["ticket"]), "request2": "%d:%s" % (M_GET_NAME, f["getname"])}
    if c["side"] == "client":
        return {"minor": f["minor"], "request0": f["backend"], "request1": "%d:%s" % (M_LOGIN_EX, f["loginex"]),
                "request2": "%d:%s" % (M_REQUEST_TICKET, f["ticket"]), "request3": "%d:%s" % (M_GET_NAME, f["getname"])}
    return {"minor": f["minor"], "response0": "ok 100 %d:%s" % (M_LOGIN_EX, f["resplogin"]), "response1": "ok 101 %d:%s" % (M_REQUEST_TICKET, f["respticket"]),
            "response3": "ok 103 %d:%s" % (M_LOGIN_EX, f["resplogin"])}


def describe(c):
    m = negotiated_minor(c["kind"], c["cmin"], c["smin"])
    if c["side"] == "hpp":
        return "%s.cfg, HppClient, nex.struct_header=%d nex.pid_size=%d nex.version=%d nex.client_version=%d" % (c["base"], c["hdr"], c["pid"], c["ver"], c["cver"])
    conn = {"v0": "prudp v0", "v1": "prudp v1", "v2": "prudp.version 2 (v1 on the wire)", "lite": "prudp lite (%s)" % ("TCP" if c.get("tcp") else "WebSocket")}[c["kind"]]
    return "%s.cfg, %s, prudp.minor_version client %d / server %d (negotiated %d), nex.struct_header=%d nex.pid_size=%d nex.version=%d nex.client_version=%d" % (
        c["base"], conn, c["cmin"], c["smin"], m, c["hdr"], c["pid"], c["ver"], c["cver"])


def explain(c, obs):
    """is the observation the encoding of OTHER values of the nex.* settings than the caller's?  -> (setting, value the wire follows) | None"""
    e = effective(c)
    exp_fn = EXPECT[c["side"]]
    alts = []
    for hdr in (e.hdr, not e.hdr):
        for pid in (e.pid, 12 - e.pid):
            for ver in (e.ver, 0, 30400, 30500, 40000, 40400):
                for cver in (e.cver, 0):
                    alts.append(Eff(hdr, pid, ver, cver))
    alts.sort(key=lambda a: sum(x != y for x, y in zip(a.key(), e.key())))
    wire_items = lambda o: [x for x in o if x[0][-1].isdigit() and not x[0].startswith("handler")]
    for a in alts[1:]:
        try:
            if wire_items(exp_fn(c, a)) == wire_items(obs):
                return [(n, getattr(a, n), getattr(e, n)) for n in ("hdr", "pid", "ver", "cver") if getattr(a, n) != getattr(e, n)]
        except struct.error:
            continue
    return None


def run(ctx, drv):
    import time as _time
    t0 = _time.time()
    cs = cases(ctx.rng, ctx.tier)
    outs = drv.batch([model_line(c) for c in cs])
    model = {tuple(sorted(c.items())): model_obs(c, o) for c, o in zip(cs, outs)}
    ndiff = 0
    nviol = 0
    reported = set()      # one report per (setting, side): the runner caps the reports of a family
    with multiprocessing.Pool(min(16, os.cpu_count() or 4)) as pool:
        for c, obs, err in pool.imap_unordered(job, cs, chunksize=16):
            if err:
                ctx.corr_break("c20-wire-harness", "a session crashed in the harness", {"traceback": err, "case": c})
                continue
            m = negotiated_minor(c["kind"], c["cmin"], c["smin"])
            ctx.case(key=("wire",) + tuple(sorted(c.items())), nontrivial=True,
                     tag="wire:%s:%s:%s" % (c["side"], c["kind"] if c["side"] != "hpp" else "http", "minor<3" if m < 3 else "minor>=3"),
                     sample={"case": c, "obs": [list(o) for o in obs[:3]]} if ctx.evaluations % 401 == 0 else None)
            exp = EXPECT[c["side"]](c)
            if obs != exp:
                nviol += 1
                got, want = dict(obs), dict(exp)
                differing = [n for n, _ in exp if got.get(n) != want[n]] + [n for n, _ in obs if n not in want]
                name = next((n for n in differing if n[-1].isdigit()), differing[0])    # the wire bytes first
                why = explain(c, obs)
                if why:
                    setting = SETTING_NAMES[why[0][0]]
                    text = "; ".join("%s: the wire follows %s = %s, the caller's settings say %s" % (SETTING_NAMES[n], SETTING_NAMES[n], int(a), int(b)) for n, a, b in why)
                    what = ("a documented nex.* setting has no effect at the RMC layer (%s side of %s): %s. %s is %s, the caller's settings describe %s"
                            % (c["side"], describe(c), text, name, str(got.get(name))[:160], str(want.get(name))[:160]))
                else:
                    setting = "?"
                    what = ("the RMC layer (%s side of %s) does not encode / decode as the caller's nex.* settings describe: %s is %s, expected %s"
                            % (c["side"], describe(c), name, str(got.get(name))[:200], str(want.get(name))[:200]))
                vkey = "nex-setting-ignored:wire:%s:%s" % (setting, c["side"])
                if vkey in reported: continue
                reported.add(vkey)
                ctx.violation(vkey, what,
                              {"case": c, "observation": name, "real": got.get(name), "expected": want.get(name), "explained_by": why,
                               "all_real": obs, "all_expected": exp,
                               "how": "harness/api_wire.py job(case): run_client = rmc.connect(settings) + BackEndClient.login / AuthenticationClient calls against a raw "
                                      "prudp.serve endpoint; run_server = rmc.serve / serve_on_transport(settings, [AuthenticationServer]) against a raw prudp.connect client; "
                                      "over harness/sim.py"})
                continue
            mo = model[tuple(sorted(c.items()))]
            got = dict(obs)
            if mo is None or any(got.get(k) != v for k, v in mo.items()):
                ndiff += 1
                if ndiff == 1:
                    k = next((k for k, v in (mo or {}).items() if got.get(k) != v), None)
                    ctx.corr_break("c20-wire-model", "real RMCClient and the Lean model (NxModel/Api/Wire.lean) disagree",
                                   {"case": c, "line": model_line(c), "observation": k, "real": got.get(k), "model": (mo or {}).get(k)})
    ctx.extra["wire_sessions"] = len(cs)
    ctx.extra["wire_model_diffs"] = ndiff
    ctx.extra["wire_seconds"] = round(_time.time() - t0, 1)
