import NxModel.Nex.DateTime
import NxProofs.Bits
/-! DateTime: bit packing, civil calendar bijection, Unix-time round trip -/
namespace Nx.Nex.DateTime
open Nx

theorem second_eq (v : Nat) : second v = v % 64 := by
  unfold second; exact and_mask v 6
theorem minute_eq (v : Nat) : minute v = v / 64 % 64 := by
  unfold minute; rw [shr_eq_div]; exact and_mask _ 6
theorem hour_eq (v : Nat) : hour v = v / 4096 % 32 := by
  unfold hour; rw [shr_eq_div]; exact and_mask _ 5
theorem day_eq (v : Nat) : day v = v / 131072 % 32 := by
  unfold day; rw [shr_eq_div]; exact and_mask _ 5
theorem month_eq (v : Nat) : month v = v / 4194304 % 16 := by
  unfold month; rw [shr_eq_div]; exact and_mask _ 4
theorem year_eq (v : Nat) : year v = v / 67108864 := by
  unfold year; rw [shr_eq_div]

theorem make_eq_sum (f : Fields) (h : f.InRange) :
    make f = f.second + f.minute * 64 + f.hour * 4096 + f.day * 131072 + f.month * 4194304 + f.year * 67108864 := by
  obtain ⟨hmo, hd, hh, hmi, hs⟩ := h
  unfold make
  rw [or_shiftLeft_of_lt 6 f.minute (by omega)]
  rw [or_shiftLeft_of_lt 12 f.hour (by omega)]
  rw [or_shiftLeft_of_lt 17 f.day (by omega)]
  rw [or_shiftLeft_of_lt 22 f.month (by omega)]
  rw [or_shiftLeft_of_lt 26 f.year (by omega)]

/-- accessors ∘ make = id for fields that fit their widths (any year) -/
theorem fields_make (f : Fields) (h : f.InRange) : fields (make f) = f := by
  have hs := make_eq_sum f h
  obtain ⟨hmo, hd, hh, hmi, hsec⟩ := h
  obtain ⟨y, mo, d, hr, mi, s⟩ := f
  simp only [fields, second_eq, minute_eq, hour_eq, day_eq, month_eq, year_eq, hs, Fields.mk.injEq]
  simp only at hmo hd hh hmi hsec
  refine ⟨?_, ?_, ?_, ?_, ?_, ?_⟩ <;> omega

theorem fields_inRange (v : Nat) : (fields v).InRange := by
  simp only [Fields.InRange, fields, second_eq, minute_eq, hour_eq, day_eq, month_eq]
  refine ⟨?_, ?_, ?_, ?_, ?_⟩ <;> omega

/-- make ∘ fields = id for every value (all 2^64 wire values and beyond) -/
theorem make_fields (v : Nat) : make (fields v) = v := by
  rw [make_eq_sum _ (fields_inRange v)]
  simp only [fields, second_eq, minute_eq, hour_eq, day_eq, month_eq, year_eq]
  omega

/-! ## civil calendar -/

theorem yoe_le (doe : Nat) (h : doe < 146097) : yearOfEra doe ≤ 399 := by
  unfold yearOfEra yearStart; simp only []; split <;> omega
theorem yoe_lo (doe : Nat) (h : doe < 146097) : yearStart (yearOfEra doe) ≤ doe := by
  unfold yearOfEra yearStart; simp only []; split <;> omega
theorem yoe_hi (doe : Nat) (h : doe < 146097) : doe - yearStart (yearOfEra doe) ≤ 365 := by
  unfold yearOfEra yearStart; simp only []; split <;> omega
theorem yoe_next (doe : Nat) (h : doe < 146097) : yearOfEra doe < 399 → doe < yearStart (yearOfEra doe + 1) := by
  unfold yearOfEra yearStart; simp only []; split <;> omega

/-- the 366th day of a March-based year exists only when the following civil year is a leap year -/
theorem yoe_leap (doe : Nat) (h : doe < 146097) (h2 : doe - yearStart (yearOfEra doe) = 365) :
    (yearOfEra doe + 1) % 4 = 0 ∧ ((yearOfEra doe + 1) % 100 ≠ 0 ∨ (yearOfEra doe + 1) % 400 = 0) := by
  have hlo := yoe_lo doe h
  have hle := yoe_le doe h
  have hnext := yoe_next doe h
  generalize yearOfEra doe = y at *
  unfold yearStart at *
  have h4 : (y + 1) / 4 = y / 4 ∨ ((y + 1) / 4 = y / 4 + 1 ∧ (y + 1) % 4 = 0) := by omega
  have h100 : ((y + 1) / 100 = y / 100 ∧ (y + 1) % 100 ≠ 0) ∨ ((y + 1) / 100 = y / 100 + 1 ∧ (y + 1) % 100 = 0) := by omega
  by_cases hy : y < 399
  · have := hnext hy
    rcases h4 with h4 | h4 <;> rcases h100 with h100 | h100 <;> omega
  · have : y = 399 := by omega
    subst this; omega

theorem isLeap_iff (y : Nat) : isLeap y = true ↔ (y % 4 = 0 ∧ (y % 100 ≠ 0 ∨ y % 400 = 0)) := by
  simp [isLeap]

theorem isLeap_add_era (y e : Nat) : isLeap (y + e * 400) = isLeap y := by
  have h1 : (y + e * 400) % 4 = y % 4 := by omega
  have h2 : (y + e * 400) % 100 = y % 100 := by omega
  have h3 : (y + e * 400) % 400 = y % 400 := by omega
  simp [isLeap, h1, h2, h3]

/-- month index (March = 0) and day of month from the day of the March-based year -/
theorem md_spec (doy mp : Nat) (h : doy ≤ 365) (hmp : mp = (5 * doy + 2) / 153) :
    mp ≤ 11 ∧ (153 * mp + 2) / 5 ≤ doy ∧
    doy - (153 * mp + 2) / 5 + 1 ≤ (if mp = 11 then (if doy = 365 then 29 else 28)
        else if mp = 1 ∨ mp = 3 ∨ mp = 6 ∨ mp = 8 then 30 else 31) := by
  have h1 : 153 * mp ≤ 5 * doy + 2 := by omega
  have h2 : 5 * doy + 2 < 153 * (mp + 1) := by omega
  have hc : mp = 0 ∨ mp = 1 ∨ mp = 2 ∨ mp = 3 ∨ mp = 4 ∨ mp = 5 ∨ mp = 6 ∨ mp = 7 ∨ mp = 8 ∨ mp = 9 ∨ mp = 10 ∨ mp = 11 := by omega
  clear hmp
  rcases hc with rfl | rfl | rfl | rfl | rfl | rfl | rfl | rfl | rfl | rfl | rfl | rfl <;>
    (refine ⟨by omega, by omega, ?_⟩; simp; first | omega | (split <;> omega))

/-- days → civil → days is the identity (every day number, every era) -/
theorem daysOfCivil_civilOfDays (z : Nat) :
    daysOfCivil (civilOfDays z).1 (civilOfDays z).2.1 (civilOfDays z).2.2 = z := by
  have hdoe : z % 146097 < 146097 := Nat.mod_lt _ (by omega)
  have hle := yoe_le _ hdoe
  have hlo := yoe_lo _ hdoe
  have hhi := yoe_hi _ hdoe
  unfold civilOfDays daysOfCivil
  simp only []
  generalize hy : yearOfEra (z % 146097) = yoe at *
  generalize hd : z % 146097 - yearStart yoe = doy at *
  obtain ⟨hm1, hm2, _⟩ := md_spec doy _ hhi rfl
  generalize (5 * doy + 2) / 153 = mp at *
  have hz : z = (z / 146097) * 146097 + z % 146097 := by omega
  generalize z / 146097 = era at *
  generalize z % 146097 = doe at *
  have q1 : (yoe + era * 400) / 400 = era := by omega
  have q2 : (yoe + era * 400) % 400 = yoe := by omega
  have q3 : (153 * mp + 2) / 5 + (doy - (153 * mp + 2) / 5 + 1) - 1 = doy := by omega
  unfold yearStart at *
  by_cases hmp : mp < 10
  · have e1 : ¬ (mp + 3 ≤ 2) := by omega
    have e2 : mp + 3 > 2 := by omega
    have e3 : mp + 3 - 3 = mp := by omega
    simp only [hmp, if_true, e1, if_false, e2, e3, q1, q2, q3]
    omega
  · have e1 : mp - 9 ≤ 2 := by omega
    have e2 : ¬ (mp - 9 > 2) := by omega
    have e3 : mp - 9 + 9 = mp := by omega
    have e4 : yoe + era * 400 + 1 - 1 = yoe + era * 400 := by omega
    simp only [hmp, if_false, e1, if_true, e2, e3, e4, q1, q2, q3]
    omega

theorem dim_31 (y m : Nat) (h : m = 1 ∨ m = 3 ∨ m = 5 ∨ m = 7 ∨ m = 8 ∨ m = 10 ∨ m = 12) : daysInMonth y m = 31 := by
  unfold daysInMonth
  rcases h with rfl | rfl | rfl | rfl | rfl | rfl | rfl <;> simp
theorem dim_30 (y m : Nat) (h : m = 4 ∨ m = 6 ∨ m = 9 ∨ m = 11) : daysInMonth y m = 30 := by
  unfold daysInMonth
  rcases h with rfl | rfl | rfl | rfl <;> simp
theorem dim_feb (y : Nat) : daysInMonth y 2 = if isLeap y then 29 else 28 := by
  simp [daysInMonth]

/-- the civil date of a day number is a real calendar date -/
theorem civilOfDays_valid (z : Nat) :
    1 ≤ (civilOfDays z).2.1 ∧ (civilOfDays z).2.1 ≤ 12 ∧ 1 ≤ (civilOfDays z).2.2 ∧
    (civilOfDays z).2.2 ≤ daysInMonth (civilOfDays z).1 (civilOfDays z).2.1 := by
  have hdoe : z % 146097 < 146097 := Nat.mod_lt _ (by omega)
  have hhi := yoe_hi _ hdoe
  have hleap := yoe_leap _ hdoe
  unfold civilOfDays
  simp only []
  generalize hy : yearOfEra (z % 146097) = yoe at *
  generalize hd : z % 146097 - yearStart yoe = doy at *
  obtain ⟨hm1, hm2, hm3⟩ := md_spec doy _ hhi rfl
  generalize (5 * doy + 2) / 153 = mp at *
  generalize z / 146097 = era at *
  by_cases hmp : mp < 10
  · have e1 : ¬ (mp + 3 ≤ 2) := by omega
    have e11 : ¬ (mp = 11) := by omega
    simp only [hmp, if_true, e1, if_false]
    simp only [e11, if_false] at hm3
    refine ⟨by omega, by omega, by omega, ?_⟩
    by_cases h30 : mp = 1 ∨ mp = 3 ∨ mp = 6 ∨ mp = 8
    · rw [dim_30 _ (mp + 3) (by omega)]
      simp only [h30, if_true] at hm3
      exact hm3
    · rw [dim_31 _ (mp + 3) (by omega)]
      simp only [h30, if_false] at hm3
      exact hm3
  · have e1 : mp - 9 ≤ 2 := by omega
    simp only [hmp, if_false, e1, if_true]
    refine ⟨by omega, by omega, by omega, ?_⟩
    by_cases h11 : mp = 11
    · subst h11
      simp only [if_true] at hm3
      have e : yoe + era * 400 + 1 = (yoe + 1) + era * 400 := by omega
      have e2 : 11 - 9 = 2 := rfl
      rw [e2, dim_feb, e, isLeap_add_era]
      by_cases h365 : doy = 365
      · have := (isLeap_iff (yoe + 1)).mpr (hleap h365)
        simp only [this, if_true]
        simp only [h365, if_true] at hm3
        simpa [h365] using hm3
      · simp only [h365, if_false] at hm3
        split <;> omega
    · have h10 : mp = 10 := by omega
      subst h10
      have e2 : 10 - 9 = 1 := rfl
      rw [e2, dim_31 _ 1 (by omega)]
      have e3 : ¬ ((10 : Nat) = 11) := by omega
      have e4 : ¬ ((10 : Nat) = 1 ∨ (10 : Nat) = 3 ∨ (10 : Nat) = 6 ∨ (10 : Nat) = 8) := by omega
      simp only [e3, e4, if_false] at hm3
      exact hm3

/-! ## Unix time -/

theorem fieldsOfSecondsZ_eq (s : Nat) : fieldsOfSecondsZ s =
    ⟨(civilOfDays (s / 86400)).1, (civilOfDays (s / 86400)).2.1, (civilOfDays (s / 86400)).2.2,
     s % 86400 / 3600, s % 86400 % 3600 / 60, s % 86400 % 60⟩ := rfl

theorem daysOfCivil_ge (y m d : Nat) (hy : 10000 ≤ y) (hm1 : 1 ≤ m) (hm2 : m ≤ 12) (hd : 1 ≤ d) :
    3652365 ≤ daysOfCivil y m d := by
  unfold daysOfCivil
  simp only []
  by_cases h : m ≤ 2
  · have e : ¬ (m > 2) := by omega
    simp only [h, if_true, e, if_false]
    generalize hq : (y - 1) / 400 = era
    generalize hr : (y - 1) % 400 = yoe
    have : 400 * era + yoe = y - 1 := by omega
    have : yoe < 400 := by omega
    have : 306 ≤ (153 * (m + 9) + 2) / 5 := by omega
    omega
  · have e : m > 2 := by omega
    simp only [h, if_false, e, if_true]
    generalize hq : y / 400 = era
    generalize hr : y % 400 = yoe
    have : 400 * era + yoe = y := by omega
    omega

theorem civil_year_pos (z : Nat) (h1 : 306 ≤ z) : 1 ≤ (civilOfDays z).1 := by
  have hdoe : z % 146097 < 146097 := Nat.mod_lt _ (by omega)
  have hlo := yoe_lo _ hdoe
  have hhi := yoe_hi _ hdoe
  unfold civilOfDays
  simp only []
  generalize yearOfEra (z % 146097) = yoe at *
  generalize hd : z % 146097 - yearStart yoe = doy at *
  generalize hmp : (5 * doy + 2) / 153 = mp
  by_cases h : mp < 10
  · have e1 : ¬ (mp + 3 ≤ 2) := by omega
    simp only [h, if_true, e1, if_false]
    apply Nat.succ_le_of_lt
    apply Nat.pos_of_ne_zero
    intro h0
    have hy : yoe = 0 := by omega
    have he : z / 146097 = 0 := by omega
    subst hy
    unfold yearStart at *
    omega
  · have e1 : mp - 9 ≤ 2 := by omega
    simp only [h, if_false, e1, if_true]
    omega

/-- day numbers 306 … 3652364 are exactly the years 1 … 9999 -/
theorem civil_year_bounds (z : Nat) (h1 : 306 ≤ z) (h2 : z ≤ 3652364) :
    1 ≤ (civilOfDays z).1 ∧ (civilOfDays z).1 ≤ 9999 := by
  have hrt := daysOfCivil_civilOfDays z
  obtain ⟨v1, v2, v3, _⟩ := civilOfDays_valid z
  refine ⟨civil_year_pos z h1, ?_⟩
  apply Nat.le_of_not_lt
  intro hy
  have := daysOfCivil_ge _ _ _ hy v1 v2 v3
  omega

theorem secondsZ_fieldsOfSecondsZ (s : Nat) : secondsZ (fieldsOfSecondsZ s) = s := by
  rw [fieldsOfSecondsZ_eq]
  unfold secondsZ
  simp only [daysOfCivil_civilOfDays]
  omega

theorem fieldsOfSecondsZ_valid (s : Nat) (h1 : 306 * 86400 ≤ s) (h2 : s < 3652365 * 86400) :
    (fieldsOfSecondsZ s).Valid ∧ (fieldsOfSecondsZ s).InRange := by
  have hz1 : 306 ≤ s / 86400 := by omega
  have hz2 : s / 86400 ≤ 3652364 := by omega
  obtain ⟨y1, y2⟩ := civil_year_bounds _ hz1 hz2
  obtain ⟨v1, v2, v3, v4⟩ := civilOfDays_valid (s / 86400)
  rw [fieldsOfSecondsZ_eq]
  have hdim : daysInMonth (civilOfDays (s / 86400)).1 (civilOfDays (s / 86400)).2.1 ≤ 31 := by
    unfold daysInMonth; split <;> (try split) <;> omega
  refine ⟨⟨y1, y2, v1, v2, v3, v4, ?_, ?_, ?_⟩, ?_, ?_, ?_, ?_, ?_⟩ <;> simp only [] <;> omega

/-- Unix time → DateTime → Unix time is the identity in a zone `off` seconds east of UTC, whenever the
library call succeeds and the civil time one offset later still lies in the years 1..9999
(the last `off` seconds of 9999 are excluded for `off > 0`: there CPython's `timestamp()` raises). -/
theorem timestamp_fromTimestamp (off t : Int)
    (h1 : yearOk (t + off + (epochZ * 86400 : Nat)) = true)
    (h2 : yearOk (t + off + (epochZ * 86400 : Nat) - 86400) = true)
    (h3 : yearOk (t + off + (epochZ * 86400 : Nat) + off) = true) :
    ∃ v, fromTimestamp off t = .ok v ∧ timestamp off v = .ok t := by
  unfold fromTimestamp
  simp only [h1, h2, Bool.and_self, if_true]
  refine ⟨_, rfl, ?_⟩
  generalize hs : t + off + (epochZ * 86400 : Nat) = s at *
  simp only [yearOk, Bool.and_eq_true, decide_eq_true_eq] at h1 h2 h3
  have hn1 : 306 * 86400 ≤ s.toNat := by omega
  have hn2 : s.toNat < 3652365 * 86400 := by omega
  obtain ⟨hv, hr⟩ := fieldsOfSecondsZ_valid s.toNat hn1 hn2
  unfold timestamp
  simp only [fields_make _ hr, hv, if_true, secondsZ_fieldsOfSecondsZ]
  have hsn : (s.toNat : Int) = s := by omega
  have y1 : yearOk ((s.toNat : Int) + off) = true := by
    simp only [yearOk, Bool.and_eq_true, decide_eq_true_eq]; omega
  have y2 : yearOk ((s.toNat : Int) - 86400) = true := by
    simp only [yearOk, Bool.and_eq_true, decide_eq_true_eq]; omega
  simp only [y1, y2, Bool.and_self, if_true, Except.ok.injEq]
  omega

/-- the excluded region is real: 9999-12-31T23:59:59 in a zone nine hours east of UTC converts to a
DateTime whose `timestamp()` raises -/
theorem timestamp_fromTimestamp_counterexample :
    ∃ v, fromTimestamp 32400 253402268399 = .ok v ∧ timestamp 32400 v = .error .value := by
  refine ⟨make ⟨9999, 12, 31, 23, 59, 59⟩, by decide, by decide⟩

end Nx.Nex.DateTime
