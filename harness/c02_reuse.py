"""C02: ONE long-lived transport used for MANY connections one after the other, whose sessions END ABNORMALLY.

run_client(cfg, seed, endings)   one server (echo handler on virtual port 1), ONE client transport (`prudp.connect_transport`), and one
    `transport.connect(...)` session per entry of `endings`, strictly one after the other:
        'unserved'      the virtual port is served by nobody: the handshake fails
        'syn-lost'      the link is dead from the first datagram / write: the handshake fails
        'connect-lost'  the SYN is acknowledged, then the link dies: the handshake fails
        'silent'        established, one echo, the peer falls silent while the application waits in recv: EndOfStream leaves the block
        'kicked'        established, the server closes the connection forcefully: EndOfStream leaves the block
        'raise'         established, one echo, the application raises KeyError inside the block
        'cancel'        established, one echo, the block is left by cancellation (a time-out scope around it)
        'normal'        established, one echo, the block is left normally (graceful disconnect)
    After every session the link is healthy again and the server gets ping_timeout+(resend_limit+1)*resend_timeout (+0.25 s) to forget
    the peer. A last 'normal' session is appended: after all those endings the same transport must still connect.

run_server(cfg, seed, rounds)    ONE server transport (`prudp.serve_transport`) on which `transport.serve(handler, 1, 10)` is entered once
    per entry of `rounds`, and ONE client transport whose application connects in every round:
        'raise-connected'  a client is connected and echoed, then the body of the serve block raises KeyError
        'raise-busy'       the same, while the handler is busy with a request (sleeping)
        'raise-idle'       the body raises before any client connected
        'cancel-connected' the block is left by cancellation while a client is connected
        'normal'           the client disconnects, the block is left normally
    A last 'normal' round is appended: the same virtual port must be servable again on that transport.

ops: [name, t0, t1, outcome]; sessions: one dict per session / round."""
import random
import anyio

from sim import Sim, quant
import prudp_session as ps
from nintendo.nex import prudp
from c02_closing import flatten

SERVER = ps.SERVER
ESTABLISHING = ("silent", "kicked", "raise", "cancel", "normal")


def _settings(cfg, tcp):
    s = cfg.settings()
    if tcp and cfg.transport == "lite":
        s["prudp.transport"] = s.TRANSPORT_TCP
    return s


def _names(e):
    return [type(x).__name__ for x in flatten(e)]


def _link(sim, st):
    """st['dead']: everything is dropped; st['countdown'] = n: the next n transmissions pass, then the link is dead"""
    def passes():
        if st["dead"]:
            return False
        if st["countdown"] is not None:
            if st["countdown"] <= 0:
                st["dead"] = True
                st["countdown"] = None
                st["dead_at"] = sim.now()
                return False
            st["countdown"] -= 1
        return True
    sim.net.fate = lambda tx: [0.01] if passes() else []
    sim.net.stream_fate = lambda src, dst, n, chunk: "deliver" if passes() else "drop"


def run_client(cfg, seed, endings, tcp=False):
    out = ps.Session()
    out.cfg, out.seed, out.ops, out.endings = cfg, seed, [], list(endings)
    bound = cfg.ping_timeout + (cfg.resend_limit + 1) * cfg.resend_timeout
    out.bound = bound
    out.sessions = []
    with Sim(seed) as sim:
        s = _settings(cfg, tcp)
        sim.install_factories(fixed_client_addr=True)
        st = {"dead": False, "countdown": None, "dead_at": None}
        _link(sim, st)
        holder = {}

        async def handler(client):
            try:
                while True:
                    d = await client.recv()
                    if d == b"kick":
                        await client.close()
                        return
                    await client.send(b"echo:" + d)
            except anyio.EndOfStream:
                return

        async def echo(client, i):
            await client.send(b"ping %d" % i)
            with anyio.fail_after(quant(bound + 5)):
                d = await client.recv()
            return d == b"echo:ping %d" % i

        async def session(transport, i, ending):
            rec = {"i": i, "ending": ending, "t0": sim.now(), "connected": False, "echo": None, "ended": None, "error": None,
                   "ports_before": len(transport.ports.ports)}
            out.sessions.append(rec)
            st["dead"], st["countdown"], st["dead_at"] = False, None, None
            if ending == "syn-lost":
                st["dead"] = True; st["dead_at"] = sim.now()
            elif ending == "connect-lost":
                st["countdown"] = 2
            vport = 7 if ending == "unserved" else 1
            try:
                with anyio.move_on_after(quant(0.3) if ending == "cancel" else None) as scope:
                    async with transport.connect(vport, 10) as client:
                        rec["connected"] = True
                        rec["t_connected"] = sim.now()
                        rec["local_port"] = client.local_sid()
                        rec["echo"] = await echo(client, i)
                        if ending == "silent":
                            st["dead"] = True; st["dead_at"] = sim.now()
                            await client.recv()                  # EndOfStream leaves the block
                        elif ending == "kicked":
                            await client.send(b"kick")
                            await client.recv()                  # EndOfStream leaves the block
                        elif ending == "raise":
                            raise KeyError("application error")
                        elif ending == "cancel":
                            await anyio.sleep(1000.0)
                rec["ended"] = "cancelled" if scope.cancelled_caught else "returned"
            except BaseException as e:
                kinds = flatten(e)
                if not all(isinstance(x, Exception) for x in kinds):
                    rec["ended"] = "outer-cancel"
                    raise
                rec["ended"] = "raised:" + ",".join(sorted(set(_names(e))))
                rec["error"] = repr(kinds[0])[:120]
            finally:
                rec["t1"] = sim.now()
                rec["dead_at"] = st["dead_at"]
                rec["ports_after"] = len(transport.ports.ports)
            # the link works again; the server gets its time to forget the peer
            st["dead"], st["countdown"] = False, None
            await anyio.sleep(quant(bound + 0.25))
            rec["server_table"] = len(holder["sstream"].clients)

        async def main():
            async with prudp.serve_transport(s, SERVER[0], SERVER[1]) as stransport:
                async with stransport.serve(handler, 1, 10, None):
                    holder["sstream"] = stransport.ports.get(1, 10)
                    try:
                        async with prudp.connect_transport(s, SERVER[0], SERVER[1]) as transport:
                            for i, ending in enumerate(list(endings) + ["normal"]):
                                await session(transport, i, ending)
                    except BaseException as e:
                        out.transport_error = (_names(e), repr(e)[:200])
                        if not all(isinstance(x, Exception) for x in flatten(e)):
                            raise

        out.transport_error = None
        async def guarded():
            with anyio.move_on_after((len(endings) + 2) * (3 * bound + 10) + 60) as scope:
                await main()
            out.timed_out = scope.cancelled_caught
        try:
            sim.run(guarded()); out.crash = None
        except BaseException as e:
            out.crash = repr(e)[:300]; out.timed_out = False
        out.end_time = sim.now()
    return out


def run_server(cfg, seed, rounds, tcp=False):
    out = ps.Session()
    out.cfg, out.seed, out.ops, out.rounds = cfg, seed, [], list(rounds)
    bound = cfg.ping_timeout + (cfg.resend_limit + 1) * cfg.resend_timeout
    out.bound = bound
    out.sessions = []
    with Sim(seed) as sim:
        s = _settings(cfg, tcp)
        sim.install_factories(fixed_client_addr=True)
        st = {"dead": False, "countdown": None, "dead_at": None}
        _link(sim, st)

        async def handler(client):
            try:
                while True:
                    d = await client.recv()
                    if d.startswith(b"slow"):
                        await anyio.sleep(1000.0)
                    await client.send(b"echo:" + d)
            except anyio.EndOfStream:
                return

        async def client_app(ctransport, rec, echoed, kind):
            """the client of one round: connect, one echo, then read until the connection is over"""
            try:
                async with ctransport.connect(1, 10) as client:
                    rec["connected"] = True
                    await client.send(b"ping")
                    with anyio.fail_after(quant(bound + 5)):
                        d = await client.recv()
                    rec["echo"] = d == b"echo:ping"
                    if kind == "raise-busy":
                        await client.send(b"slow request")
                        await anyio.sleep(quant(0.05))
                    echoed.set()
                    if kind == "normal":
                        await client.disconnect()
                    else:
                        rec["t_wait"] = sim.now()
                        try:
                            while True:
                                await client.recv()
                        except anyio.EndOfStream:
                            rec["client_eof_at"] = sim.now()
            except BaseException as e:
                if not all(isinstance(x, Exception) for x in flatten(e)):
                    raise
                rec["client_error"] = repr(flatten(e)[0])[:120]
            finally:
                echoed.set()
                rec["client_done_at"] = sim.now()

        async def one_round(stransport, ctransport, i, kind, tg):
            rec = {"i": i, "round": kind, "t0": sim.now(), "served": False, "connected": False, "echo": None, "ended": None, "error": None,
                   "client_error": None, "client_eof_at": None, "client_done_at": None}
            out.sessions.append(rec)
            echoed = anyio.Event()
            try:
                with anyio.move_on_after(quant(0.4) if kind == "cancel-connected" else None) as scope:
                    async with stransport.serve(handler, 1, 10, None):
                        rec["served"] = True
                        if kind == "raise-idle":
                            await anyio.sleep(quant(0.1))
                            raise KeyError("server application error")
                        tg.start_soon(client_app, ctransport, rec, echoed, kind)
                        await echoed.wait()
                        if kind in ("raise-connected", "raise-busy"):
                            await anyio.sleep(quant(0.1))
                            rec["left_at"] = sim.now()
                            raise KeyError("server application error")
                        if kind == "cancel-connected":
                            await anyio.sleep(1000.0)
                        # normal: the client disconnects
                        while rec["client_done_at"] is None:
                            await anyio.sleep(quant(0.05))
                rec["ended"] = "cancelled" if scope.cancelled_caught else "returned"
                if scope.cancelled_caught:
                    rec["left_at"] = sim.now()
            except BaseException as e:
                kinds = flatten(e)
                if not all(isinstance(x, Exception) for x in kinds):
                    raise
                rec["ended"] = "raised:" + ",".join(sorted(set(_names(e))))
                rec["error"] = repr(kinds[0])[:120]
            rec["t1"] = sim.now()
            rec["server_ports_after"] = len(stransport.ports.ports)
            # the client of this round learns of the end by silence; wait for it (bounded), then go on
            with anyio.move_on_after(quant(3 * bound + 5)) as w:
                while kind != "raise-idle" and rec["served"] and rec["client_done_at"] is None:
                    await anyio.sleep(quant(0.05))
            rec["client_released"] = not w.cancelled_caught
            await anyio.sleep(quant(0.25))

        async def main():
            async with prudp.serve_transport(s, SERVER[0], SERVER[1]) as stransport:
                # the stream listener must exist before the client's transport connects
                async with prudp.connect_transport(s, SERVER[0], SERVER[1]) as ctransport:
                    async with anyio.create_task_group() as tg:
                        for i, kind in enumerate(list(rounds) + ["normal"]):
                            await one_round(stransport, ctransport, i, kind, tg)
                        tg.cancel_scope.cancel()

        async def guarded():
            with anyio.move_on_after((len(rounds) + 2) * (4 * bound + 10) + 60) as scope:
                await main()
            out.timed_out = scope.cancelled_caught
        try:
            sim.run(guarded()); out.crash = None
        except BaseException as e:
            out.crash = repr(e)[:300]; out.timed_out = False
        out.end_time = sim.now()
    return out
