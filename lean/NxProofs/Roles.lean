import NxProofs.Refine
import NxProofs.RefineSend
import NxProofs.HandlePath
/-!
# C01 — the two roles of one endpoint do not disturb each other; nor do other substreams

An endpoint is at the same time the sender of one direction and the receiver of the other, on several substreams.
* `SendFr c c' sub` : what the SENDER role of substream `sub` reads — its sequence counter, key and encryption position of its
  stream cipher, the cipher switch, the fragment size — is the same in `c'` as in `c` (the state is the same or DISCONNECTED).
* `RecvFr c c' sub` : what the RECEIVER role of substream `sub` reads — windows, queues, fragment buffers, EOF flag, link,
  state, key and decryption position of its stream cipher — is the same.
Everything the other role (and other substreams) do is shown to be such a frame step:
* receiving an ordinary reliable packet through `handle` (gates, acknowledgement, `process_reliable`), on ANY substream, is a
  `SendFr` step for every substream (`handle_ordinary_sendFr`);
* `send` on ANOTHER substream is a `SendFr` step (`send_other_sendFr`);
* `send` / ping on any substream of a connection with a live link is a `RecvFr` step (`send_recvFr`, `sendPing_recvFr`);
* handling an acknowledgement (not of SYN / CONNECT / DISCONNECT) is a `RecvFr` step (`handle_ack_recvFr`).
`NxProofs/Sys.lean` turns these into steps of the two-endpoint system that change nothing for the channel under study, so the
end-to-end theorems hold "for each direction and substream" with arbitrary traffic of the other direction and substreams in between.
-/
namespace Nx.L1
open Nx Nx.Prudp Nx.Chan

/-! ## sender role -/

structure SendFr (c c' : Conn) (sub : Nat) : Prop where
  ctr : c'.counters[sub]? = c.counters[sub]?
  ciph : (c'.relCiphers[sub]?).map (fun sc => (sc.key, sc.encPos)) = (c.relCiphers[sub]?).map (fun sc => (sc.key, sc.encPos))
  con : c'.cipherOn = c.cipherOn
  fs : c'.fragmentSize = c.fragmentSize
  st : c'.state = c.state ∨ c'.state = STATE_DISCONNECTED

theorem sendFr_refl (c : Conn) (sub : Nat) : SendFr c c sub := ⟨rfl, rfl, rfl, rfl, Or.inl rfl⟩

theorem sendFr_trans {a b c : Conn} {sub : Nat} (h1 : SendFr a b sub) (h2 : SendFr b c sub) : SendFr a c sub := by
  refine ⟨h2.ctr.trans h1.ctr, h2.ciph.trans h1.ciph, h2.con.trans h1.con, h2.fs.trans h1.fs, ?_⟩
  rcases h2.st with h | h
  · rcases h1.st with g | g
    · exact Or.inl (h.trans g)
    · exact Or.inr (h.trans g)
  · exact Or.inr h

theorem sendFr_bind (c : Conn) (sub : Nat) (r : R) (f : Conn → R) (hr : SendFr c r.c sub) (hf : ∀ x, SendFr x (f x).c sub) :
    SendFr c (r.bind f).c sub := by
  unfold R.bind
  cases r.err with
  | some e => exact hr
  | none => exact sendFr_trans hr (hf _)

/-- a `SendFr` step keeps the sender-side relation to the L2 sender, and the substream's cipher -/
theorem srel_of_sendFr {c c' : Conn} {sub n pos : Nat} (h : SendFr c c' sub) (hs : SRel c sub n pos) :
    SRel c' sub n pos ∧ cipherOf c' sub = cipherOf c sub := by
  obtain ⟨hc, sc, hsc, hpos⟩ := hs
  have hm := h.ciph
  rw [hsc] at hm
  cases h2 : c'.relCiphers[sub]? with
  | none => rw [h2] at hm; cases hm
  | some sc' =>
    rw [h2] at hm
    simp only [Option.map, Option.some.injEq, Prod.mk.injEq] at hm
    refine ⟨⟨by rw [h.ctr]; exact hc, sc', h2, fun hon => ?_⟩, ?_⟩
    · rw [hm.2]; exact hpos (by rw [← h.con]; exact hon)
    · simp only [cipherOf, h2, hsc, Option.map, Option.getD, hm.1, h.con]

theorem cleanup_sendFr (c : Conn) (sub : Nat) : SendFr c c.cleanup.c sub := ⟨rfl, rfl, rfl, rfl, Or.inr rfl⟩

theorem arm_sendFr (c : Conn) (now : Time) (p : Packet) (k sub : Nat) : SendFr c (c.arm now p k) sub := by
  unfold Conn.arm; cases c.sched <;> exact ⟨rfl, rfl, rfl, rfl, Or.inl rfl⟩

theorem transmit_sendFr (env : Env) (now : Time) (c : Conn) (p : Packet) (sub : Nat) : SendFr c (c.transmit env now p).c sub := by
  unfold Conn.transmit
  split
  · exact cleanup_sendFr c sub
  · split
    · exact sendFr_refl c sub
    · simp only [R.ok]; split
      · exact arm_sendFr _ _ _ _ _
      · exact sendFr_refl c sub

theorem setAt_length {α : Type} (l : List α) (i : Nat) (x : α) : (setAt l i x).length = l.length := by simp [setAt]

theorem set_other {α : Type} (l : List α) (i j : Nat) (x : α) (h : i ≠ j) : (setAt l i x)[j]? = l[j]? := by
  simp [setAt, List.getElem?_set, h]

theorem set_enc_same (l : List StreamCipher) (i j : Nat) (sc : StreamCipher) (n : Nat) (h : l[i]? = some sc) :
    ((setAt l i { sc with decPos := n })[j]?).map (fun sc => (sc.key, sc.encPos)) = (l[j]?).map (fun sc => (sc.key, sc.encPos)) := by
  simp only [setAt, List.getElem?_set]
  by_cases hij : i = j
  · subst hij
    have hlt : i < l.length := by
      cases hl : l[i]? with
      | none => rw [hl] at h; cases h
      | some x => exact (List.getElem?_eq_some_iff.mp hl).1
    rw [if_pos rfl, if_pos hlt, h]; rfl
  · rw [if_neg hij]

theorem set_dec_same (l : List StreamCipher) (i j : Nat) (sc : StreamCipher) (n : Nat) (h : l[i]? = some sc) :
    ((setAt l i { sc with encPos := n })[j]?).map (fun sc => (sc.key, sc.decPos)) = (l[j]?).map (fun sc => (sc.key, sc.decPos)) := by
  simp only [setAt, List.getElem?_set]
  by_cases hij : i = j
  · subst hij
    have hlt : i < l.length := by
      cases hl : l[i]? with
      | none => rw [hl] at h; cases h
      | some x => exact (List.getElem?_eq_some_iff.mp hl).1
    rw [if_pos rfl, if_pos hlt, h]; rfl
  · rw [if_neg hij]

/-- `PayloadEncoder.decode` moves a decryption position: nothing the sender role reads -/
theorem decodePayload_sendFr (env : Env) (c c1 : Conn) (p : Packet) (d : Bytes) (sub : Nat) (h : c.decodePayload env p = .ok (d, c1)) :
    SendFr c c1 sub := by
  by_cases h1 : p.type = TYPE_DATA ∧ (!p.payload.isEmpty) = true
  · by_cases h2 : hasReliable p.flags = true
    · cases h3 : c.relCiphers[p.substreamId]? with
      | none => rw [decodePayload_rel_none env c p h1 h2 h3] at h; cases h
      | some sc =>
        cases h4 : c.cipherOn with
        | true =>
          rw [decodePayload_rel_on env c p sc h1 h2 h3 h4] at h
          cases hd : env.decompress (rc4At sc.key sc.decPos p.payload) with
          | error e => rw [hd] at h; cases h
          | ok x => rw [hd] at h; cases h; exact ⟨rfl, set_enc_same _ _ _ _ _ h3, rfl, rfl, Or.inl rfl⟩
        | false =>
          rw [decodePayload_rel_off env c p sc h1 h2 h3 h4] at h
          cases hd : env.decompress p.payload with
          | error e => rw [hd] at h; cases h
          | ok x => rw [hd] at h; cases h; exact sendFr_refl c sub
    · rw [decodePayload_unrel env c p h1 h2] at h
      generalize env.decompress _ = r at h
      cases r with
      | error e => cases h
      | ok x => cases h; exact sendFr_refl c sub
  · rw [decodePayload_plain env c p h1] at h; cases h; exact sendFr_refl c sub

theorem consume_sendFr (env : Env) (s sub : Nat) : ∀ (rel : List Packet) (c : Conn), SendFr c (Conn.consume env s rel c).c sub := by
  intro rel
  induction rel with
  | nil => intro c; exact sendFr_refl c sub
  | cons p ps ih =>
    intro c
    unfold Conn.consume
    split
    · split
      · exact sendFr_refl c sub
      · rename_i data c1 hd
        have h1 := decodePayload_sendFr env c c1 p data sub hd
        split
        · split
          · exact sendFr_trans h1 ⟨rfl, rfl, rfl, rfl, Or.inl rfl⟩
          · exact sendFr_trans h1 (sendFr_bind _ sub _ _ ⟨rfl, rfl, rfl, rfl, Or.inl rfl⟩ ih)
        · dsimp only
          exact sendFr_trans h1 (sendFr_trans (b := { c1 with fragBufs := setAt c1.fragBufs s ((c1.fragBufs[s]?.getD []) ++ data) }) ⟨rfl, rfl, rfl, rfl, Or.inl rfl⟩ (ih _))
    · split
      · exact sendFr_bind c sub _ _ (cleanup_sendFr c sub) ih
      · exact ih c

theorem processReliable_sendFr (env : Env) (c : Conn) (p : Packet) (sub : Nat) : SendFr c (c.processReliable env p).c sub := by
  unfold Conn.processReliable
  split
  · exact sendFr_refl c sub
  · rename_i w hw
    generalize w.update p.packetId p = u
    obtain ⟨w', rel⟩ := u
    exact sendFr_trans (b := { c with windows := setAt c.windows p.substreamId w' }) ⟨rfl, rfl, rfl, rfl, Or.inl rfl⟩ (consume_sendFr env _ sub _ _)

/-- `send_packet` of an acknowledgement: no counter, no cipher -/
theorem sendPacket_ack_sendFr (env : Env) (now : Time) (c : Conn) (p : Packet) (sub : Nat) (hfl : p.flags = FLAG_ACK) :
    SendFr c (c.sendPacket env now p).c sub := by
  have hack : (hasAck p.flags || hasMultiAck p.flags) = true := by rw [hfl]; decide
  unfold Conn.sendPacket
  simp only [hack, Conn.assignIf, if_true, Conn.encodeIf, Bool.not_true, Bool.false_eq_true, and_false, if_false]
  exact transmit_sendFr env now c _ sub

theorem sendAck_sendFr (env : Env) (now : Time) (c : Conn) (p : Packet) (sub : Nat) : SendFr c (c.sendAck env now p).c sub := by
  unfold Conn.sendAck
  simp only []
  have h1 := sendPacket_ack_sendFr env now c
    { mkPacket p.type FLAG_ACK with packetId := p.packetId, fragmentId := p.fragmentId, substreamId := p.substreamId } sub rfl
  split
  · exact sendFr_bind c sub _ _ (sendFr_bind c sub _ _ h1 (fun x => sendPacket_ack_sendFr env now x _ sub rfl))
      (fun x => sendPacket_ack_sendFr env now x _ sub rfl)
  · exact h1

/-- **receiving does not disturb sending**: an ordinary reliable packet (any substream) through the whole receive path -/
theorem handle_ordinary_sendFr (env : Env) (now : Time) (c : Conn) (p : Packet) (sub : Nat) (ho : Ordinary p) :
    SendFr c (c.handle env now p).c sub := by
  unfold Conn.handle
  split
  · exact sendFr_refl c sub
  · split
    · exact sendFr_refl c sub
    · simp only [ho.nsyn, ho.ncon, if_false, ho.nack, Bool.false_eq_true]
      apply sendFr_bind
      · unfold Conn.processOther
        split
        · exact sendFr_refl c sub
        · simp only [ho.nmulti, Bool.false_eq_true, if_false]
          split
          · exact sendFr_refl c sub
          · split
            · exact sendFr_refl c sub
            · simp only [ho.nack, Bool.false_eq_true, if_false, ho.need, if_true, ho.rel]
              exact sendFr_bind c sub _ _ (sendAck_sendFr env now c p sub) (fun x => processReliable_sendFr env x p sub)
      · intro x; exact sendFr_refl x sub

theorem assignIf_other_sendFr (c c' : Conn) (p : Packet) (isAck : Bool) (n sub : Nat) (hrel : hasReliable p.flags = true)
    (hne : p.substreamId ≠ sub) (h : c.assignIf p isAck = .ok (n, c')) : SendFr c c' sub := by
  unfold Conn.assignIf at h
  split at h
  · cases h; exact sendFr_refl c sub
  · unfold Conn.assign at h
    simp only [hrel, if_true] at h
    split at h
    · cases h
    · cases h; exact ⟨set_other _ _ _ _ hne, rfl, rfl, rfl, Or.inl rfl⟩

theorem encodePayload_other_sendFr (env : Env) (c c' : Conn) (p : Packet) (d : Bytes) (sub : Nat) (hrel : hasReliable p.flags = true)
    (hne : p.substreamId ≠ sub) (h : c.encodePayload env p = .ok (d, c')) : SendFr c c' sub := by
  unfold Conn.encodePayload at h
  split at h
  · simp only [hrel, if_true] at h
    split at h
    · cases h
    · split at h
      · cases h
        refine ⟨rfl, ?_, rfl, rfl, Or.inl rfl⟩
        show ((setAt c.relCiphers p.substreamId _)[sub]?).map _ = _
        rw [set_other _ _ _ _ hne]
      · cases h; exact sendFr_refl c sub
  · cases h; exact sendFr_refl c sub

theorem encodeIf_other_sendFr (env : Env) (c c' : Conn) (p : Packet) (isAck : Bool) (d : Bytes) (sub : Nat)
    (hrel : hasReliable p.flags = true) (hne : p.substreamId ≠ sub) (h : c.encodeIf env p isAck = .ok (d, c')) : SendFr c c' sub := by
  unfold Conn.encodeIf at h
  split at h
  · exact encodePayload_other_sendFr env c c' p d sub hrel hne h
  · cases h; exact sendFr_refl c sub

/-- `send_packet` of a reliable packet of ANOTHER substream -/
theorem sendPacket_other_sendFr (env : Env) (now : Time) (c : Conn) (p : Packet) (sub : Nat) (hrel : hasReliable p.flags = true)
    (hne : p.substreamId ≠ sub) : SendFr c (c.sendPacket env now p).c sub := by
  unfold Conn.sendPacket
  simp only []
  split
  · exact sendFr_refl c sub
  · rename_i pid c1 h1
    have e1 : SendFr c c1 sub := assignIf_other_sendFr _ _ _ _ _ sub hrel hne h1
    split
    · exact e1
    · rename_i payload c2 h2
      have e2 : SendFr c1 c2 sub := by
        refine encodeIf_other_sendFr env _ _ _ _ _ sub ?_ ?_ h2
        · split <;> exact hrel
        · split <;> exact hne
      exact sendFr_trans e1 (sendFr_trans e2 (transmit_sendFr env now c2 _ sub))

theorem sendFrags_other_sendFr (env : Env) (now : Time) (s sub : Nat) (hne : s ≠ sub) : ∀ (fs : List Frag) (c : Conn),
    SendFr c (Conn.sendFrags env now s fs c).c sub := by
  intro fs
  induction fs with
  | nil => intro c; exact sendFr_refl c sub
  | cons f fs ih =>
    intro c
    rw [sendFrags_cons]
    exact sendFr_bind c sub _ _ (sendPacket_other_sendFr env now c (dataPacket s f) sub (show hasReliable (FLAG_RELIABLE + FLAG_NEED_ACK + FLAG_HAS_SIZE) = true by decide) hne) ih

/-- **other substreams do not disturb this one (sender side)** -/
theorem send_other_sendFr (env : Env) (now : Time) (c : Conn) (data : Bytes) (s sub : Nat) (hne : s ≠ sub) :
    SendFr c (c.send env now data s).c sub := by
  unfold Conn.send
  split
  · exact sendFr_refl c sub
  · split
    · exact sendFr_refl c sub
    · exact sendFrags_other_sendFr env now s sub hne _ c

/-! ## receiver role -/

structure RecvFr (c c' : Conn) (sub : Nat) : Prop where
  win : c'.windows[sub]? = c.windows[sub]?
  q : c'.queues[sub]? = c.queues[sub]?
  fb : c'.fragBufs[sub]? = c.fragBufs[sub]?
  lq : c'.queues.length = c.queues.length
  lfb : c'.fragBufs.length = c.fragBufs.length
  eof : c'.eof = c.eof
  link : c'.linkUp = c.linkUp
  st : c'.state = c.state
  len : c'.relCiphers.length = c.relCiphers.length
  ciph : (c'.relCiphers[sub]?).map (fun sc => (sc.key, sc.decPos)) = (c.relCiphers[sub]?).map (fun sc => (sc.key, sc.decPos))
  con : c'.cipherOn = c.cipherOn

theorem recvFr_refl (c : Conn) (sub : Nat) : RecvFr c c sub := ⟨rfl, rfl, rfl, rfl, rfl, rfl, rfl, rfl, rfl, rfl, rfl⟩

theorem recvFr_trans {a b c : Conn} {sub : Nat} (h1 : RecvFr a b sub) (h2 : RecvFr b c sub) : RecvFr a c sub :=
  ⟨h2.win.trans h1.win, h2.q.trans h1.q, h2.fb.trans h1.fb, h2.lq.trans h1.lq, h2.lfb.trans h1.lfb, h2.eof.trans h1.eof, h2.link.trans h1.link, h2.st.trans h1.st,
   h2.len.trans h1.len, h2.ciph.trans h1.ciph, h2.con.trans h1.con⟩

theorem recvFr_bind (c : Conn) (sub : Nat) (r : R) (f : Conn → R) (hr : RecvFr c r.c sub) (hf : ∀ x, RecvFr c x sub → RecvFr x (f x).c sub) :
    RecvFr c (r.bind f).c sub := by
  unfold R.bind
  cases r.err with
  | some e => exact hr
  | none => exact recvFr_trans hr (hf _ hr)

/-- a `RecvFr` step keeps everything the receiver-side coupling speaks about -/
theorem rrel_of_recvFr {c c' : Conn} {sub : Nat} {core : Core} (h : RecvFr c c' sub) (hw : SubWF c sub) (hr : RRel c sub core) :
    SubWF c' sub ∧ RRel c' sub core ∧ cipherOf c' sub = cipherOf c sub ∧ c'.windows[sub]? = c.windows[sub]? ∧
    (c.linkUp = true → c'.linkUp = true) ∧ (EofState c → EofState c') := by
  refine ⟨⟨by rw [h.len]; exact hw.1, by rw [h.lfb]; exact hw.2.1, by rw [h.lq]; exact hw.2.2⟩, ⟨by rw [h.eof]; exact hr.closed,
    by rw [h.q]; exact hr.out, fun he => ?_⟩, ?_, h.win, fun hl => by rw [h.link]; exact hl,
    fun he hh => by rw [h.st]; exact he (by rw [← h.eof]; exact hh)⟩
  · have hl := hr.live (by rw [← h.eof]; exact he)
    refine ⟨by rw [h.fb]; exact hl.1, fun hon => ?_⟩
    obtain ⟨sc, hsc, hd⟩ := hl.2 (by rw [← h.con]; exact hon)
    have hm := h.ciph
    rw [hsc] at hm
    cases h2 : c'.relCiphers[sub]? with
    | none => rw [h2] at hm; cases hm
    | some sc' =>
      rw [h2] at hm
      simp only [Option.map, Option.some.injEq, Prod.mk.injEq] at hm
      exact ⟨sc', rfl, by rw [hm.2]; exact hd⟩
  · have hm := h.ciph
    cases h1 : c.relCiphers[sub]? with
    | none =>
      rw [h1] at hm
      cases h2 : c'.relCiphers[sub]? with
      | none => simp only [cipherOf, h1, h2, h.con]
      | some x => rw [h2] at hm; cases hm
    | some sc =>
      rw [h1] at hm
      cases h2 : c'.relCiphers[sub]? with
      | none => rw [h2] at hm; cases hm
      | some sc' =>
        rw [h2] at hm
        simp only [Option.map, Option.some.injEq, Prod.mk.injEq] at hm
        simp only [cipherOf, h1, h2, Option.map, Option.getD, hm.1, h.con]

theorem arm_recvFr (c : Conn) (now : Time) (p : Packet) (k sub : Nat) : RecvFr c (c.arm now p k) sub := by
  unfold Conn.arm; cases c.sched <;> exact ⟨rfl, rfl, rfl, rfl, rfl, rfl, rfl, rfl, rfl, rfl, rfl⟩

theorem transmit_recvFr (env : Env) (now : Time) (c : Conn) (p : Packet) (sub : Nat) (hl : c.linkUp = true) :
    RecvFr c (c.transmit env now p).c sub := by
  unfold Conn.transmit
  simp only [hl, Bool.not_true, Bool.false_eq_true, if_false]
  split
  · exact recvFr_refl c sub
  · simp only [R.ok]; split
    · exact arm_recvFr _ _ _ _ _
    · exact recvFr_refl c sub

theorem assignIf_recvFr (c c' : Conn) (p : Packet) (isAck : Bool) (n sub : Nat) (h : c.assignIf p isAck = .ok (n, c')) : RecvFr c c' sub := by
  unfold Conn.assignIf at h
  split at h
  · cases h; exact recvFr_refl c sub
  · unfold Conn.assign at h
    split at h
    · split at h
      · cases h
      · cases h; exact ⟨rfl, rfl, rfl, rfl, rfl, rfl, rfl, rfl, rfl, rfl, rfl⟩
    · split at h
      · cases h; exact ⟨rfl, rfl, rfl, rfl, rfl, rfl, rfl, rfl, rfl, rfl, rfl⟩
      · split at h <;> (cases h; exact ⟨rfl, rfl, rfl, rfl, rfl, rfl, rfl, rfl, rfl, rfl, rfl⟩)

theorem encodePayload_recvFr (env : Env) (c c' : Conn) (p : Packet) (d : Bytes) (sub : Nat) (h : c.encodePayload env p = .ok (d, c')) :
    RecvFr c c' sub := by
  unfold Conn.encodePayload at h
  split at h
  · split at h
    · split at h
      · cases h
      · rename_i sc hsc
        split at h
        · cases h
          exact ⟨rfl, rfl, rfl, rfl, rfl, rfl, rfl, rfl, setAt_length _ _ _, set_dec_same _ _ _ _ _ hsc, rfl⟩
        · cases h; exact recvFr_refl c sub
    · split at h <;> (cases h; exact recvFr_refl c sub)
  · cases h; exact recvFr_refl c sub

theorem encodeIf_recvFr (env : Env) (c c' : Conn) (p : Packet) (isAck : Bool) (d : Bytes) (sub : Nat)
    (h : c.encodeIf env p isAck = .ok (d, c')) : RecvFr c c' sub := by
  unfold Conn.encodeIf at h
  split at h
  · exact encodePayload_recvFr env c c' p d sub h
  · cases h; exact recvFr_refl c sub

/-- **sending does not disturb receiving**: `send_packet` of any packet on a live link -/
theorem sendPacket_recvFr (env : Env) (now : Time) (c : Conn) (p : Packet) (sub : Nat) (hl : c.linkUp = true) :
    RecvFr c (c.sendPacket env now p).c sub := by
  unfold Conn.sendPacket
  simp only []
  split
  · exact recvFr_refl c sub
  · rename_i pid c1 h1
    have e1 : RecvFr c c1 sub := assignIf_recvFr _ _ _ _ _ sub h1
    split
    · exact e1
    · rename_i payload c2 h2
      have e2 : RecvFr c1 c2 sub := encodeIf_recvFr env _ _ _ _ _ sub h2
      have hl2 : c2.linkUp = true := by rw [e2.link, e1.link]; exact hl
      exact recvFr_trans e1 (recvFr_trans e2 (transmit_recvFr env now c2 _ sub hl2))

theorem sendFrags_recvFr (env : Env) (now : Time) (s sub : Nat) : ∀ (fs : List Frag) (c : Conn), c.linkUp = true →
    RecvFr c (Conn.sendFrags env now s fs c).c sub := by
  intro fs
  induction fs with
  | nil => intro c _; exact recvFr_refl c sub
  | cons f fs ih =>
    intro c hl
    rw [sendFrags_cons]
    exact recvFr_bind c sub _ _ (sendPacket_recvFr env now c _ sub hl) (fun x hx => ih x (by rw [hx.link]; exact hl))

theorem send_recvFr (env : Env) (now : Time) (c : Conn) (data : Bytes) (s sub : Nat) (hl : c.linkUp = true) :
    RecvFr c (c.send env now data s).c sub := by
  unfold Conn.send
  split
  · exact recvFr_refl c sub
  · split
    · exact recvFr_refl c sub
    · exact sendFrags_recvFr env now s sub _ c hl

theorem sendPing_recvFr (env : Env) (now : Time) (c : Conn) (sub : Nat) (hl : c.linkUp = true) : RecvFr c (c.sendPing env now).c sub :=
  sendPacket_recvFr env now c _ sub hl

theorem handleAggregateAck_recvFr (env : Env) (c : Conn) (p : Packet) (sub : Nat) : RecvFr c (c.handleAggregateAck env p).c sub := by
  unfold Conn.handleAggregateAck
  split
  · exact recvFr_refl c sub
  · split
    · exact recvFr_refl c sub
    · split
      · exact recvFr_refl c sub
      · simp only []
        split
        · exact recvFr_refl c sub
        · exact ⟨rfl, rfl, rfl, rfl, rfl, rfl, rfl, rfl, rfl, rfl, rfl⟩

/-- **acknowledgements do not disturb receiving** (an acknowledged DISCONNECT is excluded: it ends the connection) -/
theorem handle_ack_recvFr (env : Env) (now : Time) (c : Conn) (p : Packet) (sub : Nat)
    (hack : (hasAck p.flags || hasMultiAck p.flags) = true) (hns : p.type ≠ TYPE_SYN) (hnc : p.type ≠ TYPE_CONNECT)
    (hnd : p.type ≠ TYPE_DISCONNECT) : RecvFr c (c.handle env now p).c sub := by
  unfold Conn.handle
  split
  · exact recvFr_refl c sub
  · split
    · exact recvFr_refl c sub
    · simp only [hns, hnc, if_false]
      apply recvFr_bind
      · unfold Conn.processOther
        split
        · exact recvFr_refl c sub
        · split
          · exact handleAggregateAck_recvFr env c p sub
          · rename_i hm
            have hm' : hasMultiAck p.flags = false := by cases hh : hasMultiAck p.flags <;> simp_all
            have ha : hasAck p.flags = true := by simpa [hm'] using hack
            split
            · exact recvFr_refl c sub
            · split
              · exact recvFr_refl c sub
              · exact recvFr_refl c sub
      · intro x _
        split
        · split
          · exact ⟨rfl, rfl, rfl, rfl, rfl, rfl, rfl, rfl, rfl, rfl, rfl⟩
          · exact recvFr_refl x sub
        · exact recvFr_refl x sub

end Nx.L1

namespace Nx.L1
open Nx Nx.Prudp Nx.Chan

/-! ## receiving on ANOTHER substream -/

theorem bind_eof_mono (r : R) (f : Conn → R) (hr : r.c.eof = true) (hf : ∀ x, x.eof = true → (f x).c.eof = true) : (r.bind f).c.eof = true := by
  unfold R.bind
  cases r.err with
  | some e => exact hr
  | none => exact hf _ hr

/-- the EOF flag never goes back -/
theorem consume_eof_mono (env : Env) (s : Nat) : ∀ (rel : List Packet) (c : Conn), c.eof = true → (Conn.consume env s rel c).c.eof = true := by
  intro rel
  induction rel with
  | nil => intro c h; exact h
  | cons p ps ih =>
    intro c h
    unfold Conn.consume
    split
    · split
      · exact h
      · rename_i data c1 hd
        have h1 : c1.eof = true := by rw [(decodePayload_other env c c1 p data hd).2.2]; exact h
        dsimp only
        split
        · first
            | exact h1
            | (split
               · exact h1
               · rename_i hne; exact absurd h1 hne)
        · exact ih _ h1
    · split
      · exact bind_eof_mono _ _ rfl ih
      · exact ih c h

theorem set_ne_dec (l : List StreamCipher) (i j : Nat) (x : StreamCipher) (h : i ≠ j) :
    ((setAt l i x)[j]?).map (fun sc => (sc.key, sc.decPos)) = (l[j]?).map (fun sc => (sc.key, sc.decPos)) := by
  rw [set_other _ _ _ _ h]

/-- `PayloadEncoder.decode` of a packet of another substream: nothing the receiver role of `sub` reads -/
theorem decodePayload_other_recvFr (env : Env) (c c1 : Conn) (p : Packet) (d : Bytes) (sub : Nat) (hne : p.substreamId ≠ sub)
    (h : c.decodePayload env p = .ok (d, c1)) : RecvFr c c1 sub := by
  by_cases h1 : p.type = TYPE_DATA ∧ (!p.payload.isEmpty) = true
  · by_cases h2 : hasReliable p.flags = true
    · cases h3 : c.relCiphers[p.substreamId]? with
      | none => rw [decodePayload_rel_none env c p h1 h2 h3] at h; cases h
      | some sc =>
        cases h4 : c.cipherOn with
        | true =>
          rw [decodePayload_rel_on env c p sc h1 h2 h3 h4] at h
          cases hd : env.decompress (rc4At sc.key sc.decPos p.payload) with
          | error e => rw [hd] at h; cases h
          | ok x =>
            rw [hd] at h; cases h
            exact ⟨rfl, rfl, rfl, rfl, rfl, rfl, rfl, rfl, setAt_length _ _ _, set_ne_dec _ _ _ _ hne, rfl⟩
        | false =>
          rw [decodePayload_rel_off env c p sc h1 h2 h3 h4] at h
          cases hd : env.decompress p.payload with
          | error e => rw [hd] at h; cases h
          | ok x => rw [hd] at h; cases h; exact recvFr_refl c sub
    · rw [decodePayload_unrel env c p h1 h2] at h
      generalize env.decompress _ = r at h
      cases r with
      | error e => cases h
      | ok x => cases h; exact recvFr_refl c sub
  · rw [decodePayload_plain env c p h1] at h; cases h; exact recvFr_refl c sub

/-- the part of `RecvFr` that does not mention EOF and state -/
structure RecvFrL (c c' : Conn) (sub : Nat) : Prop where
  win : c'.windows[sub]? = c.windows[sub]?
  q : c'.queues[sub]? = c.queues[sub]?
  fb : c'.fragBufs[sub]? = c.fragBufs[sub]?
  lq : c'.queues.length = c.queues.length
  lfb : c'.fragBufs.length = c.fragBufs.length
  link : c'.linkUp = c.linkUp
  len : c'.relCiphers.length = c.relCiphers.length
  ciph : (c'.relCiphers[sub]?).map (fun sc => (sc.key, sc.decPos)) = (c.relCiphers[sub]?).map (fun sc => (sc.key, sc.decPos))
  con : c'.cipherOn = c.cipherOn

theorem recvFrL_refl (c : Conn) (sub : Nat) : RecvFrL c c sub := ⟨rfl, rfl, rfl, rfl, rfl, rfl, rfl, rfl, rfl⟩

theorem recvFrL_trans {a b c : Conn} {sub : Nat} (h1 : RecvFrL a b sub) (h2 : RecvFrL b c sub) : RecvFrL a c sub :=
  ⟨h2.win.trans h1.win, h2.q.trans h1.q, h2.fb.trans h1.fb, h2.lq.trans h1.lq, h2.lfb.trans h1.lfb, h2.link.trans h1.link,
   h2.len.trans h1.len, h2.ciph.trans h1.ciph, h2.con.trans h1.con⟩

theorem recvFrL_of (c c' : Conn) (sub : Nat) (h : RecvFr c c' sub) : RecvFrL c c' sub :=
  ⟨h.win, h.q, h.fb, h.lq, h.lfb, h.link, h.len, h.ciph, h.con⟩

theorem recvFrL_bind (c : Conn) (sub : Nat) (r : R) (f : Conn → R) (hr : RecvFrL c r.c sub) (hf : ∀ x, RecvFrL x (f x).c sub) :
    RecvFrL c (r.bind f).c sub := by
  unfold R.bind
  cases r.err with
  | some e => exact hr
  | none => exact recvFrL_trans hr (hf _)

/-- the release loop of ANOTHER substream never touches what the receiver role of `sub` reads (EOF and state apart) -/
theorem consume_other_recvFrL (env : Env) (s sub : Nat) (hne : s ≠ sub) : ∀ (rel : List Packet) (c : Conn),
    (∀ q ∈ rel, q.substreamId = s) → RecvFrL c (Conn.consume env s rel c).c sub := by
  intro rel
  induction rel with
  | nil => intro c _; exact recvFrL_refl c sub
  | cons p ps ih =>
    intro c hall
    have hps : p.substreamId = s := hall p List.mem_cons_self
    have hrest : ∀ q ∈ ps, q.substreamId = s := fun q hq => hall q (List.mem_cons_of_mem _ hq)
    unfold Conn.consume
    split
    · split
      · exact recvFrL_refl c sub
      · rename_i data c1 hd
        have e1 : RecvFrL c c1 sub := recvFrL_of _ _ _ (decodePayload_other_recvFr env c c1 p data sub (by rw [hps]; exact hne) hd)
        split
        · split
          · exact recvFrL_trans e1 ⟨rfl, rfl, set_other _ _ _ _ hne, rfl, setAt_length _ _ _, rfl, rfl, rfl, rfl⟩
          · dsimp only
            refine recvFrL_trans e1 (recvFrL_bind _ sub _ _ ?_ (fun x => ih x hrest))
            exact ⟨rfl, set_other _ _ _ _ hne, set_other _ _ _ _ hne, setAt_length _ _ _, setAt_length _ _ _, rfl, rfl, rfl, rfl⟩
        · dsimp only
          exact recvFrL_trans e1 (recvFrL_trans (b := { c1 with fragBufs := setAt c1.fragBufs s ((c1.fragBufs[s]?.getD []) ++ data) })
            ⟨rfl, rfl, set_other _ _ _ _ hne, rfl, setAt_length _ _ _, rfl, rfl, rfl, rfl⟩ (ih _ hrest))
    · split
      · exact recvFrL_bind c sub _ _ ⟨rfl, rfl, rfl, rfl, rfl, rfl, rfl, rfl, rfl⟩ (fun x => ih x hrest)
      · exact ih c hrest

/-- the release loop leaves the state alone, or it has released a DISCONNECT: then the connection is at EOF and DISCONNECTED -/
theorem consume_state (env : Env) (s : Nat) : ∀ (rel : List Packet) (c : Conn),
    ((Conn.consume env s rel c).c.state = c.state ∧ (Conn.consume env s rel c).c.eof = c.eof) ∨
    ((Conn.consume env s rel c).c.eof = true ∧ (Conn.consume env s rel c).c.state = STATE_DISCONNECTED) := by
  intro rel
  induction rel with
  | nil => intro c; exact Or.inl ⟨rfl, rfl⟩
  | cons p ps ih =>
    intro c
    unfold Conn.consume
    split
    · split
      · exact Or.inl ⟨rfl, rfl⟩
      · rename_i data c1 hd
        obtain ⟨_, e2, e3⟩ := decodePayload_other env c c1 p data hd
        split
        · split
          · exact Or.inl ⟨e2, e3⟩
          · dsimp only
            have hb : ∀ (r : R) (f : Conn → R), r.err = none → (r.bind f).c = (f r.c).c := fun r f h => (bind_ok r f h).2
            rw [hb _ _ rfl]
            rcases ih ({ c1 with fragBufs := setAt c1.fragBufs s [], queues := setAt c1.queues s ((c1.queues[s]?.getD []) ++ [(c1.fragBufs[s]?.getD []) ++ data]) } : Conn) with h | h
            · exact Or.inl ⟨h.1.trans e2, h.2.trans e3⟩
            · exact Or.inr h
        · dsimp only
          rcases ih ({ c1 with fragBufs := setAt c1.fragBufs s ((c1.fragBufs[s]?.getD []) ++ data) } : Conn) with h | h
          · exact Or.inl ⟨h.1.trans e2, h.2.trans e3⟩
          · exact Or.inr h
    · split
      · have hb : (c.cleanup.bind (Conn.consume env s ps)).c = (Conn.consume env s ps c.cleanup.c).c := (bind_ok _ _ rfl).2
        rw [hb]
        right
        refine ⟨consume_eof_mono env s ps _ rfl, ?_⟩
        rcases ih c.cleanup.c with h | h
        · exact h.1
        · exact h.2
      · exact ih c

/-- **other substreams do not disturb this one (receiver side)**: `process_reliable` of a packet of another substream, as long
    as it does not end the connection (a released DISCONNECT does), leaves the receiver role of `sub` untouched -/
theorem processReliable_other_recvFr (env : Env) (c : Conn) (p : Packet) (sub : Nat) (hne : p.substreamId ≠ sub)
    (hgw : ∀ w, c.windows[p.substreamId]? = some w → ∀ kq ∈ w.packets, kq.2.substreamId = p.substreamId)
    (hes : EofState c) (heof : (c.processReliable env p).c.eof = c.eof) : RecvFr c (c.processReliable env p).c sub := by
  unfold Conn.processReliable at heof ⊢
  split at heof
  · rename_i hw; exact recvFr_refl c sub
  · rename_i w hw
    simp only [] at heof ⊢
    generalize hu : w.update p.packetId p = u at heof ⊢
    obtain ⟨w', rel⟩ := u
    simp only [] at heof ⊢
    have hrel : ∀ q ∈ rel, q.substreamId = p.substreamId := by
      intro q hq
      have : q ∈ (w.update p.packetId p).2 := by rw [hu]; exact hq
      rcases update_mem w _ _ _ this with h | h
      · rw [h]
      · obtain ⟨k, hk⟩ := h; exact hgw w hw (k, q) hk
    have hL := consume_other_recvFrL env p.substreamId sub hne rel ({ c with windows := setAt c.windows p.substreamId w' } : Conn) hrel
    have hS := consume_state env p.substreamId rel ({ c with windows := setAt c.windows p.substreamId w' } : Conn)
    have hst : (Conn.consume env p.substreamId rel ({ c with windows := setAt c.windows p.substreamId w' } : Conn)).c.state = c.state := by
      rcases hS with h | h
      · exact h.1
      · have hce : c.eof = true := by rw [← heof]; exact h.1
        rw [h.2]; exact (hes hce).symm
    exact ⟨hL.win.trans (set_other _ _ _ _ hne), hL.q, hL.fb, hL.lq, hL.lfb, heof, hL.link, hst, hL.len, hL.ciph, hL.con⟩

end Nx.L1
