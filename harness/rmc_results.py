"""Wrongly typed handler RESULTS, at every position of every result type (C11).

A generated `handle_<method>` validates only the top level of what the user's method returned; every other
position (fields of a multi-value RMCResponse, list elements, map keys / values, attributes of returned
structures, ...) is checked by the encoder alone. This module
  * reads the declared type (*slot*) of every position from the code under test: the `output.<type>(...)`
    statements of the generated handler (translator field `enc_exprs`) and the `save()` methods of the
    structure classes (with `ast`; `if` tests on settings / version evaluated for the session's settings);
  * enumerates the positions of a concrete well-typed result value and replaces / inserts ONE wrong value
    (`apply`), described by a JSON-able path + a value token, so that a replay file names the exact input;
  * holds the catalogue of wrong values (every builtin scalar kind, text incl. non-ASCII / unencodable / too
    long, bytes, NEX value objects, flat lists / tuples / dicts, opaque objects), as tokens shared with the
    Lean driver (`Driver/C11.lean`: `rchk`, `rinc`, `retv:`);
  * states the property's own notion of "wrongly typed" (`incompatible`): which Python types a declared type
    cannot hold and the class of exception the answer must carry — written against Python's types, not against
    the encoder; the Lean twin is `RmcResult.incompat` (tied on every case, proved sound for the model).
Nothing here special-cases a type: the same walk covers every slot kind.
"""
import ast, inspect, textwrap
from nintendo.nex import common, rmc

# ------------------------------------------------------------------ value tokens
class WrongType:
    """an object of a class no generated handler expects"""
    def __repr__(self): return "<WrongType>"   # deterministic: `stationurl()` encodes str(value)


# NEX value objects with a deterministic `str()` (a `stationurl` position writes `str(value)`; the default repr
# carries the object's address)
class QuietResult(common.Result):
    def __repr__(self): return "<Result %d>" % self.code()
class QuietData(common.NullData):
    def __repr__(self): return "<QuietData>"
class QuietRange(common.ResultRange):
    def __repr__(self): return "<QuietRange>"


def _nats(s, sep="_"):
    return [int(x) for x in s.split(sep)] if s else []


def atom_value(tok):
    """Python value for an atom token"""
    if tok == "N": return None
    if tok == "T": return True
    if tok == "F": return False
    if tok == "Df": return 1.5
    if tok == "Db": return 1e39
    if tok == "Ds": return float("inf")
    if tok == "Xd": return common.DateTime(5)
    if tok == "Xr": return QuietResult(0x10001)
    if tok == "Xu": return common.StationURL.parse("prudp:/")
    if tok == "Xn": return QuietData()
    if tok == "Xs": return QuietRange(0, 1)
    if tok == "O": return WrongType()
    k, r = tok[0], tok[1:]
    if k == "I": return int(r)
    if k == "S": return "".join(chr(c) for c in _nats(r))
    if k == "B": return bytes(_nats(r))
    if k == "Y": return bytearray(_nats(r))
    if k == "R":
        c, n = r.split("x"); return chr(int(c)) * int(n)
    raise ValueError("atom token %r" % tok)


def token_value(tok):
    """Python value for a value token (atoms, L list, U tuple, M dict)"""
    k, r = tok[0], tok[1:]
    if k == "L": return [atom_value(t) for t in r.split(",")] if r else []
    if k == "U": return tuple(atom_value(t) for t in r.split(",")) if r else ()
    if k == "M": return {atom_value(kv.split("=")[0]): atom_value(kv.split("=")[1]) for kv in r.split(",")} if r else {}
    return atom_value(tok)


def S(text): return "S" + "_".join(str(ord(c)) for c in text)

ATOMS = ["N", "T", "F", "I0", "I5", "I-1", "I255", "I256", "I70000", "I4294967296", "I18446744073709551616",
         "I-9223372036854775809", "I" + str(10 ** 39), "I" + str(10 ** 400), "Df", "Db", "Ds",
         S(""), S("abc"), S("hé世"), S("\ud800"), "R120x70000", "B", "B97_98", "Y97_98",
         "Xd", "Xr", "Xu", "Xn", "Xs", "O"]
CONTAINERS = ["L", "LI1,I2", "LI300", "L%s,%s" % (S("a"), S("b")), "L%s,I2" % S("a"), "LN", "LO", "LT,Df",
              "UI1,I2", "U%s" % S("a"), "U", "M", "M%s=I1" % S("a"), "MI1=%s" % S("a"), "MI1=I2,I3=O", "MO=I1"]
CATALOGUE = ATOMS + CONTAINERS
def _hashable(t):
    try: hash(token_value(t)); return True
    except TypeError: return False
HASHABLE = [t for t in CATALOGUE if _hashable(t)]

# ------------------------------------------------------------------ slots
PRIMS = {"u8", "u16", "u32", "u64", "s8", "s16", "s32", "s64", "pid", "float", "double", "bool", "string", "buffer", "qbuffer",
         "result", "datetime", "stationurl", "variant", "anydata"}


class Unknown(Exception):
    pass


def _arg_slot(a):
    """slot of an element writer: `output.u8`, `stream.add`, `lambda x: output.list(x, output.add)`"""
    if isinstance(a, ast.Attribute) and isinstance(a.value, ast.Name) and a.value.id in ("output", "stream"):
        if a.attr == "add": return ("struct",)
        if a.attr in PRIMS: return (a.attr,)
        raise Unknown(a.attr)
    if isinstance(a, ast.Lambda) and isinstance(a.body, ast.Call):
        return call_slot(a.body)
    raise Unknown(ast.unparse(a))


def call_slot(call):
    """slot of an encode statement `output.<meth>(<value>, <element writers>...)`"""
    if not (isinstance(call, ast.Call) and isinstance(call.func, ast.Attribute) and isinstance(call.func.value, ast.Name)
            and call.func.value.id in ("output", "stream")):
        raise Unknown(ast.unparse(call))
    meth = call.func.attr
    if meth == "list" and len(call.args) == 2: return ("list", _arg_slot(call.args[1]))
    if meth == "map" and len(call.args) == 3: return ("map", _arg_slot(call.args[1]), _arg_slot(call.args[2]))
    if meth == "add" and len(call.args) == 1: return ("struct",)
    if meth in PRIMS and len(call.args) == 1: return (meth,)
    raise Unknown(ast.unparse(call))


def slot_token(slot, settings):
    k = slot[0]
    if k == "list": return "list." + slot_token(slot[1], settings)
    if k == "map": return "map.%s.%s" % (slot_token(slot[1], settings), slot_token(slot[2], settings))
    if k == "pid": return "pid8" if settings["nex.pid_size"] == 8 else "pid4"
    return k


class _Stream:
    def __init__(self, settings): self.settings = settings


_SAVE_CACHE = {}
def _save_ast(cls):
    if cls not in _SAVE_CACHE:
        res = None
        try:
            if "save" in cls.__dict__:
                fn = ast.parse(textwrap.dedent(inspect.getsource(cls.__dict__["save"]))).body[0]
                res = fn
        except (OSError, TypeError, SyntaxError):
            res = None
        _SAVE_CACHE[cls] = res
    return _SAVE_CACHE[cls]


_CHK_CACHE = {}
def _check_required_ast(tp):
    if tp not in _CHK_CACHE:
        res = None
        for k in tp.__mro__:
            if "check_required" in k.__dict__:
                try: res = ast.parse(textwrap.dedent(inspect.getsource(k.__dict__["check_required"]))).body[0]
                except (OSError, TypeError, SyntaxError): res = False
                break
        _CHK_CACHE[tp] = res
    return _CHK_CACHE[tp]


def struct_fields(cls, inst, settings):
    """[(attribute, slot, required)] in the order `cls.save` writes them under these settings, or None when `save`
    does not have the generated shape (the structure is then treated as one opaque position)"""
    fn = _save_ast(cls)
    if fn is None: return None
    # `save` calls `self.check_required(...)`: that is the check_required of the value's OWN class (the most derived
    # one that defines it), also while a base class's `save` runs — a base class's required attributes are therefore
    # not tested on instances of a subclass that defines its own check_required
    chk = _check_required_ast(type(inst))
    version = cls.max_version(inst, settings) if settings["nex.struct_header"] else 0
    mod = inspect.getmodule(cls).__dict__
    env = {"stream": _Stream(settings), "settings": settings, "version": version, "self": inst}
    def test(t):
        return bool(eval(compile(ast.Expression(t), "<cond>", "eval"), mod, env))
    required = set()
    def walk_required(body):
        for st in body:
            if isinstance(st, ast.If): walk_required(st.body if test(st.test) else st.orelse)
            elif isinstance(st, ast.For) and isinstance(st.iter, ast.List):
                required.update(e.value for e in st.iter.elts if isinstance(e, ast.Constant))
            elif isinstance(st, ast.Pass): pass
            else: raise Unknown("check_required: " + ast.unparse(st))
    fields = []
    def walk(body):
        for st in body:
            if isinstance(st, ast.If):
                walk(st.body if test(st.test) else st.orelse); continue
            if isinstance(st, ast.Pass): continue
            if isinstance(st, ast.Expr) and isinstance(st.value, ast.Call):
                src = ast.unparse(st.value.func)
                if src == "self.check_required": continue
                c = st.value
                if c.args and isinstance(c.args[0], ast.Attribute) and isinstance(c.args[0].value, ast.Name) and c.args[0].value.id == "self":
                    fields.append((c.args[0].attr, call_slot(c)))
                    continue
            raise Unknown("save: " + ast.unparse(st))
    try:
        if chk is False: return None
        if chk is not None: walk_required(chk.body)
        walk(fn.body)
    except Unknown:
        return None
    except Exception:
        return None
    return [(f, s, f in required) for f, s in fields]


# ------------------------------------------------------------------ positions of a concrete result
def _is_plain_struct(v):
    return isinstance(v, common.Structure)


def positions(slot, value, settings, depth=0):
    """-> [(path, slot, required)] : every position reachable in `value` (declared `slot`); path steps:
    ["ins", i]  insert the wrong value into the list at index i          (terminal)
    ["at", j]   the j-th element of a list
    ["mkey", j] the j-th key of a dict is replaced, its value kept         (terminal)
    ["mval", j] the value under the j-th key
    ["attr", a] attribute `a` of a structure
    the empty rest = the position itself is replaced"""
    out = [([], slot, False)]
    if depth > 5: return out
    k = slot[0]
    if k == "list" and isinstance(value, list):
        for i in sorted({0, len(value)}):
            out.append(([["ins", i]], slot[1], False))
        for j, el in enumerate(value):
            for p, s, r in positions(slot[1], el, settings, depth + 1):
                out.append(([["at", j]] + p, s, r))
    elif k == "map" and isinstance(value, dict):
        for j, (key, val) in enumerate(value.items()):
            out.append(([["mkey", j]], slot[1], False))
            for p, s, r in positions(slot[2], val, settings, depth + 1):
                out.append(([["mval", j]] + p, s, r))
    elif k == "struct" and _is_plain_struct(value):
        for cls in value.get_hierarchy():
            fs = struct_fields(cls, value, settings)
            if fs is None: continue
            for attr, fslot, req in fs:
                if not hasattr(value, attr): continue
                for p, s, r in positions(fslot, getattr(value, attr), settings, depth + 1):
                    out.append(([["attr", attr]] + p, s, (req if not p else r)))
    return out


def apply(value, path, w):
    """the result value with `w` at `path` (containers on the way are copied, structures modified in place:
    every result value is built afresh per request)"""
    if not path: return w
    step, rest = path[0], path[1:]
    op = step[0]
    if op == "ins":
        return value[:step[1]] + [w] + value[step[1]:]
    if op == "at":
        return value[:step[1]] + [apply(value[step[1]], rest, w)] + value[step[1] + 1:]
    if op == "mkey":
        return {(w if j == step[1] else k): v for j, (k, v) in enumerate(value.items())}
    if op == "mval":
        return {k: (apply(v, rest, w) if j == step[1] else v) for j, (k, v) in enumerate(value.items())}
    if op == "attr":
        setattr(value, step[1], apply(getattr(value, step[1]), rest, w))
        return value
    raise ValueError(step)


def response_slots(m):
    """[(field | None, slot)] of a supported method with a response, from the generated handler's statements"""
    calls = [ast.parse(src, mode="eval").body for src in m["enc_exprs"]]
    if m["resp"] == "m":
        if len(calls) != len(m["fields"]): raise Unknown("field count")
        return [(f, call_slot(c)) for f, c in zip(m["fields"], calls)]
    if len(calls) != 1: raise Unknown("statement count")
    return [(None, call_slot(calls[0]))]


TOP_TYPES = {"list": "list", "bool": "bool", "int": "int", "str": "str", "bytes": "bytes", "dict": "dict",
             "common.Result": "result", "common.DateTime": "datetime", "common.Data": "data"}


def top_type(m, module):
    """(token, python type) of `isinstance(response, T)` in a single-value handler"""
    exp = m["expected"]
    cls = eval(exp, module.__dict__)
    if exp in TOP_TYPES: return TOP_TYPES[exp], cls
    if isinstance(cls, type) and issubclass(cls, common.Structure): return "cls", cls
    raise Unknown("expected type " + exp)


def result_positions(m, module, rv, settings):
    """-> [(full_path, where_token, slot, required, top_class | None)] for the result value `rv` of method `m`"""
    out = []
    for field, slot in response_slots(m):
        if field is None:
            tok, cls = top_type(m, module)
            for p, s, r in positions(slot, rv, settings):
                out.append((p, ("top." + tok) if not p else ("in1" if r else "in0"), s, r, cls if not p else None))
        else:
            for p, s, r in positions(slot, getattr(rv, field), settings):
                out.append(([["field", field]] + p, "in1" if r else "in0", s, r, None))
    return out


def corrupt(m, rv, path, wtok):
    """the user method's return value: `rv` with the wrong value at `path`"""
    w = token_value(wtok)
    if path and path[0][0] == "field":
        setattr(rv, path[0][1], apply(getattr(rv, path[0][1]), path[1:], w))
        return rv
    return apply(rv, path, w)


# ------------------------------------------------------------------ the property's "wrongly typed" relation
INT_RANGE = {"u8": (0, 255), "u16": (0, 65535), "u32": (0, 0xFFFFFFFF), "u64": (0, (1 << 64) - 1),
             "s8": (-128, 127), "s16": (-32768, 32767), "s32": (-(1 << 31), (1 << 31) - 1), "s64": (-(1 << 63), (1 << 63) - 1),
             "pid4": (0, 0xFFFFFFFF), "pid8": (0, (1 << 64) - 1)}
SIZED = (str, bytes, bytearray, list, tuple, dict)


def incompatible(slot_tok, w):
    """None, or the class ("type" / "other") of the exception a result holding `w` at a position declared
    `slot_tok` must be answered with. Stated on Python's types; values the encoder duck-types are left out."""
    k = slot_tok.split(".")[0]
    if k in INT_RANGE:
        if not isinstance(w, int): return "type" if k == "u8" else "other"
        lo, hi = INT_RANGE[k]
        return None if lo <= w <= hi else "other"
    if k in ("float", "double"):
        return None if isinstance(w, (int, float)) else "other"
    if k == "string":
        return None if w is None or isinstance(w, str) else "type"
    if k in ("buffer", "qbuffer"):
        if isinstance(w, (bytes, bytearray, list, tuple, dict)): return None
        if isinstance(w, str) and k == "qbuffer" and len(w) > 65535: return "other"
        return "type"
    if k == "result": return None if isinstance(w, common.Result) else "other"
    if k == "datetime": return None if isinstance(w, common.DateTime) else "other"
    if k == "variant":
        return None if w is None or isinstance(w, (bool, int, float, str, common.DateTime)) else "type"
    if k in ("anydata", "struct"):
        if isinstance(w, common.Structure): return None
        return "type" if isinstance(w, str) else "other"
    if k == "list":
        return None if isinstance(w, SIZED) else "type"
    if k == "map":
        if isinstance(w, dict): return None
        return "other" if isinstance(w, SIZED) else "type"
    return None   # bool, stationurl: every value is written


def pick_wrong(rng, slot_tok, n, hashable=False):
    """n value tokens for a position: at least one the property calls wrongly typed, the rest from the whole catalogue"""
    pool = HASHABLE if hashable else CATALOGUE
    bad = [t for t in pool if incompatible(slot_tok, token_value(t)) is not None]
    out = []
    if bad: out.append(rng.choice(bad))
    while len(out) < n:
        t = rng.choice(pool)
        if t not in out: out.append(t)
    return out
