"""C02: tie of lean/NxModel/Prudp/C02Ports.lean to the real `prudp.PRUDPPortTable`: random sequences of `with table.bind(...)` blocks
(automatic / explicit port, several types, body left normally / by an exception / by cancellation; some keys held bound by enclosing
blocks) are run on the real table; for each sequence one generated obligation `Table.blocks ... = (table afterwards, yielded ports)`
is checked by the Lean kernel (`decide`)."""
import asyncio, contextlib
from nintendo.nex import prudp, settings as nexsettings

EXITS = ("returned", "raised", "cancelled")


def real_run(table, held, seq):
    """held: [(port, type)] bound by enclosing blocks for the whole sequence; seq: [(port|None, type, exit)].
    -> (initial keys in the model's order, yields, keys afterwards in the model's order)"""
    yields = []
    with contextlib.ExitStack() as stack:
        for port, typ in held:
            stack.enter_context(table.bind(object(), port, typ))
        initial = list(reversed(list(table.ports)))
        for port, typ, how in seq:
            try:
                with table.bind(object(), port, typ) as p:
                    yields.append(p)
                    if how == "raised":
                        raise KeyError("application error")
                    if how == "cancelled":
                        raise asyncio.CancelledError()
            except ValueError:
                yields.append(None)
            except (KeyError, asyncio.CancelledError):
                pass
        after = list(reversed(list(table.ports)))
    return initial, yields, after


def lean_list(xs, f=str):
    return "[" + ", ".join(f(x) for x in xs) + "]"


def opt(x):
    return "none" if x is None else "some %d" % x


def generate(rng, count):
    src = ["import NxModel.Prudp.C02Ports", "open Nx.Prudp.Ports", ""]
    cases = []
    for i in range(count):
        s = nexsettings.default()
        if i % 2:
            s["prudp.transport"] = s.TRANSPORT_WEBSOCKET if i % 4 == 1 else s.TRANSPORT_TCP
        table = prudp.PRUDPPortTable(s)
        n = table.num_ports
        types = [10] if i % 3 else [10, 11]
        nheld = rng.choice((0, 0, 1, 3, n - 1, n)) if i % 5 else 0
        held_ports = rng.sample(range(n), nheld)
        held = [(p, 10) for p in held_ports]
        seq = []
        for _ in range(rng.randint(3, 14)):
            port = None if rng.random() < 0.6 else rng.choice((1, n - 1, rng.randrange(n), rng.randrange(n)))
            seq.append((port, rng.choice(types), rng.choice(EXITS)))
        initial, yields, after = real_run(table, held, seq)
        cases.append({"num_ports": n, "held": held, "sequence": seq, "yields": yields, "after": after})
        blocks = lean_list(seq, lambda b: "(%s, %d, Exit.%s)" % (opt(b[0]), b[1], b[2]))
        src.append("theorem ports_ob_%d : (Table.mk %d %s).blocks %s = (Table.mk %d %s, %s) := by decide"
                   % (i, n, lean_list(initial), blocks, n, lean_list(after), lean_list(yields, opt)))
    return "\n".join(src) + "\n", cases


def run(ctx, count=24):
    src, cases = generate(ctx.rng, count)
    ok, out = ctx.lean_check("C02PortsTie", src)
    failed = []
    if ok:
        for _ in cases:
            ctx.obligation(True)
    else:
        # which ones fail: check one by one (only on a broken tie)
        lines = src.split("\n")
        head, obs = lines[:3], [l for l in lines[3:] if l.startswith("theorem")]
        for i, l in enumerate(obs):
            ok1, out1 = ctx.lean_check("C02PortsTie_%d" % i, "\n".join(head + [l]) + "\n")
            ctx.obligation(ok1)
            if not ok1:
                failed.append({"case": cases[i], "lean": l, "output": out1[-600:]})
    for c in cases:
        leaked = [k for k in c["after"] if k not in [p | (t << 8) for p, t in c["held"]]]
        ctx.case(key=("ports-tie", str(c["num_ports"]), str(c["held"]), str(c["sequence"])), nontrivial=True,
                 tag="ports-tie:%d-ports:%s" % (c["num_ports"], "some-held" if c["held"] else "empty"), sample=None)
        if leaked:
            failed.append({"case": c, "leaked_keys": leaked})
    return failed
