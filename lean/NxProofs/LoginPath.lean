import NxProofs.Backend
import NxProofs.HonestPath
/-! C17 ∘ C05: the connection a back-end login opens is admitted by the secure server as exactly the user the
authentication server issued. `Backend.plan` (C17) says which credentials `BackEndClient.login` hands to `prudp.connect`;
`honest_path` (C05) says what the keyed server's login check does with the connection request built from credentials. -/
namespace Nx.L1
open Nx Nx.Nex Nx.Nex.Kerberos Nx.Crypto Nx.Prudp

/-- the `kerberos.Credentials(ticket, pid, cid)` that `backend.login` passes to `prudp.connect`, as the L1 client holds them -/
def credsOfConnect (c : Backend.Connect) : Creds := ⟨c.pid, c.cid, c.ticket.sessionKey, c.ticket.internal⟩

/-- **login path, end to end.** Whenever the back-end login plan ends in a connection (C17: every gate passed) and the
    authentication server followed the protocol — the internal ticket of the final client ticket is a reference-built (C16)
    server ticket under the secure server's key, for the user id of the login response, carrying the session key of the client
    ticket, not older than 120 s — the secure server's login check (C05) admits the connection request the client builds from
    those credentials as exactly the user id the authentication server issued (`r.pid`), with the station's connection id
    and the ticket's session key, and answers with the response the client's own check accepts. -/
theorem login_path (bcfg : Backend.Cfg) (a : Backend.Args) (sc : Backend.Script) (c : Backend.Connect)
    (h : (Backend.plan bcfg a sc).outcome = .ok c)
    (s : Settings) (cfg : Prudp.Cfg) (kc : Nex.Kerberos.Cfg) (epoch : Nat) (tz : Int)
    (key ticketKey : Bytes) (t : ServerTicket) (conn : Conn) (now : Time) (ts : Int)
    (hT : ServerTicket.encrypt kc key ticketKey t = .ok c.ticket.internal)
    (hsk : c.ticket.sessionKey = t.sessionKey) (hpid : c.pid = t.source)
    (hcreds : conn.credentials = some (credsOfConnect c))
    (hps : s.pidSize = kc.pidSize) (hps' : kc.pidSize = 8 ∨ kc.pidSize = 4)
    (hpr : t.source < (if kc.pidSize = 8 then 18446744073709551616 else 4294967296))
    (hcid : c.cid < 4294967296) (hchk : conn.connectionCheck < 4294967296)
    (hkey : rc4KeyOk t.sessionKey = true) (htl : c.ticket.internal.length < 4294967296)
    (hts : DateTime.timestamp tz t.timestamp = .ok ts)
    (hfresh : ¬ ((ts + 120 - (epoch : Int)) * 1073741824 < (now : Int))) :
    let env := mkEnv s cfg kc epoch tz
    ∃ r resp, sc.first = .resp r ∧
      env.loginRequest (conn.buildConnectionRequest env) key now = .ok (r.pid, r.station.cid, t.sessionKey, resp) ∧
      conn.checkConnectionResponse resp = none := by
  intro env
  obtain ⟨r, ku, k', t1, tf, hfirst, _, _, _, _, hc, _, _⟩ := Backend.plan_connect_inv bcfg a sc c h
  have hp : c.pid = r.pid := by rw [hc]
  have hci : c.cid = r.station.cid := by rw [hc]
  obtain ⟨resp, h1, h2⟩ := honest_path s cfg kc epoch tz key ticketKey t c.ticket.internal conn (credsOfConnect c) now ts
    hT hcreds rfl hsk hpid hps hps' hpr hcid hchk hkey htl hts hfresh
  refine ⟨r, resp, hfirst, ?_, h2⟩
  have e1 : (credsOfConnect c).cid = r.station.cid := hci
  have e2 : t.source = r.pid := by rw [← hpid, hp]
  rw [← e1, ← e2]
  exact h1

end Nx.L1
