import NxModel.Misc.Auth
/-!
# The authenticating clients as OBJECTS: one client, a sequence of operations

`Auth.lean` gives the authentication codes as functions of their inputs. The clients of the library are
objects whose inputs are *knobs* that the caller can turn between two requests: the `Settings` object an
`HppClient` shares with its caller, the plain attributes `pid` / `password` / `call_id`, the `keys` dict a
`DAuthClient` was given, `set_system_version`, `set_platform_region`, `key_generation`.
`nex/hpp.py` and `switch/dauth.py` read every knob AT REQUEST TIME; the models below do the same: the state is
exactly the current value of every knob, a setter overwrites one of them, a request reads them all.
(So a cache that is filled in the constructor or by the first request is a deviation from this model; the
harness drives ONE real object and this model through the same operation sequence and compares every request.)
-/
namespace Nx.Misc
open Nx Nx.Crypto

/-! ## HppClient -/

structure HppClient where
  accessKey : Bytes      -- `bytes.fromhex(client.settings["prudp.access_key"])`, as it is NOW
  password : Bytes       -- `client.password.encode()`
  pid : Nat              -- `client.pid`
  callId : Nat           -- `client.call_id`
  deriving DecidableEq, Repr

inductive HppOp where
  | setAccessKey (k : Bytes)   -- `settings["prudp.access_key"] = …`, `settings.configure(…)`, `settings.reset()`, `client.settings = other`
  | setPassword (p : Bytes)    -- `client.password = …`
  | setPid (n : Nat)           -- `client.pid = …`
  | setCallId (n : Nat)        -- `client.call_id = …`
  | other                      -- `set_environment`, `nex_version`, `game_server_id`: not part of the authentication
  | request (data : Bytes)     -- `client.request(…)`; `data` = the encoded RMC message of that request
  deriving DecidableEq, Repr

/-- the authentication-relevant part of what one request puts on the wire -/
structure HppSent where
  callId : Nat
  pidHeader : Bytes
  signature1 : Bytes
  signature2 : Bytes
  deriving DecidableEq, Repr

/-- `HppClient(settings, game_server_id, nex_version, pid, password)` -/
def HppClient.fresh (accessKey password : Bytes) (pid : Nat) : HppClient := ⟨accessKey, password, pid, 1⟩

/-- the headers of a request issued in state `c` -/
def hppSend (c : HppClient) (data : Bytes) : HppSent :=
  let sig := hppSignatures c.accessKey c.password c.pid data
  ⟨c.callId, decimal c.pid, sig.1, sig.2⟩

def hppStep (c : HppClient) : HppOp → HppClient × List HppSent
  | .setAccessKey k => ({ c with accessKey := k }, [])
  | .setPassword p => ({ c with password := p }, [])
  | .setPid n => ({ c with pid := n }, [])
  | .setCallId n => ({ c with callId := n }, [])
  | .other => (c, [])
  | .request data => ({ c with callId := (c.callId + 1) % 2 ^ 32 }, [hppSend c data])

def hppRun (c : HppClient) : List HppOp → HppClient × List HppSent
  | [] => (c, [])
  | op :: r =>
    let s := hppStep c op
    let t := hppRun s.1 r
    (t.1, s.2 ++ t.2)

/-! ## DAuthClient -/

/-- a Python dict with byte-string keys: first match wins on lookup, assignment replaces in place or appends -/
abbrev Dict := List (Bytes × Bytes)

def dictGet (d : Dict) (k : Bytes) : Except Err Bytes :=
  match d.find? (fun e => e.1 = k) with
  | some e => .ok e.2
  | none => .error .key

def dictSet (d : Dict) (k v : Bytes) : Dict :=
  if d.any (fun e => e.1 = k) then d.map (fun e => if e.1 = k then (k, v) else e) else d ++ [(k, v)]

def dictDel (d : Dict) (k : Bytes) : Dict := d.filter (fun e => e.1 ≠ k)

structure DAuthClient where
  keys : Dict            -- `client.keys` as it is NOW
  keygen : Nat           -- `client.key_generation`
  digest : Bytes         -- `client.system_digest`
  ist : Bool             -- `client.region == 2`
  api7 : Bool            -- `client.api_version == 7`
  deriving DecidableEq, Repr

inductive DAuthOp where
  | setKey (name value : Bytes)                       -- `client.keys[name] = value`
  | delKey (name : Bytes)                             -- `del client.keys[name]`
  | setKeys (keys : Dict)                             -- `client.keys = {…}`
  | setVersion (keygen : Nat) (digest : Bytes) (api7 : Bool)   -- `set_system_version(v)`: the table entries of `v`
  | setKeygen (n : Nat)                               -- `client.key_generation = n`
  | setIst (b : Bool)                                 -- `set_platform_region(r)`
  | other                                             -- `set_power_state`, `set_host`, `set_context`
  | token (edge : Bool) (challenge : Bytes) (dataText : List Nat) (clientId : Nat) (vendor : Bytes)
  | mac (form data : Bytes)                           -- `client.calculate_mac(form, data)`
  deriving Repr

inductive DAuthOut where
  | token (r : Except Err (Bytes × Bytes))   -- (`mac` field, the signed form string)
  | mac (r : Except Err Bytes)
  deriving DecidableEq, Repr

/-- `calculate_mac` on the object: both keys are looked up in the dict at call time (KeyError if missing) -/
def DAuthClient.mac (c : DAuthClient) (form data : Bytes) : Except Err Bytes := do
  let kek ← dictGet c.keys (ascii "aes_kek_generation_source")
  let mk ← dictGet c.keys (masterKeyName c.keygen)
  dauthMac kek mk data form

/-- `device_token` / `edge_token` on the object, up to the `mac` field -/
def DAuthClient.token (c : DAuthClient) (edge : Bool) (challenge : Bytes) (dataText : List Nat) (clientId : Nat)
    (vendor : Bytes) : Except Err (Bytes × Bytes) := do
  let t ← asciiOf dataText
  let data ← b64urlDecodeRepad t
  let form := dauthForm challenge clientId c.ist c.keygen c.digest (if edge && c.api7 then some vendor else none)
  let m ← c.mac form data
  pure (m, form)

def dauthStep (c : DAuthClient) : DAuthOp → DAuthClient × List DAuthOut
  | .setKey n v => ({ c with keys := dictSet c.keys n v }, [])
  | .delKey n => ({ c with keys := dictDel c.keys n }, [])
  | .setKeys k => ({ c with keys := k }, [])
  | .setVersion g d a => ({ c with keygen := g, digest := d, api7 := a }, [])
  | .setKeygen g => ({ c with keygen := g }, [])
  | .setIst b => ({ c with ist := b }, [])
  | .other => (c, [])
  | .token e ch dt cid v => (c, [.token (c.token e ch dt cid v)])
  | .mac f d => (c, [.mac (c.mac f d)])

def dauthRun (c : DAuthClient) : List DAuthOp → DAuthClient × List DAuthOut
  | [] => (c, [])
  | op :: r =>
    let s := dauthStep c op
    let t := dauthRun s.1 r
    (t.1, s.2 ++ t.2)

end Nx.Misc
