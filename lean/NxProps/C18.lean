import NxProofs.SwitchMore
import NxProofs.SwitchTicket
/-!
# C18 — every supported console version yields well-formed, era-consistent requests

Model: `NxModel/Switch/{Http,Tables,Clients,All,Errors,Checks}.lean`.  `Tables` are the per-version dict
literals of the seven clients; the theorems hold for **every** `Tables` satisfying the named Bool checkers,
and the generated file (`tools/switch_tables.py`, re-made from the working tree on every run) proves those
checkers for the translated tables by `decide +kernel`, transfers them to the decoded tables with the lifting
lemmas (`Coded.decode_keys`, `apiEra_of_coded`, `templatesOk_of_coded`, `languages_of_coded`) and instantiates the theorems.
Statements only; proofs in `NxProofs/Switch.lean`, `NxProofs/SwitchMore.lean`.

Modelled as repaired: nothing.  (The `LANGUAGES` defect D10 is *not* built into the model: the list is a
translated table, and `languages_documented` is the obligation that fails on the unrepaired tree.)
-/
namespace Nx.C18
open Nx Nx.Http Nx.Switch

/-! ## set_version_atomic -/

/-- An unknown version is refused (`ValueError`) and leaves the client unchanged; a known one takes every
    dependent field from that version's row — for all seven clients, given equal key sets. -/
theorem set_version_atomic (T : Tables) (h : T.keys.sameSets = true) (v : Nat) :
    (dictHas T.fw v = false ∧
      (∀ s, Dauth.setVersion T s v = (s, some .value)) ∧ (∀ s, Aauth.setVersion T s v = (s, some .value)) ∧
      (∀ s, Baas.setVersion T s v = (s, some .value)) ∧ (∀ s, Five.setVersion T s v = (s, some .value)) ∧
      (∀ s, Dragons.setVersion T s v = (s, some .value)) ∧ (∀ s, Nim.setVersion T s v = (s, some .value))) ∨
    (dictHas T.fw v = true ∧
      (∀ s : Dauth, ∃ ua d k a, dictGet T.dauthUA v = some ua ∧ dictGet T.digest v = some d ∧ dictGet T.keygen v = some k ∧
        dictGet T.dauthApi v = some a ∧
        Dauth.setVersion T s v = ({ s with version := v, ua := ua, digest := d, keygen := k, api := a }, none)) ∧
      (∀ s : Aauth, ∃ ua a, dictGet T.aauthUA v = some ua ∧ dictGet T.aauthApi v = some a ∧
        Aauth.setVersion T s v = ({ s with version := v, ua := ua, api := a }, none)) ∧
      (∀ s : Baas, ∃ ua, dictGet T.baasUA v = some ua ∧ Baas.setVersion T s v = ({ s with version := v, ua := ua }, none)) ∧
      (∀ s : Five, ∃ ua, dictGet T.fiveUA v = some ua ∧ Five.setVersion T s v = ({ s with version := v, ua := ua }, none)) ∧
      (∀ s : Dragons, ∃ fw ua, dictGet T.fw v = some fw ∧ dictGet T.dauthUA v = some ua ∧
        Dragons.setVersion T s v =
          ({ s with version := v, uaNim := (match s.deviceId with | some d => some (nimUA fw d) | none => s.uaNim), uaDauth := ua }, none)) ∧
      (∀ s : Nim, ∃ fw, dictGet T.fw v = some fw ∧ Nim.setVersion T s v = ({ s with ua := nimUA fw s.deviceId }, none))) :=
  setVersion_atomic_all T h v

/-- The key-set hypothesis is needed: with a version present in `USER_AGENT` only, the code raises `KeyError`
    after two attributes were already overwritten. -/
theorem set_version_partial_update_counterexample :
    Dauth.setVersion raggedTables raggedStart 2 = ({ raggedStart with version := 2, ua := "ua2" }, some .key) :=
  setVersion_partial_update_example

/-! ## shape_changes_only_at_boundaries -/

/-- For supported versions `v₁ ≤ v₂` with none of 13.0.0, 15.0.0, 18.0.0, 19.0.0 in `(v₁, v₂]`, every public call of every
    client (construct, `set_system_version`, call) either fails identically or issues requests with the same method,
    header-name sequence, query-parameter keys and body keys. -/
theorem shape_changes_only_at_boundaries (T : Tables) (hk : T.keys.sameSets = true)
    (hd : eraConstant T.dauthApi = true) (ha : eraConstant T.aauthApi = true) (ht : TemplatesOk T)
    (v₁ v₂ : Nat) (hle : v₁ ≤ v₂) (hb : noBoundary v₁ v₂ = true)
    (h₁ : dictHas T.fw v₁ = true) (h₂ : dictHas T.fw v₂ = true) (c : AnyCall) :
    shapes (requestsAt T v₁ c) = shapes (requestsAt T v₂ c) :=
  requestsAt_shape T (keysAgree_of_sameSets T hk) hd ha ht hle hb h₁ h₂ c

/-- the boundaries are real: the dauth header order differs across 18.0.0 (so the theorem is not vacuous) -/
example : shapes (Dauth.call { version := 1701, ua := "u", digest := "d", keygen := 17, api := 7 } .challenge) ≠
    shapes (Dauth.call { version := 1800, ua := "u", digest := "d", keygen := 17, api := 7 } .challenge) := by decide

example : noBoundary 1700 1701 = true ∧ noBoundary 1701 1800 = false ∧ noBoundary 1300 1412 = true := by decide

/-! ## values_are_that_versions -/

/-- dauth: API version in both paths, key generation in both forms, the digest in the token form, that version's
    user agent before 18.0.0 and the 18.0.0+ header order after. -/
theorem values_are_that_versions_dauth (T : Tables) (h : T.keys.sameSets = true) (s₀ : Dauth) (v : Nat) (hv : dictHas T.fw v = true)
    (cid : Nat) (ch mac : String) :
    ∃ ua d k a, dictGet T.dauthUA v = some ua ∧ dictGet T.digest v = some d ∧ dictGet T.keygen v = some k ∧
      dictGet T.dauthApi v = some a ∧
      ∃ r₁ r₂, (Dauth.setVersion T s₀ v).1.call (.deviceToken cid ch mac) = .ok [r₁, r₂] ∧
        r₁.2.path = "/v" ++ dec a ++ "/challenge" ∧ formFieldsOf r₁.2 = [("key_generation", some (dec k))] ∧
        r₂.2.path = "/v" ++ dec a ++ "/device_auth_token" ∧
        ("key_generation", some (dec k)) ∈ formFieldsOf r₂.2 ∧ ("system_version", some d) ∈ formFieldsOf r₂.2 ∧
        (v < 1800 → ("User-Agent", ua) ∈ r₁.2.headers ∧ ("User-Agent", ua) ∈ r₂.2.headers) ∧
        (v ≥ 1800 → r₁.2.headers.map (·.1) = ["Host", "Accept", "Content-Type", "X-Nintendo-PowerState", "Content-Length"]) :=
  dauth_values T h s₀ v hv cid ch mac

theorem values_are_that_versions_aauth (T : Tables) (h : T.keys.sameSets = true) (s₀ : Aauth) (v : Nat) (hv : dictHas T.fw v = true)
    (title ver : Nat) (tok : String) :
    ∃ ua a, dictGet T.aauthUA v = some ua ∧ dictGet T.aauthApi v = some a ∧
      ∃ r, (Aauth.setVersion T s₀ v).1.call (.authSystem title ver tok) = .ok [r] ∧
        r.2.path = "/v" ++ dec a ++ "/application_auth_token" ∧
        ((if a < 5 then "media_type" else "auth_type"), some "SYSTEM") ∈ formFieldsOf r.2 ∧
        (v < 1800 → ("User-Agent", ua) ∈ r.2.headers) :=
  aauth_values T h s₀ v hv title ver tok

theorem values_are_that_versions_five (T : Tables) (h : T.keys.sameSets = true) (s₀ : Five) (v : Nat) (hv : dictHas T.fw v = true)
    (c : FiveCall) (r : List Sent) (hr : Five.call T (Five.setVersion T s₀ v).1 c = .ok r) :
    ∃ ua, dictGet T.fiveUA v = some ua ∧ ∀ x ∈ r, ("User-Agent", ua) ∈ x.2.headers :=
  five_values T h s₀ v hv c r hr

/-- sun / atumn: every request carries `NintendoSDK Firmware/<that version's firmware string> (…did:<device id>…)` -/
theorem values_are_that_versions_nim (T : Tables) (s₀ : Nim) (v : Nat) (hv : dictHas T.fw v = true) :
    ∃ fw, dictGet T.fw v = some fw ∧
      (∀ c r, (Nim.setVersion T s₀ v).1.sunCall c = .ok r → ∀ x ∈ r, ("User-Agent", nimUA fw s₀.deviceId) ∈ x.2.headers) ∧
      (∀ c r, (Nim.setVersion T s₀ v).1.atumnCall c = .ok r → ∀ x ∈ r, ("User-Agent", nimUA fw s₀.deviceId) ∈ x.2.headers) :=
  nim_values T s₀ v hv
/- baas and dragons: the user agent is `table[v] % module` resp. the firmware string; covered by `set_version_atomic`
   (the state fields) plus the byte-exact correspondence, no separate theorem. -/

/-! ## validation_exact -/

/-- `send_invitation` issues its request iff ≤ 16 receivers, every message language is in `LANGUAGES` and shorter than
    0xC0 characters, and the application data is at most 0x400 bytes; otherwise `ValueError` and nothing is sent. -/
theorem send_invitation_validation_exact (T : Tables) (s : Five) (tok : String) (recv : List Nat) (a g : Nat) (data : Bytes)
    (msgs : List (String × String)) (m : Bool) (acd : Nat) :
    (∃ r, Five.call T s (.sendInvitation tok recv a g data msgs m acd) = .ok r) ↔
      recv.length ≤ 16 ∧ (∀ p ∈ msgs, p.1 ∈ T.languages ∧ p.2.length < 0xC0) ∧ data.length ≤ 0x400 :=
  sendInvitation_ok_iff T s tok recv a g data msgs m acd

theorem five_refusal_is_value_error (T : Tables) (s : Five) (c : FiveCall) (e : Err) (h : Five.call T s c = .error e) : e = .value :=
  five_refusal_is_valueError T s c e h

/-- with the documented list: exactly the 16 documented language tags are accepted -/
theorem send_invitation_accepts_documented (T : Tables) (hl : T.languages = documentedLanguages) (s : Five) (tok lang msg : String)
    (hm : msg.length < 0xC0) :
    (∃ r, Five.call T s (.sendInvitation tok [1] 1 1 [] [(lang, msg)] false 0) = .ok r) ↔ lang ∈ documentedLanguages := by
  rw [sendInvitation_ok_iff, hl]; simp [hm]

example : "nl" ∈ documentedLanguages ∧ "fr-CA" ∈ documentedLanguages ∧ "nlfr-CA" ∉ documentedLanguages := by decide

/-- the message limit is a limit in CHARACTERS (code points), whatever character is used and whatever the size of the
    encoded text is: `n` copies of any character `c` are accepted iff `n < 0xC0` (tie: harness/c18_unicode.py runs the
    width grid - 1-, 2-, 3-, 4-byte characters at every count where characters / UTF-8 bytes / UTF-16 units cross 0xC0 -
    on the real client and on this model) -/
theorem send_invitation_limit_counts_characters (T : Tables) (hl : T.languages = documentedLanguages) (s : Five)
    (tok lang : String) (c : Char) (n : Nat) :
    (∃ r, Five.call T s (.sendInvitation tok [1] 1 1 [] [(lang, String.ofList (List.replicate n c))] false 0) = .ok r) ↔
      lang ∈ documentedLanguages ∧ n < 0xC0 := by
  rw [sendInvitation_ok_iff, hl]; simp [String.length_ofList]

/-- non-trivial point: 0xBF four-byte characters (0x2FC bytes of UTF-8) are below the limit, 0x30 of them already are 0xC0 bytes -/
example : (String.ofList (List.replicate 0xBF (Char.ofNat 0x1F600))).utf8ByteSize = 0x2FC ∧ (String.ofList (List.replicate 0x30 (Char.ofNat 0x1F600))).utf8ByteSize = 0xC0 := by
  decide +kernel

/-- a tag that merely folds / normalises to a documented one is not documented: Kelvin sign + `o`, full-width `ja`,
    `es-` + Arabic-Indic 419, `zh` + U+2010 + `Hans` -/
example : "\u212Ao" ∉ documentedLanguages ∧ "\uFF4A\uFF41" ∉ documentedLanguages ∧ "es-\u0664\u0661\u0669" ∉ documentedLanguages ∧
    "zh\u2010Hans" ∉ documentedLanguages := by decide

/-- baas `login`: `na_country` is required from 18.0.0 on and only then -/
theorem login_country_required_iff (v id : Nat) (pw acc : String) (app country : Option String) (skip : Bool) :
    (∃ p, Baas.plan v (.login id pw acc app country skip) = .ok p) ↔ (v < 1800 ∨ country.isSome) :=
  baas_login_country v id pw acc app country skip

/-- aauth `auth_digital`: API 3 accepts exactly a verified raw ticket, API ≥ 4 exactly a string with two dots -/
theorem auth_digital_cert_exact (api title : Nat) (cert : Cert) (ec ek : String) :
    (∃ r, digitalCert api title cert ec ek = .ok r) ↔
      (api = 3 ∧ ∃ b, cert = .bytes b ∧ ticketOk b title = true) ∨ (api ≥ 4 ∧ tokenOk cert = true) ∨ api < 3 :=
  digitalCert_ok_iff api title cert ec ek

/-- `verify_ticket` byte by byte: a raw ticket is accepted iff it has 0x2C0 bytes, starts with `04 00 01 00` (signature
    type 0x10004, little endian), carries the title id big-endian at 0x2A0..0x2A7, has zeros at 0x2A8..0x2AE and its byte
    0x2AF (end of the rights id) equals the master key revision byte 0x285 -/
theorem ticket_validation_bytewise (t : Bytes) (titleId : Nat) : ticketOk t titleId = true ↔ ticketBytesOk t titleId :=
  ticketOk_iff_bytes t titleId

/-- every byte the check covers matters: a ticket that differs from an accepted one in exactly one of the bytes
    0..3, 0x285, 0x2A0..0x2AF is refused -/
theorem ticket_single_byte_mutation_refused (t t' : Bytes) (titleId i : Nat)
    (hi : i < 4 ∨ i = 0x285 ∨ (0x2A0 ≤ i ∧ i < 0x2B0)) (hok : ticketOk t titleId = true)
    (hdiff : t'.getD i 0 ≠ t.getD i 0) (hsame : ∀ j, j ≠ i → t'.getD j 0 = t.getD j 0) :
    ticketOk t' titleId = false :=
  ticket_mutation_refused t t' titleId i hi hok hdiff hsame

/-- the joint change of the revision byte and the last rights-id byte to one value keeps a ticket accepted -/
theorem ticket_consistent_revision_change_accepted (t t' : Bytes) (titleId : Nat) (x : UInt8)
    (hok : ticketOk t titleId = true) (hlen : t'.length = t.length) (h1 : t'.getD 0x285 0 = x) (h2 : t'.getD 0x2AF 0 = x)
    (hsame : ∀ j, j ≠ 0x285 → j ≠ 0x2AF → t'.getD j 0 = t.getD j 0) : ticketOk t' titleId = true :=
  ticket_consistent_revision_accepted t t' titleId x hok hlen h1 h2 hsame

-- the hypotheses are satisfiable: an accepted ticket, and the same ticket with byte 0x2A8 set (refused)
example : ticketOk (sampleTicket 0) 0x0100ABCD12345000 = true ∧ ticketOk (sampleTicket 1) 0x0100ABCD12345000 = false ∧
    (sampleTicket 1).getD 0x2A8 0 ≠ (sampleTicket 0).getD 0x2A8 0 := by decide +kernel

/-- dragons: without a device id every call but the dauth-style one is refused; that one exists from 15.0.0 on -/
theorem dragons_device_id_required (s : Dragons) (hn : s.uaNim = none) (c : DragonsCall) :
    (∃ tok eid na title, c = .contentsAuthorizationTokenForAauth tok eid na title) ∨ s.call c = .error .value :=
  dragons_needs_device_id s hn c

theorem dragons_contents_token_since_15 (s : Dragons) (tok eid : String) (na title : Nat) :
    (∃ r, s.call (.contentsAuthorizationTokenForAauth tok eid na title) = .ok r) ↔ s.version ≥ 1500 :=
  dragons_contents_token_version s tok eid na title

/-! ## error_mapping -/

/-- no JSON body: success returns, any other status class raises `HTTPResponseError` — all seven clients -/
theorem error_mapping_bare (c : Client) (status : Nat) :
    classify c ⟨status, none⟩ = if isSuccess status then .ok none else .httpError status :=
  classify_no_json c status

/-- dauth / aauth: a well-formed error document raises the typed error with entry 0's code (`int(code)`), whatever the status -/
theorem error_mapping_dauth_aauth (status : Nat) (fields e : List (String × J)) (rest : List J) (code : Int) (msg : J)
    (hk : (J.obj fields).get? "errors" = some (.arr (J.obj e :: rest)))
    (hrest : ∀ x ∈ rest, ∃ f, x = J.obj f ∧ ((J.obj f).get? "code").isSome ∧ ((J.obj f).get? "message").isSome)
    (hc : ((J.obj e).get? "code").bind J.toInt? = some code) (hm : (J.obj e).get? "message" = some msg) :
    classify .dauth ⟨status, some (.obj fields)⟩ = .typed (.num code) msg ∧
    classify .aauth ⟨status, some (.obj fields)⟩ = .typed (.num code) msg :=
  ⟨classifyErrors_typed status fields e rest code msg hk hrest hc hm, classifyErrors_typed status fields e rest code msg hk hrest hc hm⟩

theorem error_mapping_baas (status : Nat) (fields : List (String × J)) (ty code title detail st inst : J)
    (h1 : (J.obj fields).get? "type" = some ty) (h2 : (J.obj fields).get? "errorCode" = some code)
    (h3 : (J.obj fields).get? "title" = some title) (h4 : (J.obj fields).get? "detail" = some detail)
    (h5 : (J.obj fields).get? "status" = some st) (h6 : (J.obj fields).get? "instance" = some inst) :
    classify .baas ⟨status, some (.obj fields)⟩ = .typed code title :=
  classifyBaas_typed status fields ty code title detail st inst h1 h2 h3 h4 h5 h6

theorem error_mapping_five (status : Nat) (fields e : List (String × J)) (code : Int) (msg : J)
    (hk : (J.obj fields).get? "error" = some (.obj e))
    (hc : ((J.obj e).get? "code").bind J.toInt? = some code) (hm : (J.obj e).get? "message" = some msg) :
    classify .five ⟨status, some (.obj fields)⟩ = .typed (.num code) msg :=
  classifyFive_typed status fields e code msg hk hc hm

theorem error_mapping_dragons (status : Nat) (hs : isSuccess status = false) (fields : List (String × J)) (ty : String) (title detail number : J)
    (h1 : (J.obj fields).get? "type" = some (.str ty)) (h2 : (J.obj fields).get? "title" = some title)
    (h3 : (J.obj fields).get? "detail" = some detail) (h4 : (J.obj fields).get? "number" = some number) :
    classify .dragons ⟨status, some (.obj fields)⟩ = .typed number title :=
  classifyDragons_typed status hs fields ty title detail number h1 h2 h3 h4

theorem error_mapping_sun (status : Nat) (hs : isSuccess status = false) (fields e : List (String × J)) (code msg : J)
    (hk : (J.obj fields).get? "error" = some (.obj e))
    (hc : (J.obj e).get? "code" = some code) (hm : (J.obj e).get? "message" = some msg) :
    classify .sun ⟨status, some (.obj fields)⟩ = .typed code msg :=
  classifySun_typed status hs fields e code msg hk hc hm

/-- a JSON object without the service's error key: success returns the parsed payload, failure raises `HTTPResponseError` -/
theorem error_mapping_plain_payload (c : Client) (k : String) (hk : errorKey c = some k) (status : Nat) (fields : List (String × J))
    (hno : fields.any (·.1 == k) = false) :
    classify c ⟨status, some (.obj fields)⟩ = if isSuccess status then .ok (some (.obj fields)) else .httpError status :=
  classify_plain_object c k hk status fields hno

theorem error_mapping_success_dragons_sun_atumn (status : Nat) (hs : isSuccess status = true) (j : J) :
    classify .dragons ⟨status, some j⟩ = .ok (some j) ∧ classify .sun ⟨status, some j⟩ = .ok (some j) ∧
      classify .atumn ⟨status, some j⟩ = .ok (some j) :=
  classify_success_nim status hs j

/-- a body that carries the error key never comes back as a success, well-formed or not (typed error, or another
    exception escapes while it is built — the latter is the behaviour for *malformed* error payloads) -/
theorem error_mapping_never_success (c : Client) (k : String) (hk : errorKey c = some k) (status : Nat) (j : J)
    (ht : j.truthy = true) (hc : j.contains? k = some true) :
    (classify c ⟨status, some j⟩).isTyped = true ∨ (classify c ⟨status, some j⟩).isRaise = true :=
  classify_error_key_never_ok c k hk status j ht hc

/- FULL STATEMENT NOT PROVED ("a server error payload *always* surfaces as that service's typed error"):
   for *malformed* error payloads (error key present, required members missing / of the wrong type) the code lets
   KeyError / IndexError / TypeError / ValueError escape from the exception constructor; the model mirrors that
   (`Outcome.raises`) and `error_mapping_never_success` is what holds.  Not a defect of the clients' contract for
   well-formed server output, so no finding is raised; the property's "always" is proved for well-formed documents. -/

/-! non-vacuity of the error-mapping hypotheses -/
example : classify .dauth ⟨400, some (.obj [("errors", .arr [.obj [("code", .str "0004"), ("message", .str "Unauthorized device")]])])⟩
    = .typed (.num 4) (.str "Unauthorized device") :=
  (error_mapping_dauth_aauth 400 _ [("code", .str "0004"), ("message", .str "Unauthorized device")] [] 4 _ rfl (by simp) (by decide) rfl).1

end Nx.C18
