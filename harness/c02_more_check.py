"""C02: job lists and property oracles for
   * harness/c02_closing.py  — stream transports whose writes raise a stream error in the graceful-disconnect phase
   * harness/c02_reuse.py    — one long-lived transport used for many connections that end abnormally (client and server side)
Judged on the real code only (no L1 replay: the model's stream link is one flag per transport, it has no write that fails while
the readers stay blocked, and it has no port table)."""
import traceback
import prudp_session as ps
import c02_closing as cc
import c02_reuse as cr

MARGIN = 0.06
STREAM_ERRORS = ("ClosedResourceError", "BrokenResourceError", "EndOfStream")
HOW = ("harness/c02_closing.py run(prudp_session.Cfg(**cfg), seed, closer, spec, tcp) judged by harness/c02_more_check.py judge_closing; "
       "harness/c02_reuse.py run_client(Cfg(**cfg), seed, endings, tcp) / run_server(Cfg(**cfg), seed, rounds, tcp) judged by judge_reuse_client / judge_reuse_server")


def _ops(se):
    return [[o[0], o[1], o[2], o[3]] for o in se.ops]


# ------------------------------------------------------------------------------------------------------------ closing phase

def describe_fault(closer, spec):
    who = {"disconnect": "the client calls disconnect()", "leave": "the client leaves its transport.connect() block", "rmc": "the client calls RMCClient.disconnect()",
           "server": "the server's handler returns (serve_client disconnects)"}[closer]
    if spec is None:
        return who + ", healthy stream"
    parts = []
    if spec.get("ext_close"):
        parts.append("the client's end of the stream is closed from outside at that instant")
    if spec.get("drop") is not None:
        parts.append("from write #%d of the closing phase on the stream is a black hole" % spec["drop"])
    if spec.get("side") is not None and not spec.get("ext_close"):
        parts.append("write #%d of the closing phase by %s and every later one raises %s" % (
            spec["at"], {"c": "the client", "s": "the server", "both": "either side"}[spec["side"]],
            "BrokenResourceError and the connection is gone for both ends" if spec.get("notify") else "BrokenResourceError while the readers learn nothing"))
    return who + "; " + "; ".join(parts)


def judge_closing(cfg, closer, spec, se):
    bad = []
    story = describe_fault(closer, spec)
    if se.crash:
        bad.append(("crash", "session ended abnormally: %s (%s)" % (se.crash, story)))
    if se.timed_out:
        bad.append(("hang", "the session did not finish: some operation blocked beyond every bound (%s)" % story))
    collapsed = any(w == "client-transport" for w, _, _ in se.errors)       # the client's transport ended with the stream's own error
    for where, kinds, text in ([] if se.timed_out else se.errors):
        odd = [k for k in kinds if k not in STREAM_ERRORS and not (collapsed and k == "CancelledError")]
        if odd:
            bad.append(("close-error", "%s: the %s ended with %s (%s) instead of returning or raising the stream's own error" % (story, where, odd, text)))
    if collapsed and not se.timed_out and not (spec and (spec.get("notify") or spec.get("ext_close"))):
        bad.append(("close-error", "%s: the client's transport collapsed although its reader was never told of a closed stream: %r" % (story, se.errors[:2])))
    ref = se.dead_at if se.dead_at is not None else se.close_start
    if ref is None:
        bad.append(("reference", "the closing phase was never reached (%s): %r" % (story, _ops(se)[:6])))
        return bad
    client_ops = ("connect", "disconnect", "rmc-disconnect", "block-exit", "call-answered", "call-after-close", "client-transport")
    ops = {}
    for o in se.ops:
        ops.setdefault(o[0], []).append(o)
    for name, t0, t1, outcome in se.ops:
        is_client = name.endswith("@c") or name in client_ops
        if t1 is None:
            if collapsed and is_client:
                continue            # cancelled with the transport's task group
            bad.append(("hang", "%s: %s started at %.3f never returned" % (story, name, t0)))
            continue
        if name in ("reconnect", "client-transport"):
            continue
        limit_t = max(ref + se.bound, t0) + MARGIN
        if t1 > limit_t:
            bad.append(("late", "%s: %s started at %.3f returned at %.3f, later than %.3f + ping_timeout + (resend_limit+1)*resend_timeout = %.3f"
                        % (story, name, t0, t1, ref, ref + se.bound)))
    h = (ops.get("handler") or [[None, None, None, None]])[0]
    if h[2] is not None and h[3] != "returned":
        bad.append(("server-forgets", "%s: the server's handler ended as %r" % (story, h[3])))
    first_del = se.table_deleted_at[0] if se.table_deleted_at else None
    if se.timed_out and first_del is not None and first_del <= ref + se.bound + MARGIN:
        pass        # the table lost the entry in time; the session hung elsewhere (reported above)
    elif se.server_table not in (0,) or first_del is None or first_del > ref + se.bound + MARGIN:
        bad.append(("server-forgets", "%s: the server must forget the peer within ping_timeout+(resend_limit+1)*resend_timeout of %.3f (by %.3f): its client table lost the entry at %s and held %s entries at %s"
                    % (story, ref, ref + se.bound, first_del, se.server_table, getattr(se, "table_checked_at", None))))
    for side in "cs":
        for nm in ("send@", "sendu@"):
            lst = ops.get(nm + side) or []
            if lst and lst[-1][2] is not None and lst[-1][1] >= se.close_start and lst[-1][3] != "closed":
                bad.append(("closed-send", "%s: %s on the ended connection returned %r instead of raising the closed-connection error" % (story, nm + side, lst[-1][3])))
    if closer == "rmc":
        o = (ops.get("call-after-close") or [[None, None, None, None]])[-1]
        if o[2] is not None and o[3] != "closed":
            bad.append(("pending-call", "%s: a remote call after the disconnect ended with %r" % (story, o[3])))
        o = (ops.get("call-answered") or [[None, None, None, None]])[-1]
        if o[3] != "ok:2a000000":
            bad.append(("reference", "%s: the remote call made before the closing phase ended with %r" % (story, o[3])))
    elif not (se.got["s"][:1] == [b"hello " * 5] and se.got["c"][:1] == [b"welcome " * 3]):
        bad.append(("reference", "%s: the messages exchanged before the closing phase were not delivered: %r" % (story, se.got)))
    if spec is None:
        for nm in ("disconnect", "rmc-disconnect", "block-exit"):
            o = (ops.get(nm) or [None])[-1]
            if o is not None and (o[2] is None or o[2] > o[1] + MARGIN or o[3] != "returned"):
                bad.append(("reference", "healthy stream: %s took from %.3f to %s (%s)" % (nm, o[1], o[2], o[3])))
    rec = ops.get("reconnect")
    if not se.timed_out and not se.crash and (not rec or rec[0][3] != "ok"):
        bad.append(("reconnect", "%s: afterwards the same address could not establish a working connection over a new stream: %s" % (story, rec[0][3] if rec else None)))
    if getattr(se, "server_table_end", 0) not in (0, None):
        bad.append(("server-forgets", "%s: after the reconnected session the server still holds %s entries" % (story, se.server_table_end)))
    return bad


def work_closing(args):
    idx, cfgd, seed, closer, spec, tcp = args
    try:
        cfg = ps.Cfg(**cfgd)
        se = cc.run(cfg, seed, closer, spec, tcp)
        bad = judge_closing(cfg, closer, spec, se)
        if spec is None:
            kind = "healthy"
        elif spec.get("ext_close"):
            kind = "stream-closed-from-outside"
        elif spec.get("side") is None:
            kind = "black-hole"
        else:
            kind = "%s-write-fails:%s%s" % (spec["side"], "both-ends-learn" if spec.get("notify") else "writer-only", ":after-black-hole" if spec.get("drop") is not None else "")
        tag = "closing:%s:%s" % (closer, kind)
        return idx, "closing", cfgd, seed, {"closer": closer, "spec": spec, "tcp": tcp}, bad, _ops(se), se.writes, tag, None
    except Exception:
        return idx, "closing", cfgd, seed, {"closer": closer, "spec": spec, "tcp": tcp}, [], None, None, None, traceback.format_exc()


# ------------------------------------------------------------------------------------------------------------ transport reuse

EXPECT_END = {"silent": "raised:EndOfStream", "kicked": "raised:EndOfStream", "raise": "raised:KeyError", "cancel": "cancelled", "normal": "returned",
              "unserved": "raised:RuntimeError", "syn-lost": "raised:RuntimeError", "connect-lost": "raised:RuntimeError"}


def _tname(cfgd, tcp):
    return ("lite-tcp" if tcp else "lite-ws") if cfgd.get("transport") == "lite" else "udp-v%d" % cfgd["version"]


def judge_reuse_client(cfg, endings, se):
    bad = []
    rt, lim = cfg.resend_timeout, cfg.resend_limit
    if se.crash:
        bad.append(("crash", "session ended abnormally: %s" % se.crash))
    if se.timed_out:
        bad.append(("hang", "the sequence of %d sessions on one transport did not finish: some operation blocked beyond every bound" % (len(endings) + 1)))
    if se.transport_error:
        bad.append(("transport-died", "the long-lived client transport ended with %r after sessions %r" % (se.transport_error, [r["ending"] for r in se.sessions])))
    if not se.crash and not se.timed_out and not se.transport_error and len(se.sessions) != len(endings) + 1:
        bad.append(("reference", "only %d of %d sessions were run" % (len(se.sessions), len(endings) + 1)))
    for r in se.sessions:
        before = [x["ending"] for x in se.sessions[:r["i"]]]
        story = "session #%d ('%s') on ONE client transport, after %d earlier sessions ending %s" % (
            r["i"], r["ending"], len(before), ",".join("%s x%d" % (k, before.count(k)) for k in sorted(set(before))) or "-")
        if r["ending"] in cr.ESTABLISHING:
            if not r["connected"] or not r["echo"]:
                bad.append(("reuse-connect", "%s: the same transport could not establish a working connection any more: ended %s, %s (local ports still bound before / after the attempt: %s / %s)"
                            % (story, r["ended"], r["error"], r["ports_before"], r.get("ports_after"))))
                continue
            if r["ended"] != EXPECT_END[r["ending"]]:
                bad.append(("reuse-ending", "%s: the connection block ended as %r (%s), expected %r" % (story, r["ended"], r["error"], EXPECT_END[r["ending"]])))
            if r["ending"] == "silent" and r.get("t1") is not None and r["t1"] > r["dead_at"] + se.bound + MARGIN:
                bad.append(("late", "%s: the peer fell silent at %.3f, the pending recv raised at %.3f, later than ping_timeout+(resend_limit+1)*resend_timeout" % (story, r["dead_at"], r["t1"])))
        else:
            want = (lim + 1) * rt + (0.02 if r["ending"] == "connect-lost" else 0.0)
            if r["connected"] or r["ended"] != "raised:RuntimeError" or r.get("t1") is None or r["t1"] - r["t0"] > want + 1e-3:
                bad.append(("connect-bound", "%s: connect to a peer that does not answer ended %s (%s) after %.3f s, expected failure within (resend_limit+1)*resend_timeout = %.3f"
                            % (story, r["ended"], r["error"], (r.get("t1") or 0) - r["t0"], want)))
        if r.get("server_table") not in (0, None):
            bad.append(("server-forgets", "%s: ping_timeout+(resend_limit+1)*resend_timeout+0.25 s after it ended the server still holds %s entries" % (story, r["server_table"])))
    return bad


def judge_reuse_server(cfg, rounds, se):
    bad = []
    if se.crash:
        bad.append(("crash", "session ended abnormally: %s" % se.crash))
    if se.timed_out:
        bad.append(("hang", "the sequence of %d serve blocks on one transport did not finish: some operation blocked beyond every bound" % (len(rounds) + 1)))
    if not se.crash and not se.timed_out and len(se.sessions) != len(rounds) + 1:
        bad.append(("reference", "only %d of %d rounds were run" % (len(se.sessions), len(rounds) + 1)))
    want_end = {"raise-connected": "raised:KeyError", "raise-busy": "raised:KeyError", "raise-idle": "raised:KeyError", "cancel-connected": "cancelled", "normal": "returned"}
    for r in se.sessions:
        before = [x["round"] for x in se.sessions[:r["i"]]]
        story = "round #%d ('%s') on ONE server transport, after %d earlier `transport.serve(handler, 1, 10)` blocks left by %s" % (
            r["i"], r["round"], len(before), ",".join("%s x%d" % (k, before.count(k)) for k in sorted(set(before))) or "-")
        if not r["served"]:
            bad.append(("reuse-serve", "%s: the same virtual port could not be served again on that transport: %s, %s" % (story, r["ended"], r["error"])))
            continue
        if r["round"] != "raise-idle" and (not r["connected"] or not r["echo"]):
            bad.append(("reuse-serve", "%s: the port is served again but a client could not establish a working connection: %s" % (story, r["client_error"])))
            continue
        if r["ended"] != want_end[r["round"]]:
            bad.append(("reuse-ending", "%s: the serve block ended as %r (%s), expected %r" % (story, r["ended"], r["error"], want_end[r["round"]])))
        if r["round"] not in ("raise-idle", "normal"):
            if not r.get("client_released") or r.get("client_eof_at") is None or r.get("left_at") is None or r["client_eof_at"] > r["left_at"] + se.bound + MARGIN:
                bad.append(("late", "%s: the serve block was left at %s; the connected client's recv raised end-of-stream at %s (bound %.3f)" % (story, r.get("left_at"), r.get("client_eof_at"), se.bound)))
    return bad


def work_reuse(args):
    idx, cfgd, seed, side, seq, tcp = args
    try:
        cfg = ps.Cfg(**cfgd)
        if side == "client":
            se = cr.run_client(cfg, seed, seq, tcp)
            bad = judge_reuse_client(cfg, seq, se)
        else:
            se = cr.run_server(cfg, seed, seq, tcp)
            bad = judge_reuse_server(cfg, seq, se)
        kinds = sorted(set(seq))
        tag = "reuse:%s:%s:%s" % (side, _tname(cfgd, tcp), kinds[0] if len(kinds) == 1 else "mixed")
        summary = [[r.get("ending", r.get("round")), r.get("connected"), r.get("ended")] for r in se.sessions]
        return idx, "reuse-" + side, cfgd, seed, {"side": side, "sequence": list(seq), "tcp": tcp}, bad, summary, len(se.sessions), tag, None
    except Exception:
        return idx, "reuse-" + side, cfgd, seed, {"side": side, "sequence": list(seq), "tcp": tcp}, [], None, None, None, traceback.format_exc()


# ------------------------------------------------------------------------------------------------------------ job lists

def closing_jobs(ctx):
    quick = ctx.tier == "quick"
    rng = ctx.rng
    base = dict(fragment_size=16, resend_timeout=0.5, ping_timeout=1.0, transport="lite", version=1)
    jobs, n = [], 0
    for closer in ("disconnect", "leave", "rmc", "server"):
        for lim in range(4):
            for creds in ((bool((lim + len(closer)) % 2),) if quick else (False, True)):
                for tcp in ((rng.random() < 0.5,) if quick else (False, True)):
                    cfgd = dict(base, resend_limit=lim, credentials=creds)
                    jobs.append((n, cfgd, 1, closer, None, tcp)); n += 1
                    jobs.append((n, cfgd, 1, closer, dict(ext_close=True), tcp)); n += 1
                    for drop in (None, 0, 1):
                        ref = cc.run(ps.Cfg(**cfgd), 1, closer, None if drop is None else dict(drop=drop), tcp)
                        if drop is not None:
                            jobs.append((n, cfgd, 1, closer, dict(drop=drop), tcp)); n += 1
                        for side in ("c", "s", "both"):
                            N = max(ref.writes["c"], ref.writes["s"]) if side == "both" else ref.writes[side]
                            # every write index of the closing phase of that side (N: one beyond the last write of the run without a failing write)
                            for at in range(0, N + 1):
                                for notify in (False, True):
                                    spec = dict(side=side, at=at, notify=notify)
                                    if drop is not None:
                                        spec["drop"] = drop
                                    jobs.append((n, cfgd, 1, closer, spec, tcp)); n += 1
    return jobs


def reuse_jobs(ctx):
    quick = ctx.tier == "quick"
    rng = ctx.rng
    base = dict(fragment_size=16, resend_timeout=0.5, ping_timeout=1.0, credentials=False)
    transports = [(dict(base, transport="udp", version=1), False, 16), (dict(base, transport="udp", version=0), False, 16),
                  (dict(base, transport="lite", version=1), False, 32), (dict(base, transport="lite", version=1), True, 32)]
    jobs, n = [], 0
    abnormal = ("unserved", "syn-lost", "connect-lost", "silent", "kicked", "raise", "cancel")
    srv = ("raise-connected", "raise-busy", "raise-idle", "cancel-connected")
    for ti, (cfgd0, tcp, nports) in enumerate(transports):
        k = 0
        # far more abnormal endings of ONE kind than the transport has local ports (16 on UDP, 32 on streams) ...
        for kind in abnormal:
            lims = (k % 4,) if quick else range(4)
            for lim in lims:
                length = rng.randint(max(20, nports + 2), 40)
                jobs.append((n, dict(cfgd0, resend_limit=lim), 1, "client", [kind] * length, tcp)); n += 1
            k += 1
        # ... and mixed histories (20..40 sessions, a few normal ones in between)
        for m in range(2 if quick else 8):
            length = rng.randint(max(20, nports + 2), 40)
            seq = [rng.choice(abnormal + ("normal",)) for _ in range(length)]
            jobs.append((n, dict(cfgd0, resend_limit=rng.randrange(4)), 1, "client", seq, tcp)); n += 1
        for kind in srv:
            lims = (k % 4,) if quick else range(4)
            for lim in lims:
                jobs.append((n, dict(cfgd0, resend_limit=lim), 1, "server", [kind] * rng.randint(20, 24), tcp)); n += 1
            k += 1
        for m in range(1 if quick else 4):
            seq = [rng.choice(srv + ("normal",)) for _ in range(rng.randint(20, 30))]
            jobs.append((n, dict(cfgd0, resend_limit=rng.randrange(4)), 1, "server", seq, tcp)); n += 1
    return jobs


def run_families(ctx, pool):
    import itertools
    cj, rj = closing_jobs(ctx), reuse_jobs(ctx)
    counts = {"closing": 0, "reuse-client": 0, "reuse-server": 0}
    nsess = 0
    for idx, fam, cfgd, seed, spec, bad, ops, extra, tag, err in itertools.chain(pool.imap_unordered(work_closing, cj, chunksize=8), pool.imap_unordered(work_reuse, rj, chunksize=1)):
        if err:
            ctx.corr_break("c02-session-harness", "session crashed in the harness", {"traceback": err, "family": fam, "cfg": cfgd, "spec": spec})
            continue
        counts[fam] += 1
        if fam != "closing":
            nsess += extra or 0
        seen = set()
        for key, what in bad:
            if (key, fam) in seen and fam != "closing":
                continue            # one report per kind of failure of a long sequence
            seen.add((key, fam))
            ctx.violation("c02:%s:%s:%s" % (fam, key, _tname(cfgd, spec.get("tcp"))), what, {"family": fam, "cfg": cfgd, "spec": spec, "seed": seed, "ops": ops, "how": HOW})
        ctx.case(key=(fam, str(sorted(cfgd.items())), str(spec)), nontrivial=True, tag=tag,
                 sample={"family": fam, "cfg": cfgd, "spec": spec, "ops": (ops or [])[:14], "writes_in_closing_phase": extra if fam == "closing" else None} if idx % 173 == 0 else None)
    # the port table of a transport: model vs the real `PRUDPPortTable` (generated obligations, harness/c02_ports_tie.py)
    import c02_ports_tie
    failed = c02_ports_tie.run(ctx)
    ctx.extra["c02_ports_tie_failed"] = len(failed)
    if failed and not ctx.violations:
        ctx.corr_break("c02-port-table", "the real PRUDPPortTable and the model (NxModel/Prudp/C02Ports.lean) disagree on %d sequences of bind blocks" % len(failed),
                       dict(failed[0], theorems_no_longer_tied=["Nx.C02.transport_reuse", "Nx.C02.transport_reuse_fresh", "Nx.C02.serve_again"]))
    ctx.extra["c02_closing_sessions"] = counts["closing"]
    ctx.extra["c02_reuse_sequences"] = {"client": counts["reuse-client"], "server": counts["reuse-server"], "connections_in_them": nsess}
