import NxProofs.Gating
import NxModel.Prudp.L1Crypto
import NxProofs.MacInjective
import NxProofs.CryptoAgree
import NxProofs.Sys
/-!
# C04 — only correctly signed packets can affect a PRUDP connection

Model: L1 endpoint. `Conn.expectedSig env c p` is the signature `PRUDPClient.handle` demands of `p` (by type:
SYN — no keys; CONNECT — the connection signature of the peer's address; anything else — session key and
connection signature). The gate theorems hold for **every** `Env`, i.e. for any signature function: they are
about the order of checks and the absence of side effects before them. That nobody without the keys can produce
the expected value is HMAC-MD5's job (assumption, stated in the manifest), never a Lean hypothesis.
`R.inert r c` : the step returned the connection `c` unchanged and produced no output (nothing emitted, nothing
delivered, no EOF, no timer touched — timers are part of `c`).
-/
namespace Nx.C04
open Nx Nx.Prudp Nx.L1

/-- **v1/v0/lite gate.** Any packet whose signature differs from the expected one — a bit-flipped genuine packet,
    a packet forged with other keys, of any type and flags incl. ACK and MULTI_ACK — is inert. -/
theorem signature_gate (env : Env) (now : Time) (c : Conn) (p : Packet)
    (h : p.signature ≠ c.expectedSig env p) : (c.handle env now p).inert c :=
  handle_bad_signature env now c p h

/-- contrapositive: whatever changes a connection or makes it emit or deliver carried the expected signature -/
theorem effect_implies_signed (env : Env) (now : Time) (c : Conn) (p : Packet)
    (h : ¬ (c.handle env now p).inert c) : p.signature = c.expectedSig env p := by
  by_cases hs : p.signature = c.expectedSig env p
  · exact hs
  · exact absurd (handle_bad_signature env now c p hs) h

/-- a correctly signed packet with a wrong session id or an out-of-range substream is inert as well -/
theorem session_substream_gate (env : Env) (now : Time) (c : Conn) (p : Packet)
    (ht : p.type ≠ TYPE_SYN ∧ p.type ≠ TYPE_CONNECT) (hm : hasMultiAck p.flags = false)
    (h : p.substreamId > c.maxSub ∨ some p.sessionId ≠ c.remoteSessionId) : (c.handle env now p).inert c :=
  handle_wrong_session_or_substream env now c p ht hm h

/-- a closed connection ignores everything -/
theorem closed_ignores (env : Env) (now : Time) (c : Conn) (p : Packet) (h : c.state = STATE_DISCONNECTED) :
    (c.handle env now p).inert c ∧ (c.handle env now p).err = none :=
  handle_disconnected env now c p h

/-- **handshake gate, server side.** A SYN or CONNECT with a wrong signature establishes nothing: the server's
    tables are unchanged and nothing is answered. -/
theorem handshake_gate_syn (env : Env) (s : ServerStream) (p : Packet) (addr : Addr)
    (h : p.signature ≠ env.packetSig (select env.cfg.sel p.version) p [] []) :
    (s.processSyn env p addr).s = s ∧ (s.processSyn env p addr).outs = [] :=
  server_syn_bad_signature env s p addr h

theorem handshake_gate_connect (env : Env) (now : Time) (rnd : Rnd) (up : Bool) (s : ServerStream) (p : Packet) (addr : Addr)
    (h : p.signature ≠ env.packetSig (select env.cfg.sel p.version) p [] (env.connSig (select env.cfg.sel p.version) addr)) :
    (s.processConnect env now rnd up p addr).s = s ∧ (s.processConnect env now rnd up p addr).outs = [] :=
  server_connect_bad_signature env now rnd up s p addr h

/-- **handshake gate, client side.** A SYN/ACK or CONNECT/ACK with a wrong signature completes nothing. -/
theorem handshake_gate_client (env : Env) (now : Time) (c : Conn) (p : Packet)
    (ht : p.type = TYPE_SYN ∨ p.type = TYPE_CONNECT) (h : p.signature ≠ c.expectedSig env p) :
    (c.handle env now p).c.state = c.state ∧ (c.handle env now p).c.handshakeEvent = c.handshakeEvent := by
  have := handle_bad_signature env now c p h
  rw [this.1]; exact ⟨rfl, rfl⟩

/-- traffic that names no known connection (spoofed port, unknown peer) creates and changes nothing -/
theorem unknown_peer_inert (env : Env) (now : Time) (rnd : Rnd) (up : Bool) (s : ServerStream) (p : Packet) (addr : Addr)
    (h1 : ¬ (p.type = TYPE_SYN ∧ (!hasAck p.flags) = true)) (h2 : ¬ (p.type = TYPE_CONNECT ∧ (!hasAck p.flags) = true))
    (h : clientLookup (addr, p.sourcePort, p.sourceType) s.clients = none) :
    (s.handle env now rnd up p addr).s = s ∧ (s.handle env now rnd up p addr).outs = [] ∧ (s.handle env now rnd up p addr).err = none :=
  server_unknown_peer env now rnd up s p addr h1 h2 h

/-! ### what the expected signature covers (the concrete signature functions of `L1Crypto`) -/

/-- v0: the signature of a DATA packet is the truncated HMAC over session key, sequence id, fragment id and payload
    (signature version 0) resp. over the payload (signature version 1) — v0's signature protects data only -/
theorem v0_data_signature_def (v0 : V0Cfg) (p : Packet) (sk cs : Bytes) (h : p.type = TYPE_DATA) :
    packetSigFn v0 .v0 p sk cs = some (v0DataSig v0 p sk) := by
  simp [packetSigFn, v0PacketSig, h]

/-- v1: the MAC input is header[4:] ‖ session key ‖ key sum ‖ connection signature ‖ options ‖ payload -/
theorem v1_signature_def (v0 : V0Cfg) (p : Packet) (sk cs : Bytes) :
    packetSigFn v0 .v1 p sk cs = some (Crypto.hmacMd5 (Crypto.md5 v0.accessKey)
      ((v1EncodeHeader p (v1EncodeOptions p).length).drop 4 ++ sk ++ u32le (L1.sumBytes v0.accessKey) ++ cs ++ v1EncodeOptions p ++ p.payload)) := rfl

/-- **v1: the MAC covers everything the receiver acts on.** The MAC input leaves out the two length fields of the header
    and joins options and payload without a separator; it is injective on decodable packets all the same (the type is
    covered and fixes the length of the option block). Two well-formed packets with the same MAC input under the same
    keys are the same packet up to the signature field — so, HMAC-MD5 being a MAC (assumption), an accepted v1 packet
    agrees with a genuinely signed one on every field: ports, types, flags, session id, substream id, sequence id,
    fragment id, negotiation options, connection signature and payload. -/
theorem v1_mac_covers_everything (accessKey : Bytes) (p q : Packet) (K C : Bytes) (hp : V1WF p) (hq : V1WF q)
    (h : v1MacInput accessKey p K C = v1MacInput accessKey q K C) : { p with signature := q.signature } = q :=
  v1MacInput_injective accessKey p q K C hp hq h

/-- the signature the L1 endpoint demands of a v1 packet is HMAC-MD5 of exactly that input -/
theorem v1_expected_signature_is_mac (v0 : V0Cfg) (p : Packet) (sk cs : Bytes) :
    packetSigFn v0 .v1 p sk cs = some (Crypto.hmacMd5 (Crypto.md5 v0.accessKey) (v1MacInput v0.accessKey p sk cs)) := by
  rw [v1_signature_def]
  simp [v1MacInput, sumBytes_agree]

/-! non-vacuity of `v1_mac_covers_everything`: two distinct well-formed DATA packets (they differ in the fragment id only);
    their MAC inputs differ, as the theorem demands -/
example :
    let p : Packet := { type := 2, flags := 2, version := some 1, sourceType := 10, sourcePort := 15, destType := 10, destPort := 1,
                        sessionId := 7, packetId := 5, fragmentId := 1, signature := some (List.replicate 16 0), payload := [1, 2, 3] }
    let q : Packet := { p with fragmentId := 2 }
    V1WF p ∧ V1WF q ∧ v1MacInput [0x61] p [] [] ≠ v1MacInput [0x61] q [] [] := by decide

/-! non-vacuity: an environment, a state and two packets (one failing, one passing) for which the hypotheses are meaningful -/
def toyEnv : Env :=
  { s := {}, cfg := {}, packetSig := fun _ p _ _ => some [b8 p.packetId], connSig := fun _ _ => [7],
    kerbEncrypt := fun _ d => d, loginRequest := fun _ _ _ => .error .value, compress := id, decompress := fun b => .ok b }

example :
    let c := Conn.new toyEnv (some 1) 1 2 3 ("10.0.0.2", 1) 15 10 ("10.0.0.1", 2) 1 10
    let bad : Packet := { type := TYPE_PING, flags := 6, packetId := 5, signature := some [9] }
    let good : Packet := { type := TYPE_PING, flags := 6, packetId := 5, signature := some [5] }
    bad.signature ≠ c.expectedSig toyEnv bad ∧ good.signature = c.expectedSig toyEnv good := by decide

/-! ## the same, for whole sessions: forged packets can be deleted from any history without changing anything -/

def isInject : SysOp → Bool
  | .inject _ _ => true
  | _ => false

theorem inject_step_id (env : Env) (sub : Nat) (s : Sys) (now : Time) (p : Packet)
    (hok : s.opOk env sub (.inject now p) = true) : s.step env sub (.inject now p) = s := by
  simp only [Sys.opOk, decide_eq_true_eq] at hok
  have := (handle_bad_signature env now s.b p hok).1
  simp only [Sys.step, this]

/-- **Non-interference over whole sessions.** Take any history of the two-endpoint system (sends fragment by fragment,
    pings, disconnect, deliveries in any order and multiplicity through the whole receive path, acknowledgements, timers,
    traffic of the other direction and other substreams) interleaved with arbitrarily many packets — of any type, flags, ids
    and payload — whose signature is not the one the receiver expects at that moment. The final state of BOTH endpoints, the
    network log, what was accepted and what was delivered are exactly those of the history with the forged packets deleted;
    and the step hypotheses of the genuine steps are not affected by the deletion either. -/
theorem forged_packets_can_be_deleted (env : Env) (sub : Nat) : ∀ (ops : List SysOp) (s : Sys), Sys.runOk env sub s ops = true →
    Sys.run env sub s ops = Sys.run env sub s (ops.filter (fun o => !isInject o)) ∧
    Sys.runOk env sub s (ops.filter (fun o => !isInject o)) = true := by
  intro ops
  induction ops with
  | nil => intro s _; exact ⟨rfl, rfl⟩
  | cons op ops ih =>
    intro s hok
    simp only [Sys.runOk, Bool.and_eq_true] at hok
    cases hi : isInject op with
    | true =>
      cases op with
      | inject now p =>
        have hid := inject_step_id env sub s now p hok.1
        have h2 := hok.2
        rw [hid] at h2
        have := ih s h2
        simp only [List.filter_cons, hi, Bool.not_true, Bool.false_eq_true, if_false]
        refine ⟨?_, this.2⟩
        show Sys.run env sub (s.step env sub (.inject now p)) ops = _
        rw [hid]; exact this.1
      | _ => cases hi
    | false =>
      have := ih (s.step env sub op) hok.2
      simp only [List.filter_cons, hi, Bool.not_false, if_true]
      refine ⟨?_, ?_⟩
      · show Sys.run env sub (s.step env sub op) ops = Sys.run env sub (s.step env sub op) _
        exact this.1
      · simp only [Sys.runOk, hok.1, Bool.true_and]
        exact this.2

end Nx.C04
