"""C14 value generation on top of schema_values.Gen: a mode in which EVERY string-valued position (string arguments and
results, structure fields, list / map elements and keys, station URLs, variant strings, strings inside anydata) holds
non-ASCII content — 2-, 3- and 4-byte UTF-8 sequences (astral characters included), at the start / end / alone, and
strings whose byte length crosses a boundary (255/256) that their character count does not.

A third mode (`edge`) puts a string from the EDGES of the value domain into every string-valued position: strings ending
in one or more U+0000, consisting only of U+0000, with U+0000 at the start / in the middle, with leading / trailing white
space (ASCII and Unicode) and other control characters, a byte-order mark, lone characters at the borders of the BMP and
of the surrogate gap (U+D7FF, U+E000, U+FFFD..U+FFFF), text that Unicode normalisation / case folding would change, the
empty string next to None, and (every LONG_EVERY-th string position) strings whose encoded length sits at a border of the
16-bit length prefix: 254..256, 32766..32768 (sign bit of the prefix) and 65533 / 65534 bytes (the longest encodable
string: the prefix counts the terminator). Map keys that differ ONLY in such a tail (k, k+NUL, k+NUL+NUL, k+space) are
generated together: they must stay distinct keys. Station URLs get such text in parameter values and scheme.

A second mode (`big`) makes buffers, strings and top-level lists large enough that the RMC message carrying them is split
into several PRUDP fragments (fragment size 1300 by default, 962 in the 3ds / friends profiles)."""
import schema_values as SV
from schema_proto2lean import BASIC

# code points at the edges of the UTF-8 length classes, plus common real-world text
NA_BOUND = [
    "\u00e9", "Caf\u00e9", "\u00e9t\u00e9", "\u00f1and\u00fa \u00fc\u00df",                      # 2-byte
    "\u0080", "\u07ff", "\u0800", "\uffff", "\U00010000", "\U0010ffff",                  # UTF-8 length class boundaries
    "\u65e5\u672c\u8a9e", "Mii\u2605Maker", "\u30de\u30ea\u30aa", "\uff2e\uff49\uff4e",            # 3-byte
    "\U0001f600", "a\U0001f600", "\U0001f600a", "\U0001d11e\U0001f3b5",                   # 4-byte (astral)
    "x\U0001f468\u200d\U0001f469\u200d\U0001f467y", "e\u0301", "\u00a0",                   # ZWJ sequence, combining mark, NBSP
    "\u0395\u03bb\u03bb\u03b7\u03bd\u03b9\u03ba\u03ac", "\u05e9\u05dc\u05d5\u05dd", "\u0645\u0631\u062d\u0628\u0627",
    "\u3042" * 100, "\u00e9" * 200, "a" * 253 + "\u00e9", "\u00e9" + "a" * 253, "\U0001f3ae" * 70,  # byte length crosses 255/256
]
NA_ALPHABET = "ab Z09_-" + "äéøßł" + "中日マ★€ह" + "\U0001f600\U0001d11e\U00020000"
NA_CHARS = [c for c in NA_ALPHABET if ord(c) > 127]

# str(StationURL.parse(u)) == u for all of these (no ":/" "=" ";" inside keys / values)
NA_URLS = [
    "prudp:/address=例え.jp;port=60000;sid=1",
    "prudps:/address=192.168.1.20;port=443;Uri=/café/★;Rsa=\U0001f600",
    "udp:/Ra=é;PID=1234;CID=7",
    "prudp:/address=\U0001d11e\U0001f3b5.example;port=1;stream=10;type=2;Ntrpa=ñ",
    "prudp:/キー=値",
    "ürl:/address=a;port=2",
]


# ---- edges of the string domain (every entry is encodable: no lone surrogates)
EDGE_NUL = ["\0", "\0\0", "\0" * 8,                                                             # only U+0000
            "a\0", "name\0", "Nintendo\0\0", "trailing\0\0\0", "\u00e9\0", "\U0001f600\0", "x \0", "\0 \0",   # ending in U+0000
            "\0a", "\0leading", "a\0b", "mid\0\0dle", "\0a\0", "a\0b\0", "\0\0a"]                      # at the start / in the middle
EDGE_WS = [" ", "  ", "a ", "a  ", " a", " a ", "a\t", "a\n", "a\r", "a\r\n", "line one\nline two\n", "\n", "\t", "\r\n",
           "a\x0b", "a\x0c", "a\x1c", "a\x1f", "a\x85", "a\u00a0", "a\u1680", "a\u2003", "a\u2028", "a\u2029", "a\u3000",
           "\u3000a", "a\u200b", "a\u200e", "\ufeff", "\ufeffa", "a\ufeff"]                                        # white space (str.strip's idea of it and more), zero width, BOM
EDGE_CTRL = ["\x01", "\x7f", "a\x7f", "a\x08", "\x1b[0m", "a\x00\x01", "\x80", "a\x9f", "\x1a", "a\\", "a\"", "a'", "%s", "a%", "\\0", "a\\x00"]
EDGE_BMP = ["\uffff", "\ud7ff", "\ue000", "\ufffe", "\ufffd", "\uffff\0", "a\uffff", "\uffffa", "\ud7ff\ue000", "\ue000\0", "\ufffd\ufffd",
            "\uffff\U00010000", "\U0010ffff\0", "\ud7ff "]
EDGE_NORM = ["\u212b", "\ufb01", "e\u0301", "\u00df", "\u0130", "\u1e9e", "\u03c2", "\uff21", "\u2126", "\u00c5"]   # NFC / NFKC / case folding would change these
EDGE_STR = EDGE_NUL * 3 + EDGE_WS + EDGE_CTRL + EDGE_BMP * 2 + EDGE_NORM + [""]
EDGE_TAILS = ["\0", "\0\0", "\0\0\0", " ", "  ", "\t", "\n", "\r\n", "\x0b", "\x1f", "\x7f", "\u00a0", "\u3000", "\u2028", "\ufeff", "\uffff", "\ud7ff", "\ue000", " \0", "\0 "]
MAX_STR_BYTES = 65534            # u16 length prefix counts the terminator
LONG_BYTES = [254, 255, 256, 32766, 32767, 32768, 65533, MAX_STR_BYTES]
LONG_EVERY = 48

# str(StationURL.parse(u)) == u for all of these
EDGE_URLS = [
    "prudp:/address=a\0", "prudp:/address=192.168.1.20;port=60000;Uri=\0", "prudp:/Uri=\0\0", "prudp:/address=a\0b;sid=1",
    "prudp:/address=example.com ;port=1", "prudp:/Uri=/path\n", "prudp:/Rsa=\t", "udp:/Ra=\uffff;PID=1", "prudps:/Ntrpa=\ud7ff\ue000",
    "\0:/address=a", "prudp\0:/", " :/address= ", "prudp:/address=a;Uri= \0", "prudp:/\0=\0", "prudp:/k\0=v\0\0", "prudp:/address=\ufeff",
    "prudp:/Uri=\x7f;Rsa=\x01\0",
]


# sizes around the shipped fragment sizes (962, 1300) and multiples of them, and well beyond
BIG_SIZES = [900, 961, 962, 963, 1299, 1300, 1301, 1924, 2600, 3000, 3900, 5200, 9000]


def is_edge(s):
    """does the string lie in one of the edge classes (ends / starts in or contains U+0000, white space or a control character at
    either end, a BMP / surrogate-gap border character, a length at a border of the 16-bit prefix)?"""
    if s == "": return True
    n = len(s.encode("utf8"))
    return ("\0" in s or s[0].isspace() or s[-1].isspace() or ord(s[0]) < 32 or ord(s[-1]) < 32 or any(c in s for c in "\uffff\ufffe\ufffd\ud7ff\ue000\ufeff\x7f")
            or n in LONG_BYTES)


def edge_class(s):
    """coarse class for the evidence tags"""
    n = len(s.encode("utf8"))
    if n >= 254 and n in LONG_BYTES: return "longest" if n == MAX_STR_BYTES else "length-border"
    if s and not s.strip("\0"): return "only-nul"
    if s.endswith("\0"): return "ends-in-nul"
    if "\0" in s: return "nul-inside"
    if s and (s[-1].isspace() or s[0].isspace()): return "white-space-at-an-end"
    if any(c in s for c in "\uffff\ufffe\ufffd\ud7ff\ue000"): return "bmp-border"
    if s == "": return "empty"
    return "other-edge"


def is_non_ascii(s):
    return any(ord(c) > 127 for c in s)


class Gen14(SV.Gen):
    def __init__(self, env, rng):
        super().__init__(env, rng)
        self.nonascii = False
        self.edge = False
        self.edge_i = 0              # string positions filled in edge mode so far (every LONG_EVERY-th one gets a length-border string)
        self.edge_long_cap = MAX_STR_BYTES   # sessions over the PRUDP leg lower this: a message must fit 255 fragments of the smallest fragment size
        self.edge_long_left = None   # None: no limit; otherwise how many length-border strings may still go into the current message
        self.big = False
        self.big_left = 0            # bytes of large content still to hand out in this value set
        self._stringy = {}

    # ---- does a type contain a string-valued position?
    def stringy(self, t, seen=()):
        n = t["name"]
        if n in ("string", "stationurl", "variant", "anydata"): return True
        if n in ("list", "map"): return any(self.stringy(x, seen) for x in t["template"])
        if n in BASIC: return False
        if n in self._stringy: return self._stringy[n]
        if n in seen: return False
        try:
            r = any(self.stringy(v["type"], seen + (n,)) for v, _ in self.fields(n))
        except KeyError:
            r = False
        if not seen: self._stringy[n] = r
        return r

    def method_stringy(self, m):
        return any(self.stringy(v["type"]) for v in m["request"] + m["response"])

    # ---- generation
    def string(self):
        if not self.nonascii: return super().string()
        r = self.rng
        if r.random() < 0.55: return r.choice(NA_BOUND)
        k = r.randint(1, 24)
        s = [r.choice(NA_ALPHABET) for _ in range(k)]
        s[r.choice([0, k - 1, r.randrange(k)])] = r.choice(NA_CHARS)      # at least one multi-byte character
        return "".join(s)

    def long_string(self):
        """encoded length exactly at a border of the 16-bit length prefix"""
        r = self.rng
        n = r.choice([x for x in LONG_BYTES if x <= self.edge_long_cap])
        k = r.randrange(6)
        if k == 0: return "a" * n
        if k == 1: return "a" * (n - 1) + "\0"                                  # the longest string, ending in U+0000
        if k == 2: return "\0" * n
        if k == 3: return "\u00e9" * (n // 2) + "a" * (n % 2)                     # character count is half the byte count
        if k == 4: return "a" * (n % 3) + "\uffff" * (n // 3)
        return "".join(r.choice("abcdefghij KLMNOP0123456789_-") for _ in range(n - 2)) + r.choice(["\0\0", " \0", "\0 ", "\n\0"])

    def edge_string(self):
        r = self.rng
        self.edge_i += 1
        if self.edge_i % LONG_EVERY == 7 and (self.edge_long_left is None or self.edge_long_left > 0):
            if self.edge_long_left is not None: self.edge_long_left -= 1
            return self.long_string()
        x = r.random()
        if x < 0.6: return r.choice(EDGE_STR)
        base = "".join(r.choice(NA_ALPHABET if x < 0.75 else "abcXYZ019 _-") for _ in range(r.randint(0, 12)))
        t = "".join(r.choice(EDGE_TAILS) for _ in range(r.choice([1, 1, 2, 3])))
        k = r.randrange(4)
        if k == 0: return t + base
        if k == 1 and base:
            i = r.randrange(len(base) + 1)
            return base[:i] + t + base[i:]
        if k == 2: return t + base + r.choice(EDGE_TAILS)
        return base + t

    def edge_keys(self, k):
        """k distinct strings that differ only in their tail"""
        r = self.rng
        stem = r.choice(["", "k", "key", "\u00e9", "Nintendo"])
        tails = ["", "\0", "\0\0", " ", "\n", "\uffff"]
        r.shuffle(tails)
        return [stem + t for t in tails[:k]]

    def start_big(self, budget=14000):
        self.big, self.big_left = True, budget

    def gen(self, t, cfg, depth=0, required=False):
        if self.big and self.big_left > 0:
            n = t["name"]; r = self.rng
            if n in ("buffer", "qbuffer"):
                k = r.choice(BIG_SIZES); self.big_left -= k
                return ("bytes", r.randbytes(k))
            if n == "string" and r.random() < 0.7:
                k = r.choice([1000, 1400, 2700]); self.big_left -= 2 * k
                return ("str", "".join(r.choice(NA_ALPHABET if self.nonascii else "abcdefghij KLMNOP0123456789_-") for _ in range(k)))
            if n == "list" and depth == 0 and r.random() < 0.8:
                k = r.randint(24, 60); self.big_left -= 1500
                return ("list", [self.gen(t["template"][0], cfg, depth + 1, True) for _ in range(k)])
        if self.edge:
            n = t["name"]; r = self.rng
            if n == "string":
                if not required and r.random() < 0.06: return ("none",)
                return ("str", self.edge_string())
            if n == "stationurl": return ("url", r.choice(EDGE_URLS))
            if n == "variant" and r.random() < 0.6: return ("str", self.edge_string())
            if n == "map" and t["template"][0]["name"] == "string" and r.random() < 0.7:
                keys = self.edge_keys(r.choice([2, 3, 4]))
                return ("map", [(("str", k), self.gen(t["template"][1], cfg, depth + 1, True)) for k in keys])
        if self.nonascii:
            n = t["name"]
            if n == "string": return ("str", self.string())
            if n == "stationurl": return ("url", self.rng.choice(NA_URLS))
            if n == "variant" and self.rng.random() < 0.6: return ("str", self.string())
        return super().gen(t, cfg, depth, required)
