"""C19 — BOUNDARY values of every counter / nonce / length / index the routines of the property take from their input.

The generators of corr_C19 draw key material, counter blocks, ids and lengths uniformly at random. A routine
that does positional arithmetic on such a value (the 128-bit big-endian AES-CTR counter block stored in front of
the wrapped TLS key, the `%02x` / `%016x` fields of the dauth key name and form, the 64-byte HMAC block, the
16-byte CMAC block, the 3-byte base64 group, the u32 certificate length, the 16 hex digits of the device id,
`pid % 1024`, `struct.pack("<I", pid)`) can be right on every value a uniform draw ever produces and wrong
exactly where a carry, a padding rule or a width limit takes effect: a uniformly random 128-bit counter block
crosses its 64-bit carry within the 16 blocks of the private exponent with probability 2^-60.

Here every such value is put AT and AROUND every boundary of its positional representation:
  * counter blocks: for every k in 8, 16, 24, ..., 128 (and odd bit widths) the low k bits all ones, or j short
    of all ones for every j the 16 (+1) increments of the unwrap can cross, with the bits above zero / random /
    all ones; all zero; all ones; single bits,
  * lengths at, one below and one above every block / group / width limit,
  * ids at 0, 1, 2^k - 1, 2^k.
Oracles: (a) the real routine against the Lean reference implementation on the same input (`reference=True`
lines: a difference IS the failing input), (b) the inverse pair on the real code (the private exponent wrapped by
the textbook SP 800-38A counter mode — block i is E_K((c0 + i) mod 2^128) — is what `get_tls_key` returns).
Nothing here re-implements the library: the wrapping below is the DEFINITION of AES-CTR with a 128-bit
big-endian incrementing function on top of the raw block cipher; it does not use any library's counter logic.
"""
import base64, hashlib, struct
import aux_c19_real as R
from aux_c19_real import hx, cps

ALPH = "ABCDEFGHIJKLMNOPQRSTUVWXYZabcdefghijklmnopqrstuvwxyz0123456789"


# =============================================================================================== generators
def carry_values(rng, total_bits, blocks, quick):
    """(label, value) for a `total_bits`-wide big-endian counter of which `blocks` consecutive values are used
    (`blocks - 1` increments): every boundary a carry can cross, and the values just outside (negative controls)"""
    out = []
    full = (1 << total_bits) - 1
    def uppers(k):
        rest = total_bits - k
        if rest == 0: return [("", 0)]
        r = rng.randrange(1 << rest) & ~1                      # bit k clear: the carry stops right above the boundary
        return [("bits above random", r), ("bits above zero", 0), ("bits above all ones", (1 << rest) - 1)]
    widths = list(range(8, total_bits + 1, 8))
    odd = [1, 4, 7, 9, 15, 31, 33, 63, 65, 95, 97, 127]
    widths += [w for w in (odd if not quick else rng.sample(odd, 3)) if w < total_bits]
    for k in widths:
        # low k bits = 2^k - 1 - j: value number j + 1 is the first with a carry out of bit k - 1 (if it is used at all)
        js = list(range(0, blocks + 1)) if not quick else sorted({0, blocks - 2, blocks - 1, rng.randint(1, blocks - 3), rng.randint(1, blocks - 3)})
        ups = uppers(k)
        for n, j in enumerate(js):
            if j >= (1 << k): continue
            low = (1 << k) - 1 - j
            for ul, u in (ups if not quick else [ups[(n + k // 8) % len(ups)]]):
                where = "no carry within %d blocks" % blocks if j > blocks - 2 else "carry out of bit %d at block %d" % (k - 1, j + 1)
                out.append(("low %d bits = 2^%d-1-%d (%s)%s" % (k, k, j, where, ", " + ul if ul else ""), (u << k) | low))
    out.append(("all zero", 0))
    out.append(("all ones (wraps to zero at block 1)", full))
    out.append(("top bit only", 1 << (total_bits - 1)))
    out.append(("all but the top bit", full >> 1))
    for b in ([rng.randrange(total_bits) for _ in range(2)] if quick else range(0, total_bits, 8)):
        out.append(("single bit %d" % b, 1 << b))
    seen, uniq = set(), []
    for l, v in out:
        if v not in seen:
            seen.add(v); uniq.append((l, v))
    return uniq


def ctr_textbook(key, iv, data):
    """AES-CTR by definition (SP 800-38A, 128-bit big-endian incrementing function) on the raw block cipher"""
    from Crypto.Cipher import AES
    ecb = AES.new(key, AES.MODE_ECB)
    c0 = int.from_bytes(iv, "big")
    ks = b"".join(ecb.encrypt(((c0 + i) % (1 << 128)).to_bytes(16, "big")) for i in range((len(data) + 15) // 16))
    return bytes(a ^ b for a, b in zip(data, ks))


def lens_around(limits, lo=0):
    s = set()
    for L in limits:
        for d in (-1, 0, 1):
            if L + d >= lo: s.add(L + d)
    return sorted(s)


def innermost_in_library(e, suffix):
    """True iff the exception was raised by a statement of the library module `suffix` itself (one of ITS checks
    refused the input), False if it came from deeper (a parser the module hands accepted data to)"""
    tb = e.__traceback__
    while tb.tb_next is not None: tb = tb.tb_next
    return tb.tb_frame.f_code.co_filename.replace("\\", "/").endswith(suffix)


# =============================================================================================== prodinfo
class ProdKit:
    """well-formed calibration images around ONE test key / certificate"""
    def __init__(self, rng, tkey, der_cert):
        from anynet import tls
        from Crypto.PublicKey import RSA
        from nintendo import switch as nswitch
        self.rng, self.tls, self.nswitch, self.RSA = rng, tls, nswitch, RSA
        self.tkey, self.der_cert = tkey, der_cert
        self.rsa = RSA.import_key(tkey.encode(tls.TYPE_DER))
        self.dbytes = self.rsa.d.to_bytes(0x100, "big")

    def put_crc(self, blob, off, size):
        struct.pack_into("<H", blob, off + size - 2, self.nswitch.crc16(bytes(blob[off:off + size - 2])))

    def base(self, devid_text=None):
        rng = self.rng
        blob = bytearray(rng.randbytes(0x3C40))
        if devid_text is None: devid_text = ("%016x" % rng.randrange(1 << 64)).encode()
        blob[0x2B56:0x2B66] = devid_text
        self.put_crc(blob, 0x2A90, 0x250)
        self.put_cert(blob, len(self.der_cert))
        return blob

    def put_cert(self, blob, length, hashed=None):
        """certificate area: the test certificate, `length` in the header, SHA-256 over `hashed` (default: `length`) bytes"""
        struct.pack_into("<I", blob, 0xAD0, length); self.put_crc(blob, 0xAD0, 0x10)
        blob[0xAE0:0xAE0 + len(self.der_cert)] = self.der_cert
        n = length if hashed is None else hashed
        blob[0x12E0:0x1300] = hashlib.sha256(bytes(blob[0xAE0:0xAE0 + n])).digest()

    def put_key(self, blob, kek, initial):
        blob[0x3AE0:0x3AF0] = initial
        blob[0x3AF0:0x3BF0] = ctr_textbook(kek, initial, self.dbytes)
        self.put_crc(blob, 0x3AE0, 0x140)

    def image(self, devid, kek, initial=None, upper=False):
        blob = self.base((("%016X" if upper else "%016x") % devid).encode())
        self.put_key(blob, kek, self.rng.randbytes(16) if initial is None else initial)
        return bytes(blob)

    def tls_d(self, P):
        try:
            return "ok %d" % self.RSA.import_key(P.get_tls_key().encode(self.tls.TYPE_DER)).d
        except Exception as e:
            return "err " + R.exc_name(e)


def prod_bounds(ctx, rng, C, oracle_fail, quick, kit):
    blocks = 0x100 // 16
    cvals = carry_values(rng, 128, blocks, quick)
    ctx.extra["counter_block_boundaries"] = len(cvals)
    base = kit.base()
    for n, (label, c0) in enumerate(cvals):
        initial = c0.to_bytes(16, "big")
        kek = rng.randbytes(16) if n % 7 else rng.randbytes(rng.choice([24, 32]))
        kname = "ssl_rsa_kek_personalized" if n % 3 == 0 else "ssl_rsa_kek"
        keys = {kname: kek}
        if kname.endswith("personalized") and n % 2: keys["ssl_rsa_kek"] = rng.randbytes(16)      # decoy: the personalized one wins
        blob = bytearray(base)
        kit.put_key(blob, kek, initial)
        blob = bytes(blob)
        real = kit.tls_d(R.Prod(blob, keys).p)
        replay = {"counter_block": initial.hex(), "boundary": label, "keys": {k: v.hex() for k, v in keys.items()},
                  "key_block_0x3AE0_0x3C20": blob[0x3AE0:0x3C20].hex(), "expected_private_exponent": kit.rsa.d,
                  "how": "calibration image whose TLS key block (offset 0x3AE0: 16-byte initial counter block, 0x100 bytes = the private exponent of the "
                         "certificate's key under AES-CTR with a 128-bit big-endian counter, 0x3C1E: crc16) starts with this counter block; "
                         "ProdInfo(keys, file).get_tls_key() must return the key with this private exponent"}
        tag = "carry" if "carry out" in label or "wraps" in label else "no-carry"
        C.add("prod-tlsd %s %s" % (hx(kek), hx(blob)), real, "prod-bound:tlsd:" + tag, replay, reference=True)
        if real != "ok %d" % kit.rsa.d:
            oracle_fail.append(("prod-tlskey-counter", "get_tls_key does not recover the wrapped private exponent when the stored initial counter block is %s (%s): %s"
                                % (initial.hex(), label, real[:60]), replay))
    # ---- the AES-CTR call the library makes (whole block = counter), as a primitive: every boundary x key size x length
    from Crypto.Cipher import AES
    lens = lens_around([0, 16, 32, 0x100, 0x110]) + [1, 15]
    for n, (label, c0) in enumerate(cvals):
        iv = c0.to_bytes(16, "big")
        k = rng.randbytes([16, 24, 32][n % 3])
        m = rng.randbytes(0x100 if n % 2 else rng.choice(lens))
        try: real = "ok " + hx(AES.new(k, AES.MODE_CTR, nonce=b"", initial_value=iv).decrypt(m))
        except Exception as e: real = "err " + R.exc_name(e)
        C.add("aes-ctr %s %s %s" % (hx(k), hx(iv), hx(m)), real, "ref:aes-ctr:bound", {"key": k.hex(), "initial_value": iv.hex(), "data": m.hex(), "boundary": label}, reference=True)

    # ---- certificate length field (u32 LE at 0xAD0, limit 0x800) at and around every limit
    n = len(kit.der_cert)
    cases = [(L, None) for L in (0, 1, n - 1, n, n + 1, 0x7FF, 0x800)]                       # accepted by the checks (hash over exactly `length` bytes)
    cases += [(L, n) for L in (0x801, 0x802, 0x1000, 0x10000 + n, 0x10000, 0x1000000 + n, 0x80000000 + n, 0xFFFFFFFF, n << 8, n << 16)]   # too big, whatever else holds
    cases += [(n, n - 1), (n - 1, n), (n + 1, n), (0x800, 0x7FF), (0, 1)]                     # length and hashed range differ by one
    for L, hashed in cases:
        blob = kit.base()
        kit.put_cert(blob, L, hashed)
        blob = bytes(blob)
        P = R.Prod(blob, {}).p
        try:
            P.get_tls_cert(); real = "ok"
        except Exception as e:
            real = "err " + R.exc_name(e) if innermost_in_library(e, "nintendo/switch/__init__.py") else "ok"     # the DER parser's opinion is not the library's
        C.add("prod-certchk " + hx(blob), real, "prod-bound:certlen:" + real.split()[0],
              {"length_field": L, "sha256_over_bytes": L if hashed is None else hashed, "certificate_bytes": n, "data": blob.hex(),
               "how": "ProdInfo.get_tls_cert(): CRC of the 0x10-byte header, length <= 0x800, SHA-256 of exactly `length` bytes; 'ok' = all three checks pass"}, reference=True)
    # ---- device id: 16 hex digits at the limits of the 64-bit range, both letter cases
    ids = [0, 1, 9, 10, 15, 16, 0xFF, 0x100, (1 << 32) - 1, 1 << 32, (1 << 63) - 1, 1 << 63, (1 << 64) - 1, 0xABCDEF0123456789, 0xA000000000000000, 0x000000000000000A]
    for i, devid in enumerate(ids if not quick else rng.sample(ids, 6) + [0, (1 << 64) - 1]):
        for upper in ((False, True) if not quick else (bool(i % 2),)):
            blob = bytes(kit.base((("%016X" if upper else "%016x") % devid).encode()))
            P = R.Prod(blob, {}).p
            try: real = "ok %d" % P.get_device_id()
            except Exception as e: real = "err " + R.exc_name(e)
            rp = {"device_id": devid, "digits": blob[0x2B56:0x2B66].decode(), "data": blob.hex()}
            C.add("prod-devid " + hx(blob), real, "prod-bound:devid", rp, reference=True)
            if real != "ok %d" % devid:
                oracle_fail.append(("prod-devid", "get_device_id returns %s for the stored id %s" % (real, rp["digits"]), rp))
    # ---- check(offset, size): empty range, range ending exactly at / one past the end of the data, offset 0
    for off, size, extra in [(0, 2, 0), (0, 2, -1), (0, 3, 0), (1, 2, 0), (0, 2, 5), (5, 2, 0), (0, 16, 0), (0, 16, -1), (0, 16, -2), (7, 17, 0), (7, 17, 1), (0, 0x102, 0), (3, 0x10002, 0)]:
        for good in (True, False):
            blob = bytearray(rng.randbytes(off + size))
            crc = kit.nswitch.crc16(bytes(blob[off:off + size - 2]))
            struct.pack_into("<H", blob, off + size - 2, crc if good else crc ^ (1 << rng.randrange(16)))
            blob = bytes(blob[:len(blob) + extra]) if extra < 0 else bytes(blob) + rng.randbytes(extra)
            real = R.prod_check(blob, off, size)
            C.add("prod-check %d %d %s" % (off, size, hx(blob)), real + " | " + real, "prod-bound:check:" + real.replace(" ", "")[:8],
                  {"data": blob.hex(), "offset": off, "size": size}, reference=True)
            if extra >= 0 and real != ("ok -" if good else "err ValueError"):
                oracle_fail.append(("prod-check", "ProdInfo.check(%d, %d) on data with a %s checksum: %s" % (off, size, "correct" if good else "wrong", real), {"data": blob.hex(), "offset": off, "size": size}))


# =============================================================================================== dauth
def dauth_bounds(ctx, rng, C, oracle_fail, quick, drv):
    from nintendo.switch import dauth
    # key generations where the width of the `%02x` field of the key name changes, and the ends of the table
    gens = [1, 2, 15, 16, 17, 18, 255, 256, 257, 258, 4095, 4096, 4097, 65536, 65537]
    want = sorted(set(g + d for g in gens + [11, 19] for d in (-1, 0, 1) if g + d >= 1))
    kn = drv.batch(["dauth-keyname %d" % g for g in want])
    keyname = {g: bytes.fromhex(o[3:]).decode() for g, o in zip(want, kn)}
    flens = lens_around([0, 16, 32, 48, 64, 128, 256]) if not quick else lens_around([0, 16, 32]) + rng.sample(lens_around([48, 64, 128, 256]), 4)
    fills = [bytes(16), b"\xff" * 16, b"\x80" + bytes(15), bytes(15) + b"\x01"]
    def one(g, form, kek, master, data, tag):
        keys = {"aes_kek_generation_source": kek, keyname[g]: master}
        for dg in (g - 1, g + 1):
            if dg >= 1: keys.setdefault(keyname[dg], rng.randbytes(16))                      # decoys under the neighbouring names
        c = dauth.DAuthClient(keys); c.key_generation = g
        try: real = "ok " + hx(c.calculate_mac(form, data).encode())
        except Exception as e: real = "err " + R.exc_name(e)
        C.add("dauth-mac %s %s %s %s" % (hx(kek), hx(master), hx(data), hx(form.encode())), real, "dauth-bound:" + tag,
              {"keys": {k: v.hex() for k, v in keys.items()}, "key_generation": g, "form": form, "form_bytes": len(form.encode()), "data": data.hex(),
               "how": "DAuthClient(keys).calculate_mac(form, data) with client.key_generation set"}, reference=True)
    for g in gens:
        one(g, "".join(rng.choice(ALPH + "=&") for _ in range(rng.randint(0, 60))), rng.randbytes(16), rng.randbytes(16), rng.randbytes(16), "keygen")
    for n in flens:
        # the signed string at every CMAC block limit, in bytes (one non-ASCII character moves the limit)
        form = "".join(rng.choice(ALPH + "=&") for _ in range(n))
        one(rng.choice([1, 11, 17, 19]), form, rng.randbytes(16), rng.randbytes(16), rng.randbytes(16), "formlen")
        if n >= 2:
            one(rng.choice([1, 11, 17, 19]), "é" + form[2:], rng.randbytes(16), rng.randbytes(16), rng.randbytes(16), "formlen-utf8")
    for f in fills:
        one(rng.choice([1, 16, 17]), "a=1", f, rng.randbytes(16), rng.randbytes(16), "fill-kek")
        one(rng.choice([1, 16, 17]), "a=1", rng.randbytes(16), f, rng.randbytes(16), "fill-master")
        one(rng.choice([1, 16, 17]), "a=1", rng.randbytes(16), rng.randbytes(16), f, "fill-data")
    # client id at the limits of the `%016x` field, through the whole token request
    versions = sorted(dauth.KEY_GENERATION)
    cids = [0, 1, 15, 16, (1 << 32) - 1, 1 << 32, (1 << 60) - 1, 1 << 60, (1 << 63), (1 << 64) - 1, 1 << 64, (1 << 68) + 5]
    for cid in (cids if not quick else rng.sample(cids, 5)):
        v = rng.choice(versions); g = dauth.KEY_GENERATION[v]
        name = "master_key_%02x" % (g - 1)
        keys = {"aes_kek_generation_source": rng.randbytes(16), name: rng.randbytes(16)}
        challenge = base64.b64encode(rng.randbytes(32), b"-_").decode()
        dt = base64.b64encode(rng.choice(fills + [rng.randbytes(16)]), b"-_").decode().rstrip("=")
        edge = rng.random() < 0.5
        real, req, cl = R.dauth_token(keys, v, 1, challenge, dt, cid, edge, "akamai")
        vend = hx(b"akamai") if (edge and cl.api_version == 7) else "none"
        C.add("dauth-token %s %s %s %s %d %d %d %s %s" % (hx(keys["aes_kek_generation_source"]), hx(keys[name]), cps(dt), hx(challenge.encode()), cid, 0, g,
                                                          hx(cl.system_digest.encode()), vend),
              real, "dauth-bound:client-id", {"version": v, "keys": {k: x.hex() for k, x in keys.items()}, "challenge": challenge, "data": dt, "client_id": cid,
                                              "edge": edge, "how": "DAuthClient.device_token/edge_token with a scripted request callback; compare rawform['mac'] and the signed form"}, reference=True)


# =============================================================================================== aauth
def aauth_bounds(ctx, rng, C, oracle_fail, quick, test_key):
    from nintendo.switch import aauth
    v3 = [v for v in sorted(aauth.API_VERSION) if aauth.API_VERSION[v] == 3]
    combos = [(bytes(16), bytes(32), 0, 0x00), (b"\xff" * 16, b"\xff" * 32, (1 << 64) - 1, 0xFF), (bytes(16), b"\xff" * 32, 1, 0x00),
              (b"\xff" * 16, bytes(32), 1 << 63, 0x80), (bytes(15) + b"\x01", bytes(31) + b"\x01", (1 << 32), 0x7F), (b"\x80" + bytes(15), b"\x80" + bytes(31), (1 << 32) - 1, 1)]
    for i, (pk, seed, tid, rev) in enumerate(combos if not quick else rng.sample(combos, 3)):
        fill = [None, 0x00, 0xFF][i % 3]
        t = bytearray(R.make_ticket(rng, tid, rev=rev))
        if fill is not None:
            keep = {0, 1, 2, 3, 0x285} | set(range(0x2A0, 0x2B0))
            for j in range(len(t)):
                if j not in keep: t[j] = fill
        ticket = bytes(t)
        use_test = i % 2 == 0
        n, e = (test_key.n, test_key.e) if use_test else (0, 0)
        real, form = R.aauth_digital(rng.choice(v3), tid, 0, ticket, pk, seed, *((test_key.n, test_key.e) if use_test else (None, None)))
        C.add("aauth-env %d %d %s %d %s %s" % (n, e, hx(ticket), tid, hx(pk), hx(seed)), real, "aauth-bound:" + ("testkey" if use_test else "nintendo-key"),
              {"title_id": tid, "ticket": ticket.hex(), "plain_key": pk.hex(), "oaep_seed": seed.hex(), "test_modulus": n,
               "how": "AAuthClient.auth_digital with aauth.get_random_bytes and Crypto.Random.get_random_bytes pinned"}, reference=True)


# =============================================================================================== hpp
def hpp_bounds(ctx, rng, C, oracle_fail, quick):
    from nintendo.nex import settings as nexsettings
    HEXD = "0123456789abcdef"
    ak_lens = [0, 1, 7, 8, 9, 63, 64, 65, 128]                        # ljust(8) and the 64-byte HMAC block
    totals = lens_around([55, 56, 64, 119, 120, 128]) + [13]          # message length at the MD5 padding limits (after the 64-byte inner pad)
    pids = [0, 1, 1023, 1024, 1025, 2047, 2048, (1 << 31) - 1, 1 << 31, (1 << 32) - 1024, (1 << 32) - 1]
    plan = [(a, rng.choice(totals), rng.choice(pids)) for a in ak_lens] + [(rng.choice(ak_lens), t, rng.choice(pids)) for t in totals] + \
           [(rng.choice([4, 8]), rng.choice(totals), p) for p in pids]
    if quick: plan = rng.sample(plan, 14)
    for alen, total, pid in plan:
        s = nexsettings.default()
        ak = "".join(rng.choice(HEXD) for _ in range(2 * alen))
        s["prudp.access_key"] = ak
        pw = "".join(rng.choice(ALPH + "!#é") for _ in range(rng.choice([0, 1, 16, 63, 64, 65, rng.randint(0, 20)])))
        proto = rng.choice([1, 0x7E, 0x7F, 0x80])
        header = 13 if proto < 0x7F else 15
        body = rng.randbytes(max(0, total - header))
        call_id = rng.choice([0, 1, 0xFFFFFFFF, 0x80000000])
        meth = rng.choice([1, 0x7FFE, 0x7FFF])
        pl = b"\x01" + struct.pack("<II", call_id, meth | 0x8000)
        sig, val = R.hpp_request(s, pid, pw, call_id, proto, meth, body, 200, struct.pack("<I", len(pl)) + pl)
        data, s1, s2 = sig
        C.add("hpp-sig %s %s %d %s" % (hx(bytes.fromhex(ak)), hx(pw.encode()), pid, hx(data)), "ok %s %s" % (hx(s1.encode()), hx(s2.encode())), "hpp-bound:sig",
              {"access_key": ak, "access_key_bytes": alen, "pid": pid, "password": pw, "message": data.hex(), "message_bytes": len(data),
               "how": "HppClient.request with hpp.http.request replaced; headers signature1/signature2"}, reference=True)


# =============================================================================================== nnas / nasc
def nnas_bounds(ctx, rng, C, oracle_fail, quick):
    from nintendo import nnas
    pids = sorted(set(v + d for k in (8, 16, 24, 31, 32) for v in (1 << k,) for d in (-1, 0, 1)) | {0, 1})
    pwlens = lens_around([47 + 1, 55 + 1, 111 + 1, 119 + 1]) + [0, 1]   # 8 + len at the SHA-256 padding limits (55/56, 63/64, 119/120, 127/128)
    plan = [(p, rng.choice(pwlens)) for p in pids] + [(rng.choice(pids), n) for n in pwlens]
    for pid, n in plan:
        pw = "".join(rng.choice(ALPH + "!@# ~") for _ in range(n))
        try: real = "ok " + hx(nnas.calc_password_hash(pid, pw).encode())
        except Exception as e: real = "err " + R.exc_name(e)
        C.add("nnas %d %s" % (pid, cps(pw)), real, "nnas-bound", {"pid": pid, "password": pw, "how": "nnas.calc_password_hash(pid, password)"}, reference=True)


def nasc_bounds(ctx, rng, C, oracle_fail, quick):
    from nintendo import nasc
    datas = []
    for v in range(64):                                                # every 6-bit group value at every position of the 3-byte group
        for pos in range(4):
            g = [rng.randrange(64) for _ in range(4)]; g[pos] = v
            x = (g[0] << 18) | (g[1] << 12) | (g[2] << 6) | g[3]
            datas.append(x.to_bytes(3, "big"))
    for n in range(0, 10):                                             # every length mod 3, all-zero / all-ones bits
        datas += [bytes(n), b"\xff" * n, b"\xfb\xef\xbe" * n, b"\xfb" + bytes(n)]
    if quick: datas = rng.sample(datas, 120)
    for d in datas:
        C.add("nasc-enc " + hx(d), R.wrap(nasc.b64encode, d), "nasc-bound:enc", {"data": d.hex(), "how": "nasc.b64encode(data) vs the reference 3DS alphabet (+/= -> .-*)"}, reference=True)
        try:
            e = nasc.b64encode(d)
            C.add("nasc-dec " + cps(e), R.wrap(nasc.b64decode, e), "nasc-bound:dec", {"text": e, "how": "nasc.b64decode(text)"}, reference=True)
            if nasc.b64decode(e) != d:
                oracle_fail.append(("nasc-roundtrip", "nasc.b64decode(nasc.b64encode(x)) != x", {"x": d.hex()}))
        except Exception as ex:
            oracle_fail.append(("nasc-roundtrip", "base64 round trip raised %r" % (ex,), {"x": d.hex()}))
