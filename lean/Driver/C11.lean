import NxModel.Nex.RmcServer
import NxModel.Nex.RmcServerObj
import NxModel.Nex.RmcResult
import NxModel.Nex.RmcRequest
import NxModel.Nex.RmcListener
import NxModel.DriverUtil
/-! line-protocol driver for the RMC server model (stateful: the table of registered servers)
  clear                                         -> ok
  srv <protocol> <noresp 0|1> <methods>         -> ok     methods = `-` or `,`-joined id:supported(0|1):resp(n|s|o|m)
  react <hex datagram> <hres>                   -> send <hex> | silent | propagate | notreq | crash <Err>
  gen <protocol> <method> <extract> <user>      -> <hres>             (generated dispatch only)
  full <hex datagram> <extract> <user>          -> <hres> => <reaction>
  sbegin                                        -> ok     a new connection (request sequence) starts
  lnew | lacc <c> | lclose <c>                  -> ok     a listener serving the current table; it accepts / loses connection c
  lreg <c> <protocol> <noresp> <methods>        -> ok | dup | noconn       client.register_server on connection c
  lreq <c> <hex datagram> <extract> <user>      -> <hres> => <reaction> | noconn    answered from connection c's table
  sreq <hex datagram> <extract> <user>          -> <hres> => <reaction> | dead    its next request, through `serveStep` (= `serve`)
  sreqo <hex datagram> <extract> <user> <truth> <waits>
                                                -> <ms> <hres> => <reaction> | dead   the same against registered OBJECTS whose truth
                                                   values (`bool(obj)` when the request arrives) are <truth> = `-` | `,`-joined protocol:0|1
                                                   and a user coroutine that awaits <waits> = `-` | `,`-joined milliseconds first
                                                   (`serveStepTimed`); <ms> = time until the loop is back at recv()
  inv <hex datagram> <extract>                  -> nosrv | <protocol>:<method id>:<- | id>   which server's handle() is entered, with which
                                                   method id, and the table id of the user method that then runs (`dispatch`)
  rchk <where> <slot> <val>                     -> ok | <type(e).__name__>   what writing <val> at a position declared <slot> raises
  rinc <slot> <val>                             -> - | type | other           the property's "wrongly typed" relation (`incompat`)
  sdef <id> =<level>/<level>…                   -> ok     the `load` bodies of structure class <id>, base class first (kept across `clear`)
                                                   level = items; item = F<ty> | R<k>[items]  (`if version >= k:`)
  sreg <hex name> <id>                          -> ok     `DataHolder.object_map[name]` = class <id> (dropped by `clear`)
  rq <hdr 0|1> <schema> <hex body>              -> ok <values> | err <exc>    what reading the parameters does (`RmcRequest.readRequest`)
                                                   schema = `-` | <ty>…;  ty = B H I Q (u8..u64) b h i q (s8..s64) f d o(bool) s(string) u(buffer)
                                                   k(qbuffer) t(datetime) U(stationurl) r(result) v(variant) a(anydata) L<ty> M<ty><ty> S<id>;
  hres    = ret:<hex> | <exc>          exc = rmc:<int> | type | index | memory | key | other | base
  extract = ok | <exc> | m<hdr>:<schema>   (the last: computed by the model from the request's body)
  user = stub | raise:<exc> | ret:<good|wrong|missing>:<hres>
                                            | retv:<where>:<slot>:<val>:<hex>   a result that is well typed except for <val> at a
                                              position declared <slot>; <hex> = the bytes the encoder writes if nothing fails
  where   = top.<list|bool|int|str|bytes|dict|result|datetime|data|cls> | in0 | in1 (attribute tested by check_required)
  slot    = u8|u16|u32|u64|s8|s16|s32|s64|pid4|pid8|float|double|bool|string|buffer|qbuffer|result|datetime|stationurl|
            variant|anydata|struct | list.<slot> | map.<slot>.<slot>
  val     = <atom> | L<atom>,… (list; `L` = []) | U<atom>,… (tuple) | M<atom>=<atom>,… (dict)
  atom    = N | T | F | I<int> | Df | Db | Ds | S<cp>_<cp>… (str; `S` = "") | R<cp>x<n> (str of n equal chars) | B<byte>_… | Y… (bytearray)
            | Xd | Xr | Xu (DateTime/Result/StationURL) | Xn (a Data subclass) | Xs (another Structure) | O (opaque object)
-/
open Nx Nx.Rmc Nx.RmcServer Nx.RmcResult

/-! request schemas (`NxModel/Nex/RmcRequest.lean`) -/
namespace Rq
open Nx.RmcRequest

def pDigits : List Char → Nat → Nat × List Char
  | c :: r, acc => if c.isDigit then pDigits r (acc * 10 + (c.toNat - 48)) else (acc, c :: r)
  | [], acc => (acc, [])

def pTy : Nat → List Char → Option (Ty × List Char)
  | 0, _ => none
  | _, [] => none
  | f + 1, c :: r =>
    match c with
    | 'B' => some (.u8, r) | 'H' => some (.u16, r) | 'I' => some (.u32, r) | 'Q' => some (.u64, r)
    | 'b' => some (.s8, r) | 'h' => some (.s16, r) | 'i' => some (.s32, r) | 'q' => some (.s64, r)
    | 'f' => some (.float, r) | 'd' => some (.double, r) | 'o' => some (.bool, r)
    | 's' => some (.string, r) | 'u' => some (.buffer, r) | 'k' => some (.qbuffer, r)
    | 't' => some (.datetime, r) | 'U' => some (.stationurl, r) | 'r' => some (.result, r)
    | 'v' => some (.variant, r) | 'a' => some (.anydata, r)
    | 'L' => (pTy f r).map fun (t, r) => (.list t, r)
    | 'M' => match pTy f r with
      | some (k, r) => (pTy f r).map fun (v, r) => (.map k v, r)
      | none => none
    | 'S' => match pDigits r 0 with
      | (n, ';' :: r) => some (.struct n, r)
      | _ => none
    | _ => none

def pTys : Nat → List Char → Option (List Ty)
  | 0, _ => none
  | _, [] => some []
  | f + 1, cs => match pTy (f + 1) cs with
    | some (t, r) => (pTys f r).map (t :: ·)
    | none => none

/-- items up to the closing `]` (not consumed) or the end -/
def pItems : Nat → List Char → Option (Items × List Char)
  | 0, _ => none
  | _, [] => some (.nil, [])
  | _, ']' :: r => some (.nil, ']' :: r)
  | f + 1, 'F' :: r =>
    match pTy (f + 1) r with
    | some (t, r) => (pItems f r).map fun (rest, r) => (.field t rest, r)
    | none => none
  | f + 1, 'R' :: r =>
    match pDigits r 0 with
    | (k, '[' :: r) =>
      match pItems f r with
      | some (body, ']' :: r) => (pItems f r).map fun (rest, r) => (.rev k body rest, r)
      | _ => none
    | _ => none
  | _, _ => none

def pLevel (s : String) : Option Items :=
  match pItems (s.length + 2) s.toList with
  | some (it, []) => some it
  | _ => none

def pLevels (s : String) : Option (List Items) :=
  match s.toList with
  | '=' :: r => ((String.ofList r).splitOn "/").mapM pLevel
  | _ => none

def pSchema (s : String) : Option (List Ty) := if s = "-" then some [] else pTys (s.length + 2) s.toList

def nan32 (b : Nat) : Bool := (b / 8388608) % 256 == 255 && b % 8388608 != 0
def nan64 (b : Nat) : Bool := (b / 4503599627370496) % 2048 == 2047 && b % 4503599627370496 != 0

/-- a Python dict built by successive `map[key] = value`: an existing key keeps its place and gets the new value
    (keys are ints / strings / None here: equal iff rendered alike) -/
def dictSet (l : List (String × String)) (k v : String) : List (String × String) :=
  if l.any (·.1 == k) then l.map fun p => if p.1 == k then (k, v) else p else l ++ [(k, v)]

partial def showV : Nx.RmcRequest.Val → String
  | .none => "N"
  | .int i => s!"i{i}"
  | .bool true => "T"
  | .bool false => "F"
  | .str s => "s" ++ hexOut s
  | .bytes b => "y" ++ hexOut b
  | .f32 b => if nan32 b then "fnan" else s!"f{b}"
  | .f64 b => if nan64 b then "dnan" else s!"d{b}"
  | .dt v => s!"t{v}"
  | .res v => s!"r{v}"
  | .url => "U"
  | .list l => "[" ++ ",".intercalate (l.map showV) ++ "]"
  | .map l =>
    let d := l.foldl (fun acc kv => dictSet acc (showV kv.1) (showV kv.2)) []
    "{" ++ ",".intercalate (d.map fun p => p.1 ++ ":" ++ p.2) ++ "}"
  | .obj fs => "(" ++ ",".intercalate (fs.map showV) ++ ")"
  | .any n fs => "A" ++ hexOut n ++ "(" ++ ",".intercalate (fs.map showV) ++ ")"

end Rq

def parseNatsSep (sep : String) (r : List Char) : Option (List Nat) :=
  if r.isEmpty then some [] else ((String.ofList r).splitOn sep).mapM String.toNat?

def parseAtom (s : String) : Option Atom :=
  match s.toList with
  | ['N'] => some .none
  | ['T'] => some (.bool true)
  | ['F'] => some (.bool false)
  | ['D', 'f'] => some (.float .f32)
  | ['D', 'b'] => some (.float .big)
  | ['D', 's'] => some (.float .special)
  | ['X', 'd'] => some .datetime
  | ['X', 'r'] => some .result
  | ['X', 'u'] => some .stationurl
  | ['X', 'n'] => some .data
  | ['X', 's'] => some .structure
  | ['O'] => some .opaque
  | 'I' :: r => (String.ofList r).toInt?.map .int
  | 'S' :: r => (parseNatsSep "_" r).map .str
  | 'B' :: r => (parseNatsSep "_" r).map (.bytes · false)
  | 'Y' :: r => (parseNatsSep "_" r).map (.bytes · true)
  | 'R' :: r =>
    match (String.ofList r).splitOn "x" with
    | [c, n] => match c.toNat?, n.toNat? with
      | some c, some n => some (.str (List.replicate n c))
      | _, _ => none
    | _ => none
  | _ => none

def parseAtoms (r : List Char) : Option (List Atom) :=
  if r.isEmpty then some [] else ((String.ofList r).splitOn ",").mapM parseAtom

def parseItem (s : String) : Option (Atom × Atom) :=
  match s.splitOn "=" with
  | [k, v] => match parseAtom k, parseAtom v with
    | some k, some v => some (k, v)
    | _, _ => none
  | _ => none

def parseVal (s : String) : Option Val :=
  match s.toList with
  | 'L' :: r => (parseAtoms r).map (.seq .list)
  | 'U' :: r => (parseAtoms r).map (.seq .tuple)
  | 'M' :: r => if r.isEmpty then some (.dict []) else (((String.ofList r).splitOn ",").mapM parseItem).map .dict
  | _ => (parseAtom s).map .atom

def parseSlotAux : Nat → List String → Option (Slot × List String)
  | 0, _ => none
  | _, [] => none
  | fuel + 1, t :: r =>
    if t = "list" then (parseSlotAux fuel r).map fun (e, r) => (.list e, r)
    else if t = "map" then
      match parseSlotAux fuel r with
      | some (k, r) => (parseSlotAux fuel r).map fun (v, r) => (.map k v, r)
      | none => none
    else
      let p : Option Slot :=
        if t = "u8" then some .u8 else if t = "u16" then some .u16 else if t = "u32" then some .u32
        else if t = "u64" then some .u64 else if t = "s8" then some .s8 else if t = "s16" then some .s16
        else if t = "s32" then some .s32 else if t = "s64" then some .s64
        else if t = "pid4" then some (.pid false) else if t = "pid8" then some (.pid true)
        else if t = "float" then some .float else if t = "double" then some .double else if t = "bool" then some .bool
        else if t = "string" then some .string else if t = "buffer" then some .buffer else if t = "qbuffer" then some .qbuffer
        else if t = "result" then some .result else if t = "datetime" then some .datetime
        else if t = "stationurl" then some .stationurl else if t = "variant" then some .variant
        else if t = "anydata" then some .anydata else if t = "struct" then some .struct else none
      p.map fun s => (s, r)

def parseSlot (s : String) : Option Slot :=
  match parseSlotAux 16 (s.splitOn ".") with
  | some (sl, []) => some sl
  | _ => none

def parseWhere (s : String) : Option Where :=
  if s = "in0" then some (.inner false) else if s = "in1" then some (.inner true)
  else match s.splitOn "." with
    | ["top", t] =>
      (if t = "list" then some TopType.list else if t = "bool" then some .bool else if t = "int" then some .int
       else if t = "str" then some .str else if t = "bytes" then some .bytes else if t = "dict" then some .dict
       else if t = "result" then some .result else if t = "datetime" then some .datetime
       else if t = "data" then some .data else if t = "cls" then some .cls else none).map .top
    | _ => none

def parseExc (s : String) : Option Exc :=
  match s.splitOn ":" with
  | ["rmc", c] => c.toInt?.map .rmcError
  | ["type"] => some .typeError
  | ["index"] => some .indexError
  | ["memory"] => some .memoryError
  | ["key"] => some .keyError
  | ["other"] => some .other
  | ["base"] => some .base
  | _ => none

def parseHres (s : String) : Option HandleResult :=
  match s.splitOn ":" with
  | ["ret", h] => (fromHex h).map .returned
  | _ => (parseExc s).map .raised

def showExc : Exc → String
  | .rmcError c => s!"rmc:{c}"
  | .typeError => "type" | .indexError => "index" | .memoryError => "memory"
  | .keyError => "key" | .other => "other" | .base => "base"

def showHres : HandleResult → String
  | .returned o => "ret:" ++ hexOut o
  | .raised e => showExc e

def showReaction : Reaction → String
  | .sends d => "send " ++ hexOut d
  | .silent => "silent"
  | .propagates => "propagate"

def parseMethod (s : String) : Option Method :=
  match s.splitOn ":" with
  | [i, sup, r] =>
    match i.toNat?, (if r = "n" then some RespKind.none else if r = "s" then some (.single false)
                      else if r = "o" then some (.single true) else if r = "m" then some .multi else none) with
    | some id, some resp => if sup = "0" ∨ sup = "1" then some { id, supported := sup = "1", resp } else none
    | _, _ => none
  | _ => none

def parseMethods (s : String) : Option (List Method) :=
  if s = "-" then some [] else (s.splitOn ",").mapM parseMethod

def parseUser (s : String) : Option User :=
  if s = "stub" then some .stub
  else if s.startsWith "raise:" then (parseExc (s.drop 6).toString).map .raises
  else if s.startsWith "ret:good:" then (parseHres (s.drop 9).toString).map (.returns .good)
  else if s.startsWith "ret:wrong:" then (parseHres (s.drop 10).toString).map (.returns .wrongType)
  else if s.startsWith "ret:missing:" then (parseHres (s.drop 12).toString).map (.returns .missingField)
  else match s.splitOn ":" with
    | ["retv", w, sl, v, h] =>
      match parseWhere w, parseSlot sl, parseVal v, fromHex h with
      | some w, some sl, some v, some obs => some (.returns .good (encOf (resultCheck w sl v) obs))
      | _, _, _, _ => none
    | _ => none

/-- `body` = the body of the request the extraction is about (used by the `m<hdr>:<schema>` form only) -/
def parseExtractIn (env : Nx.RmcRequest.Env) (body : Bytes) (s : String) : Option (Option Exc) :=
  if s = "ok" then some none
  else if s.startsWith "m0:" ∨ s.startsWith "m1:" then
    match Rq.pSchema (s.drop 3).toString with
    | some tys => some (Nx.RmcRequest.extractOf env (s.startsWith "m1:") tys body)
    | none => none
  else (parseExc s).map some


def parseTruth (s : String) : Option (List (Nat × Bool)) :=
  if s = "-" then some [] else (s.splitOn ",").mapM fun t =>
    match t.splitOn ":" with
    | [p, b] => match p.toNat? with
      | some p => if b = "0" then some (p, false) else if b = "1" then some (p, true) else none
      | none => none
    | _ => none

structure D where
  tbl : List Server
  alive : Bool
  env : Nx.RmcRequest.Env
  lst : Nx.RmcListener.Listener := { servers := [], conns := [] }

def stepTbl (env : Nx.RmcRequest.Env) (tbl : List Server) (line : String) : List Server × String :=
  match line.splitOn " " with
  | ["clear"] => ([], "ok")
  | ["srv", p, nr, ms] =>
    match p.toNat?, parseMethods ms with
    | some p, some ms =>
      if nr = "0" ∨ nr = "1" then
        ({ protocol := p, noresponse := nr = "1", methods := ms } :: tbl.filter (·.protocol ≠ p), "ok")
      else (tbl, "bad-op")
    | _, _ => (tbl, "bad-op")
  | ["rchk", w, sl, v] =>
    match parseWhere w, parseSlot sl, parseVal v with
    | some w, some sl, some v => (tbl, match resultCheck w sl v with | none => "ok" | some e => e.name)
    | _, _, _ => (tbl, "bad-op")
  | ["rinc", sl, v] =>
    match parseSlot sl, parseVal v with
    | some sl, some v => (tbl, match incompat sl v with | none => "-" | some e => showExc e)
    | _, _ => (tbl, "bad-op")
  | ["inv", h, ex] =>
    match fromHex h with
    | some d =>
      match decode d with
      | .error e => (tbl, "crash " ++ e.name)
      | .ok m =>
        if m.mode ≠ 0 then (tbl, "notreq") else
        match parseExtractIn env m.body ex with
        | none => (tbl, "bad-op")
        | some ex =>
        match dispatch tbl m ex with
        | none => (tbl, "nosrv")
        | some (p, mid, u) => (tbl, s!"{p}:{mid}:" ++ (match u with | none => "-" | some k => toString k))
    | _ => (tbl, "bad-op")
  | ["react", h, r] =>
    match fromHex h, parseHres r with
    | some d, some hres =>
      match decode d with
      | .error e => (tbl, "crash " ++ e.name)
      | .ok m => if m.mode ≠ 0 then (tbl, "notreq") else (tbl, showReaction (react (registryOf tbl) m hres))
    | _, _ => (tbl, "bad-op")
  | ["gen", p, m, ex, u] =>
    match p.toNat?, m.toNat?, parseExtractIn env [] ex, parseUser u with
    | some p, some m, some ex, some u =>
      match findServer p tbl with
      | some srv => (tbl, showHres (generatedHandle srv m ex u))
      | none => (tbl, "nosrv")
    | _, _, _, _ => (tbl, "bad-op")
  | ["full", h, ex, u] =>
    match fromHex h, parseUser u with
    | some d, some u =>
      match decode d with
      | .error e => (tbl, "crash " ++ e.name)
      | .ok m =>
        if m.mode ≠ 0 then (tbl, "notreq") else
        match parseExtractIn env m.body ex with
        | none => (tbl, "bad-op")
        | some ex =>
        match findServer m.protocol tbl, m.method with
        | some srv, some mid =>
          let hres := generatedHandle srv mid ex u
          (tbl, showHres hres ++ " => " ++ showReaction (react (registryOf tbl) m hres))
        | _, _ => (tbl, "nosrv => " ++ showReaction (react (registryOf tbl) m (.returned [])))
    | _, _ => (tbl, "bad-op")
  | _ => (tbl, "bad-op")

/-- `sbegin` starts a connection; `sreq <hex> <extract> <user>` is its next request, answered through
    `serveStep` (= `serve` over the whole sequence so far): `<hres> => <reaction>` or `dead`. -/
def stepLine (d : D) (line : String) : D × String :=
  match line.splitOn " " with
  | ["sbegin"] => ({ d with alive := true }, "ok")
  | ["sdef", id, ls] =>
    match id.toNat?, Rq.pLevels ls with
    | some id, some ls => ({ d with env := { d.env with structs := (id, ls) :: d.env.structs.filter (·.1 ≠ id) } }, "ok")
    | _, _ => (d, "bad-op")
  | ["sreg", n, id] =>
    match fromHex n, id.toNat? with
    | some n, some id => ({ d with env := { d.env with registry := (n, id) :: d.env.registry } }, "ok")
    | _, _ => (d, "bad-op")
  | ["clear"] => ({ d with tbl := [], env := { d.env with registry := [] } }, "ok")
  | ["rq", hdr, sch, h] =>
    match Rq.pSchema sch, fromHex h with
    | some tys, some b =>
      if hdr = "0" ∨ hdr = "1" then
        (d, match Nx.RmcRequest.readRequest d.env (hdr = "1") tys b with
            | .ok vs => "ok " ++ ",".intercalate (vs.map Rq.showV)
            | .error e => "err " ++ showExc (Nx.RmcRequest.excOf e))
      else (d, "bad-op")
    | _, _ => (d, "bad-op")
  -- a LISTENER's life (NxModel/Nex/RmcListener.lean): `lnew` = serve(servers = the current table); accept / close /
  -- `client.register_server` on connection c / a request on connection c, answered from THAT connection's table
  | ["lnew"] => ({ d with lst := { servers := d.tbl, conns := [] } }, "ok")
  | ["lacc", c] =>
    match c.toNat? with
    | some c => ({ d with lst := (Nx.RmcListener.step d.lst (.accept c)).1 }, "ok")
    | none => (d, "bad-op")
  | ["lclose", c] =>
    match c.toNat? with
    | some c => ({ d with lst := (Nx.RmcListener.step d.lst (.close c)).1 }, "ok")
    | none => (d, "bad-op")
  | ["lreg", c, p, nr, ms] =>
    match c.toNat?, p.toNat?, parseMethods ms with
    | some c, some p, some ms =>
      if nr = "0" ∨ nr = "1" then
        let (l', o) := Nx.RmcListener.step d.lst (.register c { protocol := p, noresponse := nr = "1", methods := ms })
        ({ d with lst := l' }, match o with | .registered true => "ok" | .registered false => "dup" | _ => "noconn")
      else (d, "bad-op")
    | _, _, _ => (d, "bad-op")
  | ["lreq", c, h, ex, u] =>
    match c.toNat?, fromHex h, parseUser u with
    | some c, some data, some u =>
      match decode data with
      | .error e => (d, "crash " ++ e.name)
      | .ok m =>
        if m.mode ≠ 0 then (d, "notreq") else
        match parseExtractIn d.env m.body ex with
        | none => (d, "bad-op")
        | some ex =>
        match Nx.RmcListener.tableOf c d.lst.conns with
        | none => (d, "noconn")
        | some t =>
          let hres : Option HandleResult := match findServer m.protocol t, m.method with
            | some srv, some mid => some (generatedHandle srv mid ex u)
            | _, _ => none
          match (Nx.RmcListener.step d.lst (.request c m (hres.getD (.returned [])))).2 with
          | .reaction r => (d, (match hres with | some h => showHres h | none => "nosrv") ++ " => " ++ showReaction r)
          | _ => (d, "noconn")
    | _, _, _ => (d, "bad-op")
  | ["sreq", h, ex, u] =>
    match fromHex h, parseUser u with
    | some data, some u =>
      match decode data with
      | .error e => (d, "crash " ++ e.name)
      | .ok m =>
        if m.mode ≠ 0 then (d, "notreq") else
        match parseExtractIn d.env m.body ex with
        | none => (d, "bad-op")
        | some ex =>
        let hres : Option HandleResult := match findServer m.protocol d.tbl, m.method with
          | some srv, some mid => some (generatedHandle srv mid ex u)
          | _, _ => none
        let (alive', r) := serveStep (registryOf d.tbl) d.alive (m, hres.getD (.returned []))
        ({ d with alive := alive' },
         match r with
         | none => "dead"
         | some r => (match hres with | some h => showHres h | none => "nosrv") ++ " => " ++ showReaction r)
    | _, _ => (d, "bad-op")
  | ["sreqo", h, ex, u, truth, waits] =>
    match fromHex h, parseUser u, parseTruth truth, parseNatsSep "," (if waits = "-" then [] else waits.toList) with
    | some data, some u, some truth, some waits =>
      match decode data with
      | .error e => (d, "crash " ++ e.name)
      | .ok m =>
        if m.mode ≠ 0 then (d, "notreq") else
        match parseExtractIn d.env m.body ex with
        | none => (d, "bad-op")
        | some ex =>
        let objs : List Obj := d.tbl.map fun s =>
          { srv := s, truthy := match truth.find? (·.1 == s.protocol) with | some (_, b) => b | none => true }
        let prog : Prog := waits.foldr Prog.wait (.done u)
        let (alive', r) := serveStepTimed objs d.alive m ex prog
        ({ d with alive := alive' },
         match r with
         | none => "dead"
         | some (ms, hres, r) => s!"{ms} " ++ (match hres with | some h => showHres h | none => "nosrv") ++ " => " ++ showReaction r)
    | _, _, _, _ => (d, "bad-op")
  | _ => let (t, o) := stepTbl d.env d.tbl line; ({ d with tbl := t }, o)

def main : IO Unit := runState ({ tbl := [], alive := true, env := { structs := [], registry := [] } } : D) stepLine
