"""C15 — NEX value encodings are lossless.

Tie of the Lean models (NxModel/Nex/{Streams,Common,Errors,DateTime,StationURL}.lean) to
nintendo/nex/{streams,common,errors}.py:
  * generated obligation `error_table_bijective` over the ast-extracted error table (kernel-checked every run)
  * differential correspondence real code vs compiled model on stream primitives, DateTime (4 time zones,
    civil calendar day by day), StationURL, Result, Structure header logic and DataHolder
  * the property oracle (round trips) on the real code for every generated case
  * walks on ONE object (harness/nexval_walk.py): a StationURL / Structure / DataHolder / stream / DateTime / Result that is
    read, serialised, edited through its public mutators, copied, decoded-into and serialised again must show at every step
    what a freshly built object with the same logical content shows; tied to `ObjWalk.run` / `wSeq` / `rSeq`
  * polymorphic holders over the whole registry (harness/nexval_holder.py): every class registered with DataHolder by every
    module of nintendo.nex, with generated field values, alone / in mixed lists / nested, and application-defined class
    hierarchies (random trees, any subset registered in any order) tied to `HolderPoly.wHolder` / `rHolder`
"""
import datetime, os, struct, time
import nintendo.nex.errors as nex_errors
from nintendo.nex import common, streams
import logging
import nexval_gen as G
import nexval_errors as T
import nexval_walk as W
import nexval_holder as H
import c15_tzhist as Z

logging.getLogger("nintendo.nex.common").setLevel(logging.ERROR)   # "version is higher than expected" warnings of Structure.decode

LEVEL = "proof"

ZONES = [("UTC", 0), ("JST-9", 32400), ("EST5", -18000), ("<+0545>-5:45", 20700)]
FINDING_9999 = "datetime-unix:last-hours-of-9999:zone-east-of-utc"


def set_tz(name):
    os.environ["TZ"] = name
    time.tzset()


class Batch:
    """collects driver lines with the real code's answer for each"""
    def __init__(self): self.lines, self.reals, self.meta, self.stream_diffs, self.streamed = [], [], [], [], 0
    def add(self, line, real, meta):
        assert "\n" not in line
        self.lines.append(line); self.reals.append(real); self.meta.append(meta)


# ------------------------------------------------------------------ error table
def check_error_table(ctx, B):
    path = os.path.join(os.environ.get("NX_REPO", "/repo"), "nintendo", "nex", "errors.py")
    try:
        entries, kind, centries = T.extract(path)
    except T.TranslatorError as e:
        ctx.obligation(False)
        ctx.corr_break("error-table-translator", str(e), {"file": path})
        return []
    src, obl = T.lean_source(entries, kind, centries)
    ok, out = ctx.lean_check("GenErrors", src)
    failed = set()
    if not ok:
        lines = src.split("\n")
        import re
        for m in re.finditer(r"GenErrors\.lean:(\d+):\d+: error", out):
            ln = int(m.group(1))
            mm = re.match(r"theorem (\w+)", lines[ln - 1]) if ln - 1 < len(lines) else None
            failed.add(mm.group(1) if mm else "line %d" % ln)
        if not failed: failed.add("(file does not elaborate)")
    for name in obl:
        # the final theorem depends on all others
        ctx.obligation(ok or (name not in failed and name != "error_table_bijective"))
    ctx.extra["error_table_entries"] = len(entries)
    ctx.extra["error_codes_definition"] = kind
    ctx.extra["error_table_obligations_failed"] = sorted(failed)
    # double reading: the imported dicts against the ast entries, and the property oracle on the real code
    names_dict, codes_dict = nex_errors.error_names, nex_errors.error_codes
    found = 0
    seen_c, seen_n = {}, {}
    for c, n, ln in entries:
        problems = []
        if c in seen_c: problems.append("code 0x%08X appears at lines %d and %d" % (c, seen_c[c], ln))
        if n in seen_n: problems.append("name %r appears at lines %d and %d" % (n, seen_n[n], ln))
        seen_c.setdefault(c, ln); seen_n.setdefault(n, ln)
        if c >= 1 << 31: problems.append("code 0x%08X has the error bit set" % c)
        if n in ("success", "unknown error"): problems.append("name %r is reserved by Result.name()" % n)
        # oracle on the real code: code -> name -> code and name -> code -> name
        try:
            r = common.Result.error(n)
            got_code, got_name = r.code(), r.name()
            back = common.Result(c | common.ERROR_MASK).name()
        except Exception as e:
            got_code, got_name, back = None, None, "raised %r" % (e,)
        if got_code != (c | (1 << 31)) or got_name != n or back != n or not common.Result.error(c).is_error():
            problems.append("Result.error(%r) -> code %s name %r; Result(0x%08X).name() -> %r" % (
                n, "None" if got_code is None else "0x%08X" % got_code, got_name, c | (1 << 31), back))
        ctx.case(key="errtab:%d" % c, nontrivial=True, tag="errtab:entry")
        if problems and found < 5:
            found += 1
            ctx.violation("error-table:0x%08X:%s" % (c, n), "error table is not one-to-one: " + "; ".join(problems),
                          {"code": c, "name": n, "line": ln, "problems": problems,
                           "how": "Result.error(name).code()/name(), Result(code|ERROR_MASK).name() on nintendo.nex.errors"})
    if kind == "literal":
        inv = {}
        for n, c, ln in centries: inv[n] = c
        for c, n, ln in entries:
            if inv.get(n) != c and found < 5:
                found += 1
                ctx.violation("error-table:0x%08X:%s" % (c, n), "error_codes literal disagrees with error_names for %r" % n,
                              {"code": c, "name": n, "error_codes_value": inv.get(n)})
    dedup = {}
    for c, n, ln in entries: dedup[c] = n
    if dedup != names_dict:
        ctx.corr_break("error-table-double-reading", "ast-extracted error_names differs from the imported dict", {})
    if not ok and not found:
        ctx.corr_break("error_table_bijective", "generated obligations failed: %s" % sorted(failed), {"lean_output": out[-1500:]})
    # load the table into the driver and compare Result.name()/Result.error(name)
    for c, n, ln in entries:
        B.add("errtab.add %d %s" % (c, G.show_str(n)), "ok", ("errtab", None))
    return entries


def result_cases(ctx, B, entries, quick):
    rng = ctx.rng
    codes = [c for c, _, _ in entries]
    pool = [0, 1, 0x10001, 0x80010001, 0x7FFFFFFF, 0x80000000, 0xFFFFFFFF, 0x100000000, 0x180010001, 0x8000FFFF]
    for _ in range(300 if quick else 3000):
        pool.append(rng.choice(codes) | (rng.choice([0, 1 << 31])) if codes and rng.random() < 0.6 else rng.getrandbits(rng.choice([16, 31, 32, 33])))
    pool += codes + [c | (1 << 31) for c in codes]
    for c in pool:
        r = common.Result(c)
        B.add("res %d" % c, "ok %s %s %d %d" % (G.show_bool(r.is_error()), G.show_bool(r.is_success()),
                                                 common.Result.error(c).code(), common.Result.success(c).code()), ("res", c))
        B.add("res.name %d" % c, "ok " + G.show_str(r.name()), ("resname", c))
        # oracle: the error bit distinguishes failure
        if not common.Result.error(c).is_error() or common.Result.success(c).is_error() or r.is_error() == r.is_success():
            ctx.violation("result-error-bit:%d" % c, "Result error bit inconsistent for code %d" % c, {"code": c})
    names = [n for _, n, _ in entries] + ["Core::Nope", "", "success", "unknown error", "core::unknown"]
    for n in names:
        try: real = "ok %d" % common.Result.error(n).code()
        except Exception as e: real = "err " + G.exc_name(e)
        B.add("res.named " + G.show_str(n), real, ("resnamed", n))


# ------------------------------------------------------------------ stream primitives
OUT_OF_RANGE = [
    (("u8",), 256), (("u16",), 65536), (("u32",), 1 << 32), (("u64",), 1 << 64),
    (("s8",), 128), (("s8",), -129), (("s16",), 1 << 15), (("s16",), -(1 << 15) - 1), (("s32",), 1 << 31), (("s32",), -(1 << 31) - 1),
    (("s64",), 1 << 63), (("s64",), -(1 << 63) - 1), (("variant",), 1 << 64), (("variant",), -(1 << 63) - 1),
    (("variant",), (1 << 64) - 1), (("variant",), -(1 << 63)), (("variant",), -1), (("variant",), 0),
    (("string",), "a" * 65535), (("string",), "a" * 65534), (("string",), "€" * 21845), (("string",), "€" * 21844 + "ab"),
    (("qbuffer",), bytes(65536)), (("qbuffer",), bytes(65535)),
    (("list", ("u8",)), [1, 2, 256]), (("list", ("string",)), ["a", None, "b" * 65535]),
    (("map", ("u8",), ("u16",)), {1: 2, 3: 65536}), (("map", ("u16",), ("u8",)), {65536: 1}),
]


def stream_cases(ctx, B, quick):
    rng = ctx.rng
    encodings = []
    oracle_fail = 0
    n_cases = 2500 if quick else 40000
    forced = [(t,) for t in G.BASE] + [("list", (t,)) for t in G.BASE] + [("map", (k,), ("variant",)) for k in G.KEY_BASE] + \
             [("list", ("list", ("string",))), ("map", ("string",), ("map", ("u32",), ("list", ("buffer",)))), ("list", ("map", ("pid",), ("datetime",)))]
    for i in range(n_cases):
        pid_size = rng.choice([4, 8])
        S = G.make_settings(pid_size=pid_size)
        t = forced[i % len(forced)] if i < 4 * len(forced) else G.gen_type(rng)
        v = G.gen_val(rng, t, pid_size, big=(rng.random() < (0.02 if quick else 0.05)))
        vs = G.show_val(t, v)
        real = G.real_w(S, t, v)
        B.add("w %d %s | %s" % (pid_size, G.show_ty(t), vs), real, ("w", t[0]))
        if not real.startswith("ok "):
            # every generated value is inside the property's quantifier: writing must succeed
            if oracle_fail < 10:
                oracle_fail += 1
                ctx.violation("stream-write:%s" % G.show_ty(t), "writing an in-range value failed: %s" % real,
                              {"pid_size": pid_size, "type": G.show_ty(t), "value": vs[:2000], "real": real})
            continue
        data = G.unhx(real[3:])
        rest = rng.randbytes(rng.choice([0, 0, 1, 3, 8]))
        rr = G.real_r(S, t, data + rest)
        B.add("r %d %s | %s" % (pid_size, G.show_ty(t), G.hx(data + rest)), rr, ("r", t[0]))
        # property oracle on the real code: equal value, exact consumption
        want = "ok " + vs + " | " + G.hx(rest)
        if rr != want and oracle_fail < 10:
            oracle_fail += 1
            ctx.violation("stream-roundtrip:%s" % G.show_ty(t), "read(write(x) ++ rest) != (x, rest) on the real streams",
                          {"pid_size": pid_size, "type": G.show_ty(t), "value": vs[:2000], "written": data.hex()[:4000],
                           "rest": rest.hex(), "read_back": rr[:2000], "how": "nintendo.nex.streams.StreamOut/StreamIn via harness/nexval_gen.real_w/real_r"})
        if len(data) <= 80: encodings.append((pid_size, t, data))
    for _ in range(200):
        v = G.gen_val(rng, ("float",), 8)
        S = G.make_settings()
        real = G.real_w(S, ("float",), v)
        B.add("w 8 float | %s" % G.show_val(("float",), v), real, ("w", "float"))
        B.add("r 8 float | %s" % real[3:], G.real_r(S, ("float",), G.unhx(real[3:])), ("r", "float"))
    # boundary lengths (every bit of the length prefix is exercised)
    for n in [127, 128, 255, 256, 32767, 32768, 65534, 65535]:
        for t, v in [(("qbuffer",), bytes([n & 255]) * n), (("buffer",), bytes([n & 255]) * (n + 1)), (("string",), "a" * (n - 1) if n > 1 else "")]:
            S = G.make_settings()
            real = G.real_w(S, t, v)
            B.add("w 8 %s | %s" % (G.show_ty(t), G.show_val(t, v)), real, ("w-boundary", t[0]))
            if real.startswith("ok "):
                rr = G.real_r(S, t, G.unhx(real[3:]) + b"\x05")
                B.add("r 8 %s | %s" % (G.show_ty(t), real[3:] + "05"), rr, ("r-boundary", t[0]))
                if rr != "ok " + G.show_val(t, v) + " | 05" and oracle_fail < 10:
                    oracle_fail += 1
                    ctx.violation("stream-roundtrip:%s:len=%d" % (t[0], len(v)), "read(write(x) ++ rest) != (x, rest) on the real streams at a boundary length",
                                  {"type": t[0], "length": len(v), "read_back": rr[:200], "how": "StreamOut/StreamIn %s of %d bytes/chars" % (t[0], len(v))})
    # values outside the ranges: the writer must fail the same way in model and code
    for t, v in OUT_OF_RANGE:
        for pid_size in (4, 8):
            S = G.make_settings(pid_size=pid_size)
            B.add("w %d %s | %s" % (pid_size, G.show_ty(t), G.show_val(t, v)), G.real_w(S, t, v), ("w-range", t[0]))
    for pid_size, v in [(4, 1 << 32), (4, (1 << 32) - 1), (8, 1 << 64), (8, (1 << 64) - 1), (7, 1 << 32), (0, 5)]:
        S = G.make_settings(pid_size=pid_size)
        B.add("w %d pid | %d" % (pid_size, v), G.real_w(S, ("pid",), v), ("w-range", "pid"))
    for v in [1 << 64, (1 << 64) - 1]:
        S = G.make_settings()
        B.add("w 8 datetime | %d" % v, G.real_w(S, ("datetime",), common.DateTime(v)), ("w-range", "datetime"))
        B.add("w 8 result | %d" % (v >> 32), G.real_w(S, ("result",), common.Result(v >> 32)), ("w-range", "result"))
    # malformed input: truncations, bit flips, random bytes, hand-made frames
    rng.shuffle(encodings)
    for pid_size, t, data in encodings[: (150 if quick else 1500)]:
        S = G.make_settings(pid_size=pid_size)
        for k in range(len(data)):
            B.add("r %d %s | %s" % (pid_size, G.show_ty(t), G.hx(data[:k])), G.real_r(S, t, data[:k]), ("r-trunc", t[0]))
        for _ in range(6):
            d = bytearray(data)
            if d:
                d[rng.randrange(len(d))] ^= 1 << rng.randrange(8)
                B.add("r %d %s | %s" % (pid_size, G.show_ty(t), G.hx(d)), G.real_r(S, t, bytes(d)), ("r-flip", t[0]))
    raw = [
        (("string",), b"\x01\x00A"), (("string",), b"\x02\x00\xc3\xa9"), (("string",), b"\x03\x00\xe2\x82\xac"), (("string",), b"\x02\x00\xc3"),
        (("string",), b"\x03\x00\xed\xa0\x80"), (("string",), b"\x02\x00\xc0\x80"), (("string",), b"\x04\x00\xf4\x90\x80\x80"), (("string",), b"\x04\x00\xf0\x9f\x98\x80"),
        (("string",), b"\x03\x00ab\xff"), (("string",), b"\x03\x00a\x00b"), (("string",), b"\x00\x00"), (("string",), b"\x05\x00ab"),
        (("variant",), b"\x04\x00\x00rest"), (("variant",), b"\x07"), (("variant",), b"\xff\x00"), (("variant",), b"\x01" + struct.pack("<q", 5)),
        (("variant",), b"\x01" + struct.pack("<q", -(1 << 63))), (("variant",), b"\x06" + struct.pack("<Q", (1 << 64) - 1)), (("variant",), b"\x03\x02"), (("variant",), b"\x03\x00"),
        (("variant",), b"\x02" + struct.pack("<Q", 0x7FF0000000000001)), (("variant",), b"\x04\x01\x00A"),
        (("map", ("u8",), ("u16",)), b"\x03\x00\x00\x00" + b"\x01\x0a\x00" + b"\x02\x14\x00" + b"\x01\x1e\x00"),
        (("map", ("string",), ("u8",)), b"\x03\x00\x00\x00" + b"\x00\x00\x01" + b"\x01\x00\x00\x02" + b"\x00\x00\x03"),
        (("map", ("bool",), ("u8",)), b"\x03\x00\x00\x00" + b"\x01\x01" + b"\x02\x02" + b"\x00\x03"),
        (("list", ("u8",)), b"\xff\xff\xff\xff\x01\x02"), (("list", ("list", ("u8",))), b"\x02\x00\x00\x00\x01\x00\x00\x00\x07\x00\x00\x00\x00"),
        (("buffer",), b"\x05\x00\x00\x00abcd"), (("qbuffer",), b"\x02\x00abc"), (("bool",), b"\x02"), (("bool",), b"\x00"),
        (("s8",), b"\x80"), (("s16",), b"\x00\x80"), (("s32",), b"\xff\xff\xff\xff"), (("s64",), b"\x00" * 7 + b"\x80"),
    ]
    for t, data in raw:
        for pid_size in (4, 8):
            B.add("r %d %s | %s" % (pid_size, G.show_ty(t), G.hx(data)), G.real_r(G.make_settings(pid_size=pid_size), t, data), ("r-raw", t[0]))
    for _ in range(1500 if quick else 30000):
        t = G.gen_type(rng, depth=1)
        pid_size = rng.choice([4, 8])
        data = rng.randbytes(rng.randint(0, 20))
        if rng.random() < 0.5 and data: data = bytes([data[0] % 8]) + data[1:]
        B.add("r %d %s | %s" % (pid_size, G.show_ty(t), G.hx(data)), G.real_r(G.make_settings(pid_size=pid_size), t, data), ("r-rand", t[0]))
    # maps written from raw item lists with repeated keys (a dict cannot hold them; the reader collapses them)
    for _ in range(200 if quick else 3000):
        kt, vt = (rng.choice(["u8", "string", "bool", "buffer", "s16"]),), (rng.choice(["u8", "string", "variant"]),)
        keys = [G.gen_val(rng, kt, 8) for _ in range(rng.randint(1, 3))]
        items = [(rng.choice(keys), G.gen_val(rng, vt, 8)) for _ in range(rng.randint(1, 6))]
        S = G.make_settings()
        real = G.real_w(S, ("map", kt, vt), items)
        B.add("w 8 %s | %s" % (G.show_ty(("map", kt, vt)), G.show_val(("map", kt, vt), items)), real, ("w-dupmap", "map"))
        if real.startswith("ok "):
            data = G.unhx(real[3:])
            B.add("r 8 %s | %s" % (G.show_ty(("map", kt, vt)), G.hx(data)), G.real_r(S, ("map", kt, vt), data), ("r-dupmap", "map"))


# ------------------------------------------------------------------ Structure header logic and DataHolder
class _Base(common.Structure):
    def __init__(self): self.a = b""; self.b = b""; self.va = 0; self.vb = 0; self.seen = []
    def max_version(self, settings): return self.va
    def save(self, stream, version): stream.write(self.a)
    def load(self, stream, version):
        self.seen.append(version); self.a = stream.read(self.na)


class _Derived(_Base):
    def max_version(self, settings): return self.vb
    def save(self, stream, version): stream.write(self.b)
    def load(self, stream, version):
        self.seen.append(version); self.b = stream.read(self.nb)


def structure_cases(ctx, B, quick):
    rng = ctx.rng
    fails = 0
    for _ in range(400 if quick else 6000):
        hdr = rng.random() < 0.6
        S = G.make_settings(struct_header=hdr)
        o = _Derived()
        o.a, o.b = G.gen_bytes(rng, 12), G.gen_bytes(rng, 12)
        o.va, o.vb = rng.choice([0, 1, 2, 255, 256]), rng.choice([0, 1, 3, 255])
        try:
            out = streams.StreamOut(S); out.add(o); real = "ok " + G.hx(out.get())
        except Exception as e:
            real = "err " + G.exc_name(e)
        B.add("struct.w %s 2 %d %s %d %s" % (G.show_bool(hdr), o.va, G.show_bytes(o.a), o.vb, G.show_bytes(o.b)), real, ("struct.w", hdr))
        if not real.startswith("ok "): continue
        data = G.unhx(real[3:])
        rest = rng.randbytes(rng.choice([0, 2]))
        # read back, possibly reading fewer bytes than the level holds (unread bytes of a level are dropped with a header)
        na, nb = len(o.a), len(o.b)
        if rng.random() < 0.3 and na: na -= 1
        if rng.random() < 0.2: nb += 1
        if rng.random() < 0.15: data = data[: rng.randrange(len(data) + 1)]
        p = _Derived(); p.na, p.nb = na, nb; p.va, p.vb = rng.choice([0, 255]), 0
        try:
            inp = streams.StreamIn(data + rest, S); inp.extract(_Derived) if False else p.decode(inp)
            sv = p.seen
            real_r = "ok %d %s %d %s | %s" % (sv[0], G.show_bytes(p.a), sv[1], G.show_bytes(p.b), G.hx((data + rest)[inp.tell():]))
        except Exception as e:
            real_r = "err " + G.exc_name(e)
        B.add("struct.r %s 2 %d %d %s" % (G.show_bool(hdr), na, nb, G.hx(data + rest)), real_r, ("struct.r", hdr))
        if (na, nb) == (len(o.a), len(o.b)) and len(data) == len(G.unhx(real[3:])):
            want_v = (o.va, o.vb) if hdr else (0, 0)
            want = "ok %d %s %d %s | %s" % (want_v[0], G.show_bytes(o.a), want_v[1], G.show_bytes(o.b), G.hx(rest))
            if real_r != want and fails < 5:
                fails += 1
                ctx.violation("structure-roundtrip:header=%s" % hdr, "Structure.decode(Structure.encode(x)) differs or consumes the wrong amount",
                              {"struct_header": hdr, "a": o.a.hex(), "b": o.b.hex(), "versions": [o.va, o.vb], "got": real_r, "want": want})
    # DataHolder framing with objects registered by the library
    import importlib
    regs = []
    for modname in ["authentication", "matchmaking", "friends", "datastore", "ranking"]:
        try: importlib.import_module("nintendo.nex." + modname)
        except Exception: pass
    for name, cls in sorted(common.DataHolder.object_map.items()):
        try:
            inst = cls()
            regs.append((name, cls, inst))
        except Exception:
            continue
    ctx.extra["dataholder_registered_classes"] = len(common.DataHolder.object_map)
    tried = 0
    for name, cls, inst in regs:
        for hdr in (True, False):
            for pid_size in (4, 8):
                S = G.make_settings(struct_header=hdr, pid_size=pid_size)
                try:
                    sub = streams.StreamOut(S); sub.add(inst); payload = sub.get()
                except Exception:
                    continue   # default-constructed object not encodable (fields None): not a DataHolder matter
                try:
                    out = streams.StreamOut(S); out.anydata(inst); real = "ok " + G.hx(out.get())
                except Exception as e:
                    real = "err " + G.exc_name(e)
                tried += 1
                B.add("any.w %s %s" % (G.show_str(cls.__name__), G.show_bytes(payload)), real, ("any.w", name))
                if real.startswith("ok "):
                    data = G.unhx(real[3:]); rest = b"\x07\x08"
                    try:
                        inp = streams.StreamIn(data + rest, S); got = inp.anydata()
                        sub2 = streams.StreamOut(S); sub2.add(got)
                        ok = type(got) is cls and sub2.get() == payload and (data + rest)[inp.tell():] == rest
                        real_r = "ok %s %s | %s" % (G.show_str(type(got).__name__), G.show_bytes(sub2.get()), G.hx((data + rest)[inp.tell():]))
                    except Exception as e:
                        ok, real_r = False, "err " + G.exc_name(e)
                    B.add("any.r " + G.hx(data + rest), real_r, ("any.r", name))
                    if cls.__name__ == name and not ok:
                        ctx.violation("dataholder-roundtrip:%s" % name, "anydata round trip fails on the real code for %s" % name,
                                      {"class": name, "struct_header": hdr, "pid_size": pid_size, "payload": payload.hex(), "got": real_r})
    ctx.extra["dataholder_cases"] = tried
    # NullData registry path incl. unknown names and malformed frames
    for hdr in (True, False):
        S = G.make_settings(struct_header=hdr)
        out = streams.StreamOut(S); out.anydata(common.NullData()); good = out.get()
        frames = [good, good + b"\x01", good[:-1], good[:5]]
        for nm in ["NullData", "Nope", "", None]:
            o2 = streams.StreamOut(S); o2.string(nm)
            inner = good[len("NullData") + 3:]
            frames.append(o2.get() + inner)
        # trailing bytes inside the outer / inner buffers are ignored by the code
        o3 = streams.StreamOut(S); o3.string("NullData")
        payload = good[len("NullData") + 3 + 8:]
        frames.append(o3.get() + struct.pack("<I", len(payload) + 4 + 3) + struct.pack("<I", len(payload)) + payload + b"xyz")
        frames.append(o3.get() + struct.pack("<I", len(payload) + 4) + struct.pack("<I", len(payload) + 1) + payload)
        frames.append(o3.get() + struct.pack("<I", 2) + b"\x00\x00")
        for _ in range(40 if quick else 400):
            d = bytearray(good)
            d[rng.randrange(len(d))] ^= 1 << rng.randrange(8)
            frames.append(bytes(d))
        for f in frames:
            try:
                inp = streams.StreamIn(f, S); got = inp.anydata()
                real = "ok %s | %s" % (G.show_str(type(got).__name__), G.hx(f[inp.tell():]))
            except Exception as e:
                real = "err " + G.exc_name(e)
            B.add("holder.null %s %s" % (G.show_bool(hdr), G.hx(f)), real, ("holder.null", hdr))


# ------------------------------------------------------------------ DateTime
def dt_fields(d): return (d.year(), d.month(), d.day(), d.hour(), d.minute(), d.second())


def datetime_cases(ctx, B, quick):
    rng = ctx.rng
    fails = 0
    # accessors / make
    vals = [0, 1, 63, 64, (1 << 26) - 1, 1 << 26, (1 << 64) - 1, 1 << 63, 1 << 64, (1 << 70) + 12345, common.DateTime.future().value()]
    vals += [rng.getrandbits(64) for _ in range(3000 if quick else 60000)]
    vals += [rng.getrandbits(rng.randint(1, 80)) for _ in range(300)]
    for v in vals:
        d = common.DateTime(v)
        f = dt_fields(d)
        B.add("dt.fields %d" % v, "ok %d %d %d %d %d %d" % f, ("dt.fields", None))
        back = common.DateTime.make(*f).value()
        if back != v and fails < 5:
            fails += 1
            ctx.violation("datetime-make-fields:%d" % v, "make(fields(v)) != v", {"value": v, "fields": f, "back": back})
    for _ in range(3000 if quick else 60000):
        f = (rng.choice([0, 1, 1970, 9999, 10000, (1 << 38) - 1, rng.randint(0, 1 << 38)]), rng.randint(0, 15), rng.randint(0, 31),
             rng.randint(0, 31), rng.randint(0, 63), rng.randint(0, 63))
        d = common.DateTime.make(*f)
        B.add("dt.make %d %d %d %d %d %d" % f, "ok %d" % d.value(), ("dt.make", None))
        if dt_fields(d) != f and fails < 5:
            fails += 1
            ctx.violation("datetime-accessors:%r" % (f,), "accessors(make(f)) != f", {"fields": f, "got": dt_fields(d)})
    # out-of-range fields: the model mirrors the overlapping bit fields
    for _ in range(300):
        f = tuple(rng.randint(0, 1 << rng.choice([3, 5, 6, 7, 9])) for _ in range(6))
        B.add("dt.make %d %d %d %d %d %d" % f, "ok %d" % common.DateTime.make(*f).value(), ("dt.make-wide", None))
    # civil calendar day by day against Python's datetime (ordinal 1 = 0001-01-01 = day 306 from 0000-03-01)
    first, last = 306, 3652364
    if quick:
        days = set(range(first, first + 800)) | set(range(last - 800, last + 1)) | set(range(719468 - 400, 719468 + 800))
        days |= {rng.randint(first, last) for _ in range(20000)}
        for y in list(range(1, 10000, 97)) + [1900, 2000, 2100, 2400, 1600, 9999, 4, 100, 400]:
            for (m, dd) in [(2, 28), (3, 1), (12, 31), (1, 1)]:
                days.add(datetime.date(y, m, dd).toordinal() + 305)
        days = sorted(days)
    else:
        # every day of the years 1970..9999 (the property's range) plus a sample of the earlier ones
        days = sorted({rng.randint(first, 719467) for _ in range(100000)} | set(range(first, first + 1000))) + list(range(719468, last + 1))
    ctx.extra["civil_days_compared"] = len(days)
    ctx.extra["civil_days_exhaustive_1970_9999"] = not quick
    # streamed in chunks (3 million days do not fit comfortably in one batch)
    drv = ctx.driver()
    chunk, CH = [], 250000
    def flush():
        lines, reals = [], []
        for z in chunk:
            d = datetime.date.fromordinal(z - 305)
            lines.append("dt.civil %d" % z); reals.append("ok %d %d %d" % (d.year, d.month, d.day))
            lines.append("dt.days %d %d %d" % (d.year, d.month, d.day)); reals.append("ok %d" % z)
        outs = drv.batch(lines)
        for line, real, model in zip(lines, reals, outs):
            if real != model: B.stream_diffs.append((line, real, model, ("dt.civil", None)))
        ctx.case(key=None, nontrivial=False, tag="dt.civil/dt.days:ok", n=len(lines))
        # distinct days are distinct cases by construction; in the thorough tier only every 10th is recorded (conservative count)
        ctx.distinct.update(("civil", z) for z in (chunk if quick else chunk[::10]))
        B.streamed += len(lines)
        del chunk[:]
    for z in days:
        chunk.append(z)
        if len(chunk) >= CH: flush()
    if chunk: flush()
    # invalid calendar fields -> ValueError; time zones
    saved = os.environ.get("TZ")
    try:
        for zname, off in ZONES:
            set_tz(zname)
            assert -time.timezone == off, (zname, time.timezone)
            ts = [0, 1, -1, 86399, 86400, 951782400, 951868799, 4107542400, 1596279690, 253402300799, 253402300800,
                  253402300799 - off, 253402300800 - off, 253402300799 - off - 86400, 253402300799 - 2 * off,
                  -62135596800, -62135596800 - off, -62135596800 - off + 86400, -62135596800 - off + 86399, -62135596800 + 172800]
            ts += [253402300799 - off - k for k in (1, 60, 3600, 43200)] + [253402300799 - off - abs(off) - k for k in (-1, 0, 1)]
            ts += [rng.randint(0, 253402300799) for _ in range(2500 if quick else 60000)]
            ts += [rng.randint(-62135596800, 0) for _ in range(300 if quick else 5000)]
            ts += [rng.randint(0, 4102444800) for _ in range(1000 if quick else 20000)]
            for t in ts:
                try:
                    d = common.DateTime.fromtimestamp(t); real = "ok %d" % d.value()
                except Exception as e:
                    d, real = None, "err " + G.exc_name(e)
                B.add("dt.from %d %d" % (off, t), real, ("dt.from:" + zname, None))
                if d is None: continue
                try:
                    back = d.timestamp(); real2 = "ok %d" % back
                except Exception as e:
                    back, real2 = None, "err " + G.exc_name(e)
                B.add("dt.ts %d %d" % (off, d.value()), real2, ("dt.ts:" + zname, None))
                # property oracle: timestamps of calendar dates 1970..9999 round-trip
                if d.year() >= 1970 and back != t:
                    late = off > 0 and t + off + off > 253402300799
                    key = FINDING_9999 if late else "datetime-unix:%s:%d" % (zname, t)
                    if late or fails < 5:
                        if not late: fails += 1
                        ctx.violation(key, "timestamp(fromtimestamp(t)) != t in zone %s (offset %+d s): t=%d -> %s -> %s" % (zname, off, t, dt_fields(d), real2),
                                      {"TZ": zname, "offset": off, "t": t, "fields": dt_fields(d), "timestamp": real2,
                                       "how": "os.environ['TZ']=TZ; time.tzset(); common.DateTime.fromtimestamp(t).timestamp()"})
            # arbitrary 64-bit values incl. invalid dates
            for _ in range(1500 if quick else 30000):
                r = rng.random()
                if r < 0.5:
                    f = (rng.choice([0, 1, 2, 1969, 1970, 2024, 9998, 9999, 10000, rng.randint(1, 9999)]), rng.randint(0, 13), rng.randint(0, 31),
                         rng.randint(0, 25), rng.randint(0, 61), rng.randint(0, 61))
                else:
                    y = rng.choice([1, 2, 1900, 2000, 2100, 2023, 2024, 9999, rng.randint(1, 9999)])
                    f = (y, rng.choice([1, 2, 2, 3, 4, 12]), rng.choice([1, 28, 29, 30, 31]), rng.randint(0, 23), rng.randint(0, 59), rng.randint(0, 59))
                d = common.DateTime.make(*f)
                try: real = "ok %d" % d.timestamp()
                except Exception as e: real = "err " + G.exc_name(e)
                B.add("dt.ts %d %d" % (off, d.value()), real, ("dt.ts-fields:" + zname, None))
                # oracle: a valid date-time goes to a timestamp and back to the same fields
                if real.startswith("ok "):
                    try:
                        again = dt_fields(common.DateTime.fromtimestamp(int(real[3:])))
                    except Exception as e:
                        again = repr(e)
                    if again != f and f[0] >= 1970 and fails < 5:
                        fails += 1
                        ctx.violation("datetime-unix-fields:%s:%r" % (zname, f), "fromtimestamp(timestamp(dt)) != dt", {"TZ": zname, "fields": f, "timestamp": real, "again": again})
    finally:
        if saved is None: os.environ.pop("TZ", None)
        else: os.environ["TZ"] = saved
        time.tzset()


# ------------------------------------------------------------------ StationURL
def show_pval(v): return "i%d" % v if isinstance(v, int) and not isinstance(v, bool) else G.show_str(str(v))


def show_url(u):
    return " ".join([G.show_str(u.urlscheme), "%d" % len(u.params)] + [G.show_str(k) + " " + show_pval(v) for k, v in u.params.items()])


SAFE = "abcdefghijklmnopqrstuvwxyzABCDEFGHIJKLMNOPQRSTUVWXYZ0123456789._-+ é€"
UNSAFE = SAFE + ";=:/" * 6


def gen_url(rng, safe=True):
    alpha = SAFE if safe else UNSAFE
    def word(lo=1, hi=8): return "".join(rng.choice(alpha) for _ in range(rng.randint(lo, hi)))
    scheme = rng.choice(["prudp", "prudps", "udp", "http"]) if rng.random() < 0.8 else word()
    if not safe and rng.random() < 0.1: scheme = ""
    params = {}
    for _ in range(rng.choice([0, 1, 2, 3, 5, 8])):
        r = rng.random()
        if r < 0.35:
            k = rng.choice(MODEL_INT)
            v = rng.choice([0, 1, 2, 3, 65535, 1 << 32, (1 << 64) - 1, -1, rng.randint(0, 100000)]) if rng.random() < 0.7 else str(rng.randint(0, 99999))
        elif r < 0.6:
            k = rng.choice(MODEL_STR)
            v = rng.choice(["1.2.3.4", "192.168.0.1", "example.com", word(0, 12)]) if rng.random() < 0.8 else rng.randint(0, 999)
        else:
            k, v = word(), (word(0, 8) if rng.random() < 0.8 else rng.randint(-5, 5))
        if not safe and rng.random() < 0.15: v = rng.choice(["::1", "a=b", "x;y", "http://h/p", " 12 ", "1_0", "+7", "-0", "1__0", "_1", "0x10", "", "١٢"[:0] + "12a"])
        if k in ("self", "scheme"): continue
        params[k] = v
    u = common.StationURL(scheme)
    u.params = params
    return u


# fixed lists (not read from the code under test): the parameters the Lean model knows, and the documented subset
# (docs/reference/nex/common.md: "The following parameters are currently valid")
MODEL_STR = ["address", "Uri", "Rsa", "Ra", "Ntrpa"]
MODEL_INT = ["port", "stream", "sid", "PID", "CID", "type", "RVCID", "natm", "natf", "upnp", "pmp", "probeinit", "PRID",
             "fastproberesponse", "NodeID", "R", "Rsp", "Rp", "Tpt", "Pl", "Ntrpp"]
DOCUMENTED = ["address", "Rsa", "port", "stream", "sid", "PID", "CID", "type", "RVCID", "natm", "natf", "upnp", "pmp", "probeinit", "PRID", "Rsp"]


def url_cases(ctx, B, quick):
    rng = ctx.rng
    fails = 0
    fields = MODEL_STR + MODEL_INT + ["nope", "Port", ""]
    # typed access of every known parameter on a URL that does not define it: the typed default, never KeyError
    u0 = common.StationURL("prudp")
    for f in MODEL_STR + MODEL_INT:
        try: greal = "ok " + show_pval(u0[f])
        except Exception as e: greal = "err " + G.exc_name(e)
        B.add("url.get %s %s" % (G.show_str(f), show_url(u0)), greal, ("url.get-default", None))
        want = "ok " + (G.show_str("") if f in MODEL_STR else "i0")
        if greal != want:
            ctx.violation("stationurl-typed-access:%s" % f, "typed access to the %s parameter %r gives %s instead of the typed default" % (
                "documented" if f in DOCUMENTED else "known", f, greal), {"field": f, "got": greal, "want": want, "how": "common.StationURL('prudp')[field]"})
    for i in range(1500 if quick else 30000):
        safe = rng.random() < 0.7
        u = gen_url(rng, safe)
        us = show_url(u)
        text = repr(u)
        B.add("url.repr " + us, "ok " + G.show_str(text), ("url.repr", safe))
        try:
            p = common.StationURL.parse(text); real = "ok " + show_url(p)
        except Exception as e:
            p, real = None, "err " + G.exc_name(e)
        B.add("url.parse " + G.show_str(text), real, ("url.parse", safe))
        S = G.make_settings()
        try:
            out = streams.StreamOut(S); out.stationurl(u); wreal = "ok " + G.hx(out.get())
        except Exception as e:
            wreal = "err " + G.exc_name(e)
        B.add("url.w " + us, wreal, ("url.w", safe))
        if wreal.startswith("ok "):
            data = G.unhx(wreal[3:]) + b"\x09"
            try:
                inp = streams.StreamIn(data, S); q = inp.stationurl(); rreal = "ok " + show_url(q) + " | " + G.hx(data[inp.tell():])
            except Exception as e:
                rreal = "err " + G.exc_name(e)
            B.add("url.r " + G.hx(data), rreal, ("url.r", safe))
        for f in rng.sample(fields, 4) + [k for k in list(u.params)[:2]]:
            try:
                v = u[f]; greal = "ok " + show_pval(v)
            except Exception as e:
                v, greal = None, "err " + G.exc_name(e)
            B.add("url.get %s %s" % (G.show_str(f), us), greal, ("url.get", safe))
            if safe and p is not None:
                try: pv = p[f]; pgreal = "ok " + show_pval(pv)
                except Exception as e: pgreal = "err " + G.exc_name(e)
                if pgreal != greal and fails < 5:
                    fails += 1
                    ctx.violation("stationurl-getitem:%s" % f, "typed access differs after parse(repr(u)): %s vs %s" % (greal, pgreal), {"url": text, "field": f})
        # property oracle (documented domain: non-empty scheme, keys/values free of ; = : /)
        if safe:
            if p is None or repr(p) != text or p.urlscheme != u.urlscheme or {k: str(v) for k, v in u.params.items()} != p.params:
                if fails < 5:
                    fails += 1
                    ctx.violation("stationurl-roundtrip:%s" % text[:40], "parse(repr(u)) != u", {"url": text, "parsed": real})
    raw = [None, "", "prudp", "prudp:/", ":/", ":/a=b", "a:/b=c=d", "a:/b", "a:/b=c;", "a:/;b=c", "a:/b=c;;d=e", "a:/b=1;b=2;c=3;b=4", "a:/b=c:/d=e", "x::/a=1",
           "a:/scheme=x", "a:/self=x", "a:/=v", "a:/k=", "prudp:/address=::1;port=1", "http://host/path", "a:/port= 12 ;sid=1_0;PID=+7;CID=-0;type=1__0;stream=_1;natm=0x10;natf=;upnp=12a",
           "a:/port=\t5\n;sid=\x1f6\x1c", "a:/port=\u00a07;sid=\u30008\u2003", "a:/port=- 5;sid=--5;PID=5_;CID=٥"[:-1] + "5"]
    for s in raw:
        try:
            p = common.StationURL.parse(s); real = "ok " + show_url(p)
        except Exception as e:
            p, real = None, "err " + G.exc_name(e)
        B.add("url.parse " + G.show_str(s), real, ("url.parse-raw", None))
        if p is not None:
            for f in MODEL_INT[:9] + ["address"]:
                try: greal = "ok " + show_pval(p[f])
                except Exception as e: greal = "err " + G.exc_name(e)
                B.add("url.get %s %s" % (G.show_str(f), show_url(p)), greal, ("url.get-raw", None))


# ------------------------------------------------------------------ replay
def replay(ctx, path):
    """re-runs the input named by a replay file of a walk on one StationURL object; exit 1 when it still fails"""
    import json
    r = json.load(open(path))
    if not str(r.get("key", "")).startswith("stationurl-walk:"):
        print("replay of %r: re-run the operation described under 'how' by hand" % r.get("key"))
        return 2
    st = r["start"]
    ops = [tuple(op) for op in r["operations_raw"]]
    obs, u, problems = W.exec_url_walk((st["how"], st["scheme"], st["params"]), ops)
    for op in ops: print("  " + W.op_text(op))
    for i, t in problems: print("PROBLEM after operation %d: %s" % (i, t))
    print("replay: %d problem(s)" % len(problems))
    return 1 if problems else 0


# ------------------------------------------------------------------ run
THEOREMS = {
    "w": ["Nx.C15.string_roundtrip", "Nx.C15.list_roundtrip", "Nx.C15.map_roundtrip", "Nx.C15.variant_roundtrip"],
    "dt": ["Nx.C15.datetime_make_fields", "Nx.C15.datetime_unix_partial", "Nx.C15.datetime_unix_zone_history", "Nx.C15.local_to_seconds_inverts_local"],
    "url": ["Nx.C15.stationurl_parse_repr", "Nx.C15.stationurl_stream_roundtrip", "Nx.C15.stationurl_walk_observations", "Nx.C15.stationurl_walk_roundtrip"],
    "seq": ["Nx.C15.stream_sequence_roundtrip", "Nx.C15.stream_sequence_concat"],
    "poly": ["Nx.C15.holder_poly_roundtrip", "Nx.C15.holder_poly_roundtrip_any_order", "Nx.C15.holder_registry_lookup"],
    "any": ["Nx.C15.anydata_roundtrip"],
}


def run(ctx):
    quick = ctx.tier == "quick"
    ctx.rule = ("generated obligations: the ast-extracted error table (Nat-coded) is kernel-checked for no duplicate code/name, codes below the error bit, "
                "reserved names unused, names<->codes inverse. Correspondence: every line is one operation run on the real nintendo.nex code and on the compiled Lean model: "
                "typed values (all primitive types, nested lists/maps to depth 2, pid size 4/8) written and read back with trailing bytes, out-of-range writes, "
                "all truncations + bit flips of sampled encodings, hand-made and random byte strings, maps with repeated keys; Structure levels with/without header; "
                "DataHolder framing for every registered class; DateTime fields/make, civil calendar day by day, timestamp/fromtimestamp in 4 time zones incl. range edges; "
                "StationURL repr/parse/getitem/stream over documented and arbitrary parameters; Result error bit and names over the whole table. "
                "Walks on ONE object: StationURL built by ctor/parse/stream then str/repr/typed reads/url[k]=v/.params edits/.urlscheme/copy/re-parse/stream writes in random order "
                "(model ObjWalk.run, every observation and the final round trip compared with a freshly built url of the same content, failing walks shrunk); several typed values through one "
                "StreamOut/StreamIn incl. a shared Settings object whose pid size changes (model wSeq/rSeq); DateTime/Result/RMCError accessor sequences; Structure objects and DataHolder "
                "encoded, edited, decoded-into and re-encoded. "
                "Polymorphic holders over the whole registry: every module of nintendo.nex is imported and every class it registers with DataHolder gets generated field values "
                "(its own load methods run on a value-inventing stream, for pid size 4/8, with/without struct header, NEX versions at every threshold used by the library) and goes through "
                "StreamOut.anydata / StreamIn.anydata alone, in lists and sequences of mixed holders and nested in holder fields: announced name = own class name, same class back, all fields equal, "
                "exact consumption, identical re-encoding; application-defined hierarchies (random class trees up to 6 classes, any subset registered in any order, fixed Shape<-Circle<-Disc in 8 orders) "
                "run on the real code and on the model HolderPoly.wHolder/rHolder (driver ops poly.w / poly.r). "
                "Time zones with a history (harness/c15_tzhist.py): 24 zones whose rules changed (DST abolished / offset moved / negative or half-hour DST / date-line jumps / "
                "sub-minute offsets) and controls, plus a seed-dependent sample of all zones of the tz database (all in thorough), each in a fresh interpreter (TZ in the environment, "
                "or tzset before / after importing the library): every rule change 1970..2100 with the seconds around it, the edges of the skipped / repeated hour, random instants in every "
                "interval between changes, a stride walk, far-future years, wall-clock fields around each change; oracle zoneinfo: fromtimestamp(t) = local time of t, "
                "make(fields).timestamp() = t when the local time occurs once (either instant and the same fields when it occurs twice); replayed through dt.from / dt.ts with the offset in force and through dt.zfrom / dt.zts with the zone's table of rule changes (model of CPython's local_to_seconds, incl. skipped / repeated local times). "
                "distinct non-trivial = distinct lines whose model result is not a plain rejection of random bytes")
    ctx.assumptions.append("CPython datetime / process time zone (glibc TZ rules for fixed offsets) behave as modelled; compared, not proved")
    ctx.assumptions.append("zoneinfo's reading of the system tz database is the oracle for zones with a history (independent of glibc localtime/mktime used by the code under test)")
    ctx.assumptions.append("int(str) is modelled for ASCII digits only; non-ASCII decimal digits and the 4300-digit limit are outside the model")
    B = Batch()
    entries = check_error_table(ctx, B)
    result_cases(ctx, B, entries, quick)
    stream_cases(ctx, B, quick)
    H.run(ctx, B, quick)              # first: imports every module of nintendo.nex, so the sections below see the whole registry
    structure_cases(ctx, B, quick)
    datetime_cases(ctx, B, quick)
    Z.run(ctx, B, quick)              # zones whose rules changed over the years, each in a fresh interpreter
    url_cases(ctx, B, quick)
    W.run(ctx, B, entries, quick)
    B.add("errtab.check", "ok %s %d - -" % (G.show_bool(bool(entries) and not ctx.extra.get("error_table_obligations_failed")), len(entries)), ("errtab.check", None))

    drv = ctx.driver()
    outs = []
    CH = 400000
    for i in range(0, len(B.lines), CH):
        # the error table lives in the driver's state: keep it in every chunk
        prefix = [l for l in B.lines[:i] if l.startswith("errtab.add ")] if i else []
        o = drv.batch(prefix + B.lines[i:i + CH])
        outs += o[len(prefix):]
    diffs = list(B.stream_diffs)
    for line, real, model, m in zip(B.lines, B.reals, outs, B.meta):
        kind = m[0]
        nontrivial = not (kind in ("r-rand",) and model.startswith("err"))
        tag = kind.split(":")[0] + ":" + (model.split(" ")[0] if not model.startswith("err") else model)
        ctx.case(key=line if len(line) < 60 else hash(line), nontrivial=nontrivial, tag=tag,
                 sample={"op": line[:160], "model": model[:160], "real": real[:160]} if ctx.evaluations % 20011 == 0 else None)
        if real != model:
            if kind == "errtab.check" and ctx.violations: continue
            diffs.append((line, real, model, m))
    ctx.traces_validated = len(B.lines) + B.streamed
    ctx.extra["correspondence_lines"] = len(B.lines) + B.streamed
    ctx.extra["correspondence_diffs"] = len(diffs)
    if diffs and not ctx.violations:
        line, real, model, m = diffs[0]
        fam = m[0].split(".")[0].split("-")[0].split(":")[0]
        ctx.corr_break("nex-value-model-correspondence:" + m[0], "real code and Lean model disagree on %d of %d lines" % (len(diffs), len(B.lines)),
                       {"first_op": line[:3000], "real": real[:3000], "model": model[:3000],
                        "more": [{"op": d[0][:300], "real": d[1][:300], "model": d[2][:300]} for d in diffs[1:6]],
                        "theorems_no_longer_tied": THEOREMS.get(fam, ["NxProps/C15.lean"])})
    elif diffs:
        ctx.extra["first_diff"] = {"op": diffs[0][0][:300], "real": diffs[0][1][:300], "model": diffs[0][2][:300]}
