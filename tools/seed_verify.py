#!/usr/bin/env python3
"""Confirms a seeded change produced by an isolated sub-agent and records it under /verif/seeded/<id>-<k>/.

usage: tools/seed_verify.py C01 1 [--checks C01,C08]
In the seed's own worktree (/tmp/seed_<id>): demo on the clean tree must exit 0, with the patch non-zero,
the repo's test-suite must still pass with the patch (run in a private network namespace: several worktrees
share UDP port 12345), then the named checks are run against the patched tree (NX_REPO) and their verdicts recorded.
"""
import json, os, shutil, subprocess, sys, time

def sh(cmd, cwd=None, timeout=3000, env=None):
    p = subprocess.run(cmd, shell=True, cwd=cwd, stdout=subprocess.PIPE, stderr=subprocess.STDOUT, text=True, timeout=timeout, env=env)
    return p.returncode, p.stdout

def main():
    pid, k = sys.argv[1], sys.argv[2]
    checks = [pid]
    if "--checks" in sys.argv:
        checks = sys.argv[sys.argv.index("--checks") + 1].split(",")
    wt = "/tmp/seed_%s" % pid
    src = "%s/OUT/%s" % (wt, k)
    dst = "/verif/seeded/%s-%s" % (pid, k)
    rec = {"property": pid, "k": int(k), "ran": []}
    sh("git checkout -q -- . && git clean -fdq -e OUT", cwd=wt)
    rc, out = sh("/venv/bin/python OUT/%s/demo.py" % k, cwd=wt, timeout=600)
    rec["demo_clean_exit"] = rc
    rec["ran"].append("clean tree: /venv/bin/python OUT/%s/demo.py -> exit %d" % (k, rc))
    rc, out = sh("git apply OUT/%s/patch.diff" % k, cwd=wt)
    if rc != 0:
        print("patch does not apply:", out); sys.exit(1)
    try:
        rc, out = sh("/venv/bin/python OUT/%s/demo.py" % k, cwd=wt, timeout=600)
        rec["demo_patched_exit"] = rc
        rec["demo_patched_tail"] = out[-600:]
        rec["ran"].append("patched tree: demo -> exit %d" % rc)
        rc, out = sh("unshare -n sh -c 'ip link set lo up; /venv/bin/python -m pytest -q -p no:cacheprovider 2>&1 | tail -3'", cwd=wt, timeout=900)
        rec["tests_patched"] = out.strip().splitlines()[-1] if out.strip() else ""
        rec["ran"].append("patched tree: pytest -> " + rec["tests_patched"])
        rec["checks"] = {}
        for c in checks:
            t = time.time()
            env = dict(os.environ, NX_REPO=wt)
            rc, out = sh("./check %s --tier quick" % c, cwd="/verif", timeout=3000, env=env)
            viol = [l for l in out.splitlines() if l.startswith("VIOLATION")]
            what = [l.strip() for l in out.splitlines() if l.startswith("  ")][:3]
            rec["checks"][c] = {"exit": rc, "violations": viol[:5], "what": what, "wall_s": round(time.time() - t, 1)}
            rec["ran"].append("NX_REPO=%s ./check %s --tier quick -> exit %d, %d VIOLATION line(s)" % (wt, c, rc, len(viol)))
    finally:
        sh("git checkout -q -- . && git clean -fdq -e OUT", cwd=wt)
    os.makedirs(dst, exist_ok=True)
    for f in ("patch.diff", "demo.py"):
        shutil.copy(os.path.join(src, f), os.path.join(dst, f))
    meta = json.load(open(os.path.join(src, "meta.json")))
    meta["verification"] = rec
    meta["confirmed"] = rec["demo_clean_exit"] == 0 and rec.get("demo_patched_exit", 0) != 0 and "104 passed" in rec.get("tests_patched", "")
    meta["caught_by"] = [c for c, v in rec.get("checks", {}).items() if v["exit"] == 1 and v["violations"]]
    json.dump(meta, open(os.path.join(dst, "meta.json"), "w"), indent=1)
    print(json.dumps({"confirmed": meta["confirmed"], "caught_by": meta["caught_by"], "tests": rec.get("tests_patched"), "demo": (rec["demo_clean_exit"], rec.get("demo_patched_exit")),
                      "checks": {c: (v["exit"], v["violations"][:1], v["what"][:1]) for c, v in rec.get("checks", {}).items()}}, indent=1))

main()
