import NxModel.Switch.Http
/-!
# What each client does with a response — mirrors the tail of every `request()` method

A response is its status code and its parsed JSON body (`None` when there is none).  The outcome
is: the service's typed error carrying the server's code, `HTTPResponseError`, the returned value,
or some other exception escaping (`raises`: `KeyError`/`IndexError`/`TypeError`/`ValueError` thrown
while the typed error is being built from a malformed payload — the class is not distinguished).
Python semantics that matter: truthiness of the JSON value, `"key" in value` for dict / list / str
(a `TypeError` for numbers and booleans), `int(x)` for int / bool / decimal string.
JSON numbers are integers here (the harness sends no floats).
-/
namespace Nx.Http

/-- `bool(value)` -/
def J.truthy : J → Bool
  | .null => false
  | .bool b => b
  | .num i => i != 0
  | .str s => s != ""
  | .arr l => !l.isEmpty
  | .obj l => !l.isEmpty

def J.get? (j : J) (k : String) : Option J :=
  match j with
  | .obj l => (l.find? (·.1 == k)).map (·.2)
  | _ => none

def isSubstr (pat s : String) : Bool := (s.splitOn pat).length > 1

def J.isStr (j : J) (s : String) : Bool := match j with | .str t => t == s | _ => false

/-- `key in value`: `none` = `TypeError` -/
def J.contains? (j : J) (key : String) : Option Bool :=
  match j with
  | .obj l => some (l.any (·.1 == key))
  | .arr l => some (l.any (·.isStr key))
  | .str s => some (isSubstr key s)
  | _ => none

def isWs (c : Char) : Bool := c == ' ' || c == '\t' || c == '\n' || c == '\r' || c.toNat == 11 || c.toNat == 12

/-- `int(s)` for an ASCII string: optional surrounding whitespace, optional sign, decimal digits -/
def pyIntOfString (s : String) : Option Int :=
  let l := (s.toList.dropWhile isWs).reverse.dropWhile isWs |>.reverse
  let (neg, d) := match l with
    | '-' :: r => (true, r)
    | '+' :: r => (false, r)
    | r => (false, r)
  if d.isEmpty || !d.all Char.isDigit then none
  else
    let n := d.foldl (fun acc c => acc * 10 + (c.toNat - 48)) (0 : Nat)
    some (if neg then -(n : Int) else (n : Int))

/-- `int(value)` -/
def J.toInt? : J → Option Int
  | .num i => some i
  | .bool b => some (if b then 1 else 0)
  | .str s => pyIntOfString s
  | _ => none

end Nx.Http

namespace Nx.Switch
open Nx Nx.Http

structure Resp where
  status : Nat
  json : Option J
  deriving Repr

inductive Outcome where
  | typed (code : J) (message : J)     -- the service's own exception class
  | httpError (status : Nat)           -- anynet.http.HTTPResponseError
  | ok (value : Option J)              -- returned value (`none` = Python `None`)
  | raises                             -- another exception escapes
  deriving Repr

def isSuccess (status : Nat) : Bool := status / 100 == 2

/-- the common tail: `response.raise_if_error(); return …` -/
def finish (r : Resp) (value : Option J) : Outcome :=
  if isSuccess r.status then .ok value else .httpError r.status

/-- dauth / aauth: `if response.json and "errors" in response.json:` log every entry, raise the typed error
    built from entry 0 -/
def classifyErrors (r : Resp) : Outcome :=
  match r.json with
  | none => finish r none
  | some j =>
    if !j.truthy then finish r (some j) else
    match j.contains? "errors" with
    | none => .raises
    | some false => finish r (some j)
    | some true =>
      match j.get? "errors" with
      | some (.arr (e :: rest)) =>
        -- the logging loop indexes `error["code"]`, `error["message"]` of every entry
        if (e :: rest).all (fun x => match x with | .obj _ => (x.get? "code").isSome && (x.get? "message").isSome | _ => false) then
          match (e.get? "code").bind J.toInt?, e.get? "message" with
          | some c, some m => .typed (.num c) m
          | _, _ => .raises
        else .raises
      | _ => .raises

def classifyDauth := classifyErrors
def classifyAauth := classifyErrors

/-- baas: `"errorCode" in response.json` → `BAASError` needs six keys -/
def classifyBaas (r : Resp) : Outcome :=
  match r.json with
  | none => finish r none
  | some j =>
    if !j.truthy then finish r (some j) else
    match j.contains? "errorCode" with
    | none => .raises
    | some false => finish r (some j)
    | some true =>
      match j.get? "type", j.get? "errorCode", j.get? "title", j.get? "detail", j.get? "status", j.get? "instance" with
      | some _, some code, some title, some _, some _, some _ => .typed code title
      | _, _, _, _, _, _ => .raises

/-- five: `"error" in response.json` → `int(json["error"]["code"])`, `json["error"]["message"]` -/
def classifyFive (r : Resp) : Outcome :=
  match r.json with
  | none => finish r none
  | some j =>
    if !j.truthy then finish r (some j) else
    match j.contains? "error" with
    | none => .raises
    | some false => finish r (some j)
    | some true =>
      match j.get? "error" with
      | some (.obj e) =>
        match ((J.obj e).get? "code").bind J.toInt?, (J.obj e).get? "message" with
        | some c, some m => .typed (.num c) m
        | _, _ => .raises
      | _ => .raises

/-- dragons: `response.error() and response.json` → `DragonsError`: `type` (a str, split on "/"), `title`,
    `detail`, `number`; the code reported here is `number`, the message is `title` -/
def classifyDragons (r : Resp) : Outcome :=
  match r.json with
  | some j =>
    if !isSuccess r.status && j.truthy then
      match j with
      | .obj _ =>
        match j.get? "type", j.get? "title", j.get? "detail", j.get? "number" with
        | some (.str _), some title, some _, some number => .typed number title
        | _, _, _, _ => .raises
      | _ => .raises
    else finish r (some j)
  | none => finish r none

/-- sun: `response.error() and response.json` → `json["error"]["code"]`, `json["error"]["message"]` -/
def classifySun (r : Resp) : Outcome :=
  match r.json with
  | some j =>
    if !isSuccess r.status && j.truthy then
      match j.get? "error" with
      | some (.obj e) =>
        match (J.obj e).get? "code", (J.obj e).get? "message" with
        | some c, some m => .typed c m
        | _, _ => .raises
      | _ => .raises
    else finish r (some j)
  | none => finish r none

/-- atumn has no typed error: only `raise_if_error()` -/
def classifyAtumn (r : Resp) : Outcome := finish r r.json

inductive Client where
  | dauth | aauth | baas | dragons | five | sun | atumn
  deriving DecidableEq, Repr

def classify : Client → Resp → Outcome
  | .dauth => classifyDauth
  | .aauth => classifyAauth
  | .baas => classifyBaas
  | .dragons => classifyDragons
  | .five => classifyFive
  | .sun => classifySun
  | .atumn => classifyAtumn

end Nx.Switch
