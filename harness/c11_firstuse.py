"""C11 — the ORDER OF FIRST USE of structure classes within one process (a history axis the property quantifies over).

A server process answers whatever arrives first. For every structure class with derived classes (RankingResult /
RankingCachedResult, Gathering / MatchmakeSession / PersistentGathering, UserMessage / TextMessage / BinaryMessage,
common.Data / every class derived from it: every (ancestor, derived) pair of every module) a process that FIRST serves
a method using the ancestor and THEN one returning / taking the derived class — and the reverse order, and each alone —
must answer every request with exactly the handler's output, and hand the handler exactly the parameters the body
carries. Whatever a class remembers about itself after its first use (caches on the class, registries, memoised
layouts) must not leak into its relatives.

Each sequence runs in an interpreter in which NO structure has been used yet: a child forked from a zygote process
that has only IMPORTED the library and the harness (module-level code, as every fresh interpreter does; reading
sources with `ast` / `inspect`; instantiating nothing of `common.Structure`), plus a sample run in really fresh
interpreters (one `python` process per sequence). Request bodies are built in yet another process (`gen`), derived
classes first, and are judged by the reference reader (harness/rmc_frames.py) whatever they turned out to be.

The oracle does not use the library's encoder / decoder:
 * the body of the success response, read by the reference reader under the layout of the DECLARED response types
   (holder names resolved to the classes of the objects the handler returned), must be consumed completely and must
   render exactly as the Python value the handler returned (`response-is-not-the-handlers-output`);
 * the handler must have been invoked with the values the reference reader finds in the request (`handler-arguments`);
 * exactly one response, right protocol / call id / method, a success;
 * (in the parent) the same request with the same handler must be answered byte-identically in every order and alone.

modes (stdin / stdout JSON):  gen <cfg> -> jobs      run <jobs> -> results (zygote + one forked child per job)
                              run1 <job> -> result   (this interpreter is the fresh one)
"""
import sys, os, json, random, importlib, struct, asyncio, multiprocessing, collections, ast


def _paths():
    here = os.path.dirname(os.path.abspath(__file__))
    for p in (here, os.path.join(os.path.dirname(here), "lib"), os.path.join(os.path.dirname(here), "tools")):
        if p not in sys.path: sys.path.insert(0, p)


_paths()
import vf                                   # noqa: E402  (puts the tree under test on sys.path)
if vf.REPO not in sys.path: sys.path.insert(0, vf.REPO)
import anyio                                # noqa: E402
from nintendo.nex import rmc, common        # noqa: E402
import rmc_values as V                      # noqa: E402
import rmc_frames as FR                     # noqa: E402
import rmc_server_sim as R                  # noqa: E402
import rmc_servers as T                     # noqa: E402


# ------------------------------------------------------------------ value builder that asks the library nothing
class Any:
    queue = []          # class keys to place at the anydata positions met next (cycled); empty: NullData


def own_hierarchy(cls):
    h, c = [], cls
    while c is not common.Structure:
        h.append(c); c = c.__bases__[0]
    return h[::-1]


def _build(self, cls, depth=0):
    if depth > 6: raise V.Unbuildable("depth")
    if cls in (common.Data, common.NullData): return cls()
    if cls is common.ResultRange: return common.ResultRange(self.rng.choice([0, 5]), self.rng.choice([1, 10]))
    if not (isinstance(cls, type) and issubclass(cls, common.Structure)): raise V.Unbuildable("not a structure: %r" % (cls,))
    inst = cls()
    for c in own_hierarchy(cls):
        if c is common.Data: continue
        owner = V.Builder._for_class(self, c)
        for field, expr in owner.loads(c):
            setattr(inst, field, owner.value(expr, depth))
    return inst


_prim0 = V.Builder.prim


def _prim(self, name, depth):
    if name == "anydata" and Any.queue:
        key = Any.queue[0]; Any.queue = Any.queue[1:] + [key]
        return self.build(class_of(key), depth + 1)
    return _prim0(self, name, depth)


def install():
    V.Builder.build = _build
    V.Builder.prim = _prim


def class_of(key):
    mod, name = key.rsplit(".", 1)
    return getattr(importlib.import_module("nintendo.nex." + mod), name)


def instances(v, out=None, depth=0):
    """class keys of all structure instances inside a value"""
    if out is None: out = []
    if depth > 12: return out
    if isinstance(v, common.Structure):
        out.append(FR.class_key(type(v)))
        for x in vars(v).values(): instances(x, out, depth + 1)
    elif isinstance(v, (list, tuple)):
        for x in v: instances(x, out, depth + 1)
    elif isinstance(v, dict):
        for a, b in v.items(): instances(a, out, depth + 1); instances(b, out, depth + 1)
    elif isinstance(v, rmc.RMCResponse):
        for x in vars(v).values(): instances(x, out, depth + 1)
    return out


def objects_by_name(v, out, depth=0):
    if depth > 12: return out
    if isinstance(v, common.Structure):
        out.setdefault(type(v).__name__, type(v))
        for x in vars(v).values(): objects_by_name(x, out, depth + 1)
    elif isinstance(v, (list, tuple)):
        for x in v: objects_by_name(x, out, depth + 1)
    elif isinstance(v, dict):
        for a, b in v.items(): objects_by_name(a, out, depth + 1); objects_by_name(b, out, depth + 1)
    elif isinstance(v, rmc.RMCResponse):
        for x in vars(v).values(): objects_by_name(x, out, depth + 1)
    return out


# ------------------------------------------------------------------ reference reading of a RESPONSE body
class RespRef(FR.Ref):
    """the reference reader over a response: a holder names the class of the object the handler put there"""
    def __init__(self, schema, hdr, data, by_name):
        super().__init__(schema, hdr, data)
        self.by_name = by_name

    def ty(self, ty, r, depth):
        if ty[0] == "anydata":
            name = self.string(r)
            outer = self.frame(r, 4, "any-outer")
            inner = self.frame(outer, 4, "any-inner")
            cls = self.by_name.get(name)
            if cls is None: raise FR.RefErr("key")
            key = self.sc.struct(cls)
            names, kids = self.struct(key, inner, depth + 1)
            if inner[0] != inner[1] or outer[0] != outer[1]: raise FR.RefErr("other")     # a holder holds exactly its object
            return ["a", FR.hx((name or "").encode("utf8")), names, kids, key]
        return super().ty(ty, r, depth)


_MISSING = object()


def render(v, t, schema):
    """a Python value in the value syntax of rmc_frames, in the shape of the reference tree `t`"""
    k = t[0] if t else None
    if v is _MISSING: return "?missing"
    if v is None: return "N"
    if isinstance(v, bool): return "T" if v else "F"
    if isinstance(v, int): return "i%d" % v
    if isinstance(v, float):
        if k == "f": n = struct.unpack("<I", struct.pack("<f", v))[0]; return "f" + ("nan" if FR.fbits(n, 4) == "nan" else "%d" % n)
        n = struct.unpack("<Q", struct.pack("<d", v))[0]; return "d" + ("nan" if FR.fbits(n, 8) == "nan" else "%d" % n)
    if isinstance(v, str): return "s" + FR.hx(v.encode("utf8", "surrogatepass"))
    if isinstance(v, (bytes, bytearray)): return "y" + FR.hx(bytes(v))
    if isinstance(v, common.DateTime): return "t%d" % v.value()
    if isinstance(v, common.Result): return "r%d" % v.code()
    if isinstance(v, common.StationURL): return "U"
    if isinstance(v, list):
        kids = t[1] if k == "l" and len(t[1]) == len(v) else [None] * len(v)
        return "[" + ",".join(render(x, c, schema) for x, c in zip(v, kids)) + "]"
    if isinstance(v, dict):
        items = list(v.items())
        kids = t[1] if k == "m" and len(t[1]) == len(items) else [[None, None]] * len(items)
        return "{" + ",".join(render(a, c[0], schema) + ":" + render(b, c[1], schema) for (a, b), c in zip(items, kids)) + "}"
    if isinstance(v, common.Structure):
        if k == "o":
            if type(v) is not schema.classes.get(t[3]): return "?class:" + type(v).__name__
            return "(" + ",".join(render(getattr(v, n, _MISSING), c, schema) for n, c in zip(t[1], t[2])) + ")"
        if k == "a":
            if FR.class_key(type(v)) != t[4]: return "?class:" + type(v).__name__
            return "A" + t[1] + "(" + ",".join(render(getattr(v, n, _MISSING), c, schema) for n, c in zip(t[2], t[3])) + ")"
        return "?obj:" + type(v).__name__
    return "?%s" % type(v).__name__


def response_tys(sch, si, m):
    """declared types of the response values of a generated method (read from the generated client with ast)"""
    mod = importlib.import_module("nintendo.nex." + si["module"])
    ex = R.builder(si["module"]).response_exprs(si["class"], m["user"])
    if m["resp"] in ("s", "o"): return [sch.ty(e, mod) for e in ex.values()]
    if m["resp"] == "m": return [sch.ty(ex[f], mod) for f in m["fields"]]
    return []


def settings_of(cfg):
    S = R.config_settings(cfg)
    if cfg % 100 >= 3: S["nex.struct_header"] = True
    return S


# ------------------------------------------------------------------ one sequence in this interpreter
async def _session(job):
    cfg = job["cfg"]
    S = settings_of(cfg)
    sch = FR.schema_for(S)
    hdr = bool(S["nex.struct_header"])
    state = {"step": None}
    servers = []
    for si in job["servers"]:
        cls = getattr(importlib.import_module("nintendo.nex." + si["module"]), si["class"])
        srv = cls()
        b = R.builder(si["module"])
        def make_user(si, m, b):
            async def user(client, *args):
                st = state["step"]
                state["invoked"].append([si["class"], m["user"]])
                state["args"] = args
                b.rng = random.Random(st["vseed"])
                Any.queue = list(st.get("any_resp", []))
                rv = b.response_value(si["class"], m["user"], m["resp"], m["fields"])
                state["returned"] = rv
                state["has_returned"] = True
                return rv
            return user
        for m in si["methods"]:
            if m["supported"]: setattr(srv, m["user"], make_user(si, m, b))
        def wrap(orig):
            async def handle(client, method_id, input, output):
                try: await orig(client, method_id, input, output)
                except BaseException as e:
                    state["raised"] = "%s: %s" % (type(e).__name__, str(e)[:200]); raise
                state["output"] = output.get().hex()
            return handle
        srv.handle = wrap(srv.handle)
        servers.append(srv)
    peer = R.Peer(cfg)
    client = rmc.RMCClient(R.config_settings(cfg), peer)
    loop = {"state": "alive"}
    async def recv_loop():
        try:
            await client.start(servers); loop["state"] = "returned"
        except BaseException as e:
            if isinstance(e, asyncio.CancelledError) and loop.get("teardown"): raise
            loop["state"] = "crash:" + type(e).__name__
    results = []
    async with anyio.create_task_group() as tg:
        tg.start_soon(recv_loop)
        for _ in range(3): await anyio.sleep(0)
        for st in job["steps"]:
            si = job["servers"][st["srv"]]
            m = next(x for x in si["methods"] if x["id"] == st["method"])
            state.update({"step": st, "invoked": [], "args": None, "returned": None, "has_returned": False, "raised": None, "output": None})
            res = {"problems": []}
            if loop["state"] != "alive":
                res["problems"].append(["connection-terminated", "the receive loop had ended: " + loop["state"]]); results.append(res); continue
            peer.sent = []
            peer.push(bytes.fromhex(st["datagram"]))
            n = 0
            while not peer.idle and loop["state"] == "alive" and n < 200: await anyio.sleep(0); n += 1
            sent = [bytes(d) for d in peer.sent]
            res["sent"] = [d.hex() for d in sent]
            res["loop"] = loop["state"]
            who = "%s.%s.%s" % (si["module"], si["class"], m["user"])
            P = res["problems"]
            # the request: what the body carries (reference reader) vs what the handler got
            body = bytes.fromhex(st["body"])
            tys = sch.method_tys(si, m)
            ref = FR.reference(sch, hdr, tys, body) if tys is not None else None
            if loop["state"] != "alive": P.append(["connection-terminated", "%s: the receive loop ended with %s" % (who, loop["state"])])
            elif n >= 200: P.append(["hang", "%s: the receive loop did not return to recv()" % who])
            elif si["noresponse"]:
                if sent: P.append(["answered-noresponse", "%s: protocol %d is response-less but %d datagram(s) were sent" % (who, si["protocol"], len(sent))])
            elif len(sent) != 1: P.append(["response-count", "%s: %d responses sent, expected exactly one" % (who, len(sent))])
            else:
                a = parse_answer(sent[0])
                if a is None: P.append(["malformed-response", "%s: response %s does not parse" % (who, sent[0].hex())])
                elif a["protocol"] != si["protocol"] or a["call_id"] != st["call_id"]:
                    P.append(["wrong-ids", "%s: response carries protocol %d call %d, request had %d / %d" % (who, a["protocol"], a["call_id"], si["protocol"], st["call_id"])])
                elif ref is not None and ref["out"] == "err":
                    pass        # (the body built for this step is not readable: judged by the other families)
                elif not a["ok"]:
                    if ref is not None:
                        P.append(["wrong-outcome", "%s: the parameters are readable (%s) and the handler %s, but the request was answered with error %#x (%s)"
                                  % (who, ref["canon"][:200], "returned a well-typed value" if state["has_returned"] else "was not even invoked", a["code"], state["raised"])])
                elif a["method"] != st["method"]:
                    P.append(["wrong-method", "%s: success response carries method %d" % (who, a["method"])])
                elif state["has_returned"]:
                    # the handler's output: its returned value, read back from the response body by the reference reader
                    try:
                        rtys = response_tys(sch, si, m)
                        rv = state["returned"]
                        vals = [rv] if m["resp"] in ("s", "o") else [getattr(rv, f) for f in m["fields"]] if m["resp"] == "m" else []
                        rr = RespRef(sch, hdr, a["body"], objects_by_name(rv, {}))
                        r = [0, len(a["body"])]
                        try:
                            trees = [rr.ty(t, r, 0) for t in rtys]
                            if r[0] != r[1]: raise FR.RefErr("surplus")
                            got = ",".join(FR.canon(t) for t in trees)
                            want = ",".join(render(v, t, sch) for v, t in zip(vals, trees))
                            if got != want and not rr.nocheck:
                                P.append(["response-is-not-the-handlers-output", "%s: the handler returned %s but the success body %s carries %s" % (who, want[:400], a["body"].hex()[:400], got[:400])])
                        except FR.RefErr as e:
                            P.append(["response-is-not-the-handlers-output", "%s: the handler returned a value holding %s, but the success body %s (%d bytes) is not an encoding of the declared response types (%s at byte %d)"
                                      % (who, sorted(set(instances(rv))), a["body"].hex()[:400], len(a["body"]), "bytes left over" if e.cls == "surplus" else "it ends / a frame ends too early", r[0])])
                        except FR.Skip: pass
                    except (FR.Unknown, V.Unbuildable): pass
            if ref is not None and ref["out"] == "ok" and not ref.get("nocheck"):
                if state["invoked"] != [[si["class"], m["user"]]]:
                    if not P: P.append(["wrong-handler-invoked", "%s: invoked %s" % (who, state["invoked"])])
                else:
                    got = FR.render_real(state["args"], ref["tree"], sch)
                    if got != ref["canon"]:
                        P.append(["handler-arguments", "%s: the handler was invoked with the arguments %s, the request carries %s" % (who, got[:400], ref["canon"][:400])])
            results.append(res)
        loop["teardown"] = True
        tg.cancel_scope.cancel()
    return results


def parse_answer(data):
    if len(data) < 6: return None
    (ln,) = struct.unpack_from("<I", data)
    p = data[4:]
    if ln != len(p) or p[0] & 0x80: return None
    if p[0] == 0x7F:
        if len(p) < 4: return None
        proto = struct.unpack_from("<H", p, 1)[0]; p = p[3:]
    else:
        proto = p[0]; p = p[1:]
    if len(p) < 9: return None
    if p[0]:
        cid, meth = struct.unpack_from("<II", p, 1)
        if not meth & 0x8000: return None
        return {"protocol": proto, "ok": True, "call_id": cid, "method": meth & ~0x8000, "body": p[9:]}
    if len(p) != 9: return None
    code, cid = struct.unpack_from("<II", p, 1)
    return {"protocol": proto, "ok": False, "call_id": cid, "code": code}


def run_job(job):
    try:
        return {"steps": anyio.run(_session, job)}
    except BaseException as e:
        import traceback
        return {"error": "%s: %s" % (type(e).__name__, traceback.format_exc()[-1500:])}


def warm(jobs):
    """what the zygote may do before forking: import, read sources (ast), build layouts — nothing of the library is USED"""
    FR.load_all()
    for job in jobs:
        sch = FR.schema_for(settings_of(job["cfg"]))
        for st in job["steps"]:
            si = job["servers"][st["srv"]]
            R.builder(si["module"])
            m = next(x for x in si["methods"] if x["id"] == st["method"])
            try: sch.method_tys(si, m); response_tys(sch, si, m)
            except Exception: pass


# ------------------------------------------------------------------ gen: the sequences
def closure_keys(sch, tys):
    try: return sch.closure(tys)
    except Exception: return []


def has_any(sch, tys):
    def t(ty):
        if ty[0] == "anydata": return True
        if ty[0] == "list": return t(ty[1])
        if ty[0] == "map": return t(ty[1]) or t(ty[2])
        if ty[0] == "struct": return any(items(lv) for lv in sch.structs[ty[1]]["levels"])
        return False
    def items(its): return any((t(i[2]) if i[0] == "f" else items(i[2])) for i in its)
    return any(t(x) for x in tys)


def gen(cfgin):
    rng = random.Random(cfgin["seed"])
    quick = cfgin["tier"] == "quick"
    install()
    FR.load_all()
    servers, _ = T.extract_all(vf.REPO)
    def subs(c):
        for s in c.__subclasses__():
            yield s; yield from subs(s)
    allc = [c for c in dict.fromkeys(subs(common.Structure)) if c.__module__.startswith("nintendo.nex.")]
    pairs = []
    for d in allc:
        c = d.__bases__[0]
        while c is not common.Structure:
            pairs.append((FR.class_key(c), FR.class_key(d))); c = c.__bases__[0]
    data_pairs = [p for p in pairs if p[0] == "common.Data"]
    pairs = [p for p in pairs if p[0] != "common.Data"]
    if quick: data_pairs = [data_pairs[(cfgin["seed"] * 7 + 5 * i) % len(data_pairs)] for i in range(8)]
    pairs += list(dict.fromkeys(data_pairs))
    cfgs = [0, 3] if quick else [0, 3, 100, 103, 203, 300, 303]
    jobs, uses_cache = [], {}
    stats = collections.Counter()
    def uses(key, cfg):
        """the ways a request can make the served process use class `key` under configuration cfg:
        -> list of step dicts (method, datagram, vseed, any_resp) whose request / handler result holds an instance of exactly that class"""
        if (key, cfg) in uses_cache: return uses_cache[(key, cfg)]
        S = settings_of(cfg); sch = FR.schema_for(S)
        mod = key.split(".")[0]
        found = {"resp": [], "req": [], "any-resp": [], "any-req": []}
        registered = common.DataHolder.object_map.get(key.split(".")[1]) is class_of(key)
        is_data = issubclass(class_of(key), common.Data)
        order = sorted(servers, key=lambda s: (s["module"] != mod, s["module"].split("_")[0] != mod.split("_")[0], rng.random()))
        for si in order:
            b = R.builder(si["module"])
            for m in rng.sample(si["methods"], len(si["methods"])):
                if not m["supported"]: continue
                try:
                    rq = sch.method_tys(si, m); rs = response_tys(sch, si, m)
                except Exception: continue
                if rq is None: continue
                ways = []
                if key in closure_keys(sch, rs): ways.append("resp")
                if key in closure_keys(sch, rq): ways.append("req")
                # (a top-level anydata result is validated `isinstance(response, common.Data)`: other structures only deeper)
                if has_any(sch, rs) and (is_data or not any(t[0] == "anydata" for t in rs)): ways.append("any-resp")
                if registered and has_any(sch, rq): ways.append("any-req")
                for way in ways:
                    if len(found[way]) >= (2 if quick else 4): continue
                    if way.startswith("any") and si["module"] != mod and (found[way] or found["resp"] or found["req"]): continue
                    for attempt in range(12):
                        vseed = rng.randrange(1 << 30)
                        try:
                            Any.queue = [key] if way == "any-req" else []
                            b.rng = random.Random(vseed + 7)
                            body, vals = b.request_body(m["req_exprs"], S)
                            Any.queue = [key] if way == "any-resp" else []
                            b.rng = random.Random(vseed)
                            rv = b.response_value(si["class"], m["user"], m["resp"], m["fields"])
                        except Exception:
                            continue
                        finally:
                            Any.queue = []
                        inside = instances(vals) if way in ("req", "any-req") else instances(rv)
                        if key not in inside: continue
                        call_id = rng.randrange(1 << 32)
                        found[way].append({"srvinfo": si, "method": m["id"], "user": m["user"], "way": way, "cls": key, "vseed": vseed, "call_id": call_id,
                                           "body": body.hex(), "datagram": R.make_request(si["protocol"], m["id"], call_id, body).hex(),
                                           "any_resp": [key] if way == "any-resp" else []})
                        break
            if all(len(v) >= 2 for v in found.values()): break
        out = found["resp"] + found["req"] + found["any-resp"] + found["any-req"]
        uses_cache[(key, cfg)] = out
        return out
    # derived classes first (what `gen` encodes with the library must not see an ancestor first)
    for p, d in pairs:
        for cfg in cfgs: uses(d, cfg)
    for p, d in pairs:
        for cfg in cfgs:
            up, ud = uses(p, cfg), uses(d, cfg)
            if not up or not ud: stats["pairs-without-a-use"] += 1; continue
            combos = [(a, b) for a in up for b in ud]
            if quick:
                # every way of using the ancestor x every way of using the derived class once
                seen, pick = set(), []
                for a, b in rng.sample(combos, len(combos)):
                    if (a["way"], b["way"]) not in seen: seen.add((a["way"], b["way"])); pick.append((a, b))
                combos = pick[:6]
            for a, b in combos:
                for seq, tag in (([a, b], "ancestor-first"), ([b, a], "derived-first"), ([b], "derived-alone"), ([a], "ancestor-alone")):
                    srvs, steps = [], []
                    for u in seq:
                        si = u["srvinfo"]
                        if si not in srvs:
                            if any(x["protocol"] == si["protocol"] for x in srvs): break
                            srvs.append(si)
                        steps.append({k: v for k, v in u.items() if k != "srvinfo"} | {"srv": srvs.index(si)})
                    else:
                        jobs.append({"cfg": cfg, "pair": [p, d], "order": tag, "servers": srvs, "steps": steps})
                        stats[tag] += 1
    # identical single-step jobs once
    seen, out = set(), []
    for j in jobs:
        k = (j["cfg"], tuple((s["datagram"], s["vseed"], tuple(s["any_resp"])) for s in j["steps"]))
        if len(j["steps"]) == 1 and k in seen: continue
        seen.add(k); out.append(j)
    return {"jobs": out, "pairs": len(pairs), "stats": dict(stats)}


def main():
    mode = sys.argv[1]
    data = json.load(sys.stdin)
    if mode == "gen":
        json.dump(gen(data), sys.stdout); return
    install()
    if mode == "run1":
        json.dump(run_job(data), sys.stdout); return
    warm(data)
    with multiprocessing.get_context("fork").Pool(min(8, os.cpu_count() or 1), maxtasksperchild=1) as pool:
        res = pool.map(run_job, data, chunksize=1)
    json.dump(res, sys.stdout)


if __name__ == "__main__":
    main()
