import NxModel.Nex.HolderPoly
import NxProofs.NexStreams
/-! Round trip of a polymorphic data holder over any class hierarchy and any registry (C15) -/
namespace Nx.Nex.HolderPoly
open Nx Nx.Nex

/-! ## the registry is a dict: last registration of a name, order otherwise irrelevant -/

theorem lookupLast_some_mem {name : String} {reg : Registry} {c : Nat} (h : lookupLast name reg = some c) :
    (name, c) ∈ reg := by
  induction reg with
  | nil => simp [lookupLast] at h
  | cons p r ih =>
    obtain ⟨n, c0⟩ := p
    unfold lookupLast at h
    cases hr : lookupLast name r with
    | some c' =>
      rw [hr] at h
      simp only [Option.some.injEq] at h
      subst h
      exact List.mem_cons_of_mem _ (ih hr)
    | none =>
      rw [hr] at h
      by_cases hn : n = name
      · simp only [hn, if_true, Option.some.injEq] at h
        subst h; subst hn
        exact List.mem_cons_self
      · simp [hn] at h

theorem lookupLast_none_of_not_mem {name : String} {reg : Registry} (h : name ∉ reg.map (·.1)) :
    lookupLast name reg = none := by
  cases hr : lookupLast name reg with
  | none => rfl
  | some c =>
    exact absurd (List.mem_map.mpr ⟨(name, c), lookupLast_some_mem hr, rfl⟩) h

/-- with pairwise different registered names, a registration is found whatever was registered before or after it -/
theorem lookupLast_of_mem_nodup {name : String} {c : Nat} {reg : Registry}
    (hnd : (reg.map (·.1)).Nodup) (hm : (name, c) ∈ reg) : lookupLast name reg = some c := by
  induction reg with
  | nil => cases hm
  | cons p r ih =>
    obtain ⟨n, c0⟩ := p
    simp only [List.map_cons, List.nodup_cons] at hnd
    rcases List.mem_cons.mp hm with heq | htl
    · have h1 : name = n := congrArg Prod.fst heq
      have h2 : c = c0 := congrArg Prod.snd heq
      subst h1; subst h2
      unfold lookupLast
      rw [lookupLast_none_of_not_mem hnd.1]
      simp
    · unfold lookupLast
      rw [ih hnd.2 htl]

theorem lookupLast_eq_some_iff {name : String} {c : Nat} {reg : Registry} (hnd : (reg.map (·.1)).Nodup) :
    lookupLast name reg = some c ↔ (name, c) ∈ reg :=
  ⟨lookupLast_some_mem, lookupLast_of_mem_nodup hnd⟩

/-- the order of the `register` calls does not matter when the names are pairwise different -/
theorem lookupLast_perm {name : String} {reg reg' : Registry} (hnd : (reg.map (·.1)).Nodup) (hp : reg.Perm reg') :
    lookupLast name reg' = lookupLast name reg := by
  have hnd' : (reg'.map (·.1)).Nodup := (hp.map (·.1)).nodup_iff.mp hnd
  cases h : lookupLast name reg with
  | some c => exact lookupLast_of_mem_nodup hnd' (hp.mem_iff.mp (lookupLast_some_mem h))
  | none =>
    cases h' : lookupLast name reg' with
    | none => rfl
    | some c =>
      have := lookupLast_of_mem_nodup hnd (hp.mem_iff.mpr (lookupLast_some_mem h'))
      rw [h] at this; cases this

/-! ## a hierarchy of levels -/

theorem sizeLoader_append (ver : Nat) (body rest : Bytes) :
    sizeLoader body.length ver (body ++ rest) = .ok ((ver, body), rest) := by
  simp [sizeLoader, rd_append]

theorem rStruct_wStruct_sizes (header : Bool) (levels : List (Nat × Bytes)) :
    ∀ {b : Bytes}, wStruct header levels = .ok b → ∀ rest : Bytes,
      rStruct header (levels.map (fun p => sizeLoader p.2.length)) (b ++ rest) = .ok (seenLevels header levels, rest) := by
  induction levels with
  | nil =>
    intro b h rest
    simp only [wStruct, Except.ok.injEq] at h
    subst h
    simp [rStruct, seenLevels]
  | cons p r ih =>
    intro b h rest
    obtain ⟨v, body⟩ := p
    unfold wStruct at h
    obtain ⟨a, ha, h⟩ := bind_ok h
    obtain ⟨t, ht, h⟩ := bind_ok h
    simp only [pure, Except.pure, Except.ok.injEq] at h
    subst h
    have h1 := rStructLevel_wStructLevel header v body (sizeLoader body.length) ((if header then v else 0), body)
      (fun rest => sizeLoader_append _ body rest) ha (t ++ rest)
    have h2 := ih ht rest
    simp only [List.map_cons, rStruct, List.append_assoc, h1, bind, Except.bind, h2, pure, Except.pure, seenLevels]

/-! ## the holder -/

theorem rObject_wStruct (tbl : ClassTable) (header : Bool) (o : Obj) (hwf : o.WellFormed tbl)
    {b : Bytes} (h : wStruct header o.levels = .ok b) (rest : Bytes) :
    rObject tbl header o.cls (b ++ rest) = .ok (o.seen header, rest) := by
  have hl : (hierarchy tbl o.cls).map (fun i => sizeLoader (sizeOf tbl i)) = o.levels.map (fun p => sizeLoader p.2.length) := by
    have := congrArg (List.map sizeLoader) hwf
    simpa [List.map_map, Function.comp_def] using this.symm
  unfold rObject
  rw [hl, rStruct_wStruct_sizes header o.levels h rest]
  rfl

/-- read(write(x) ++ rest) = (x, rest) for a holder, for ANY class table and ANY registry in which the object's own
class name currently maps to the object's class — whatever else is registered (ancestors, descendants, siblings),
in whatever order. -/
theorem rHolder_wHolder (tbl : ClassTable) (reg : Registry) (header : Bool) (o : Obj) (d : ClassDef)
    (hd : tbl[o.cls]? = some d) (hreg : lookupLast d.name reg = some o.cls) (hwf : o.WellFormed tbl)
    {b : Bytes} (h : wHolder tbl header o = .ok b) (rest : Bytes) :
    rHolder tbl reg header (b ++ rest) = .ok (o.seen header, rest) := by
  unfold wHolder at h
  rw [hd] at h
  obtain ⟨payload, hp, h⟩ := bind_ok h
  have h1 := rAnyData_wAnyData h rest
  have h2 := rObject_wStruct tbl header o hwf hp []
  simp only [List.append_nil] at h2
  simp only [rHolder, rDataHolder, h1, bind, Except.bind, Option.bind, hreg, Option.map, h2, pure, Except.pure]

end Nx.Nex.HolderPoly
