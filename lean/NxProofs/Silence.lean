import NxProofs.Timers
/-! C02: the general silence bound — whatever timers are in flight, a connection that hears nothing is torn down no
later than (deadline of a pending retransmission) + (remaining retransmissions)·resend_timeout, resp.
(next keep-alive) + (resend_limit+1)·resend_timeout -/
namespace Nx.L1
open Nx Nx.Prudp

/-- the waiters are released (timers may be re-armed by tasks that were already started; they are harmless) -/
def Conn.Dead (c : Conn) : Prop :=
  c.state = STATE_DISCONNECTED ∧ c.eof = true ∧ c.handshakeEvent = true ∧ c.closeEvent = true

theorem cleanup_dead (c : Conn) : c.cleanup.c.Dead := by
  simp [Conn.cleanup, Conn.Dead, R.ok]

def evs (c : Conn) : List Timer := match c.sched with | some s => s.events | none => []

/-- what a timer task may do to the quantities the bound depends on: parameters and link unchanged; dead stays dead;
    and either the connection is dead or its timers only grew -/
structure Ok (c c' : Conn) : Prop where
  limit : c'.resendLimit = c.resendLimit
  rt : c'.resendTimeout = c.resendTimeout
  link : c'.linkUp = c.linkUp
  some : c.sched.isSome → c'.sched.isSome
  dead : c.Dead → c'.Dead
  grow : c'.Dead ∨ ∀ t ∈ evs c, t ∈ evs c'

theorem Ok.refl (c : Conn) : Ok c c := ⟨rfl, rfl, rfl, id, id, Or.inr fun _ h => h⟩

theorem Ok.trans {a b c : Conn} (h1 : Ok a b) (h2 : Ok b c) : Ok a c := by
  refine ⟨h2.limit.trans h1.limit, h2.rt.trans h1.rt, h2.link.trans h1.link, fun h => h2.some (h1.some h),
    fun h => h2.dead (h1.dead h), ?_⟩
  cases h1.grow with
  | inl d => exact Or.inl (h2.dead d)
  | inr g1 =>
    cases h2.grow with
    | inl d => exact Or.inl d
    | inr g2 => exact Or.inr fun t ht => g2 t (g1 t ht)

theorem ok_cleanup (c : Conn) : Ok c c.cleanup.c := by
  refine ⟨rfl, rfl, rfl, ?_, fun _ => cleanup_dead c, Or.inl (cleanup_dead c)⟩
  intro h
  simp only [Conn.cleanup, R.ok]
  cases hs : c.sched with
  | none => rw [hs] at h; cases h
  | some s => rfl

theorem ok_arm (c : Conn) (now : Time) (p : Packet) (k : Nat) : Ok c (c.arm now p k) := by
  unfold Conn.arm
  cases hs : c.sched with
  | none => simp only []; exact Ok.refl c
  | some s =>
    simp only [Sched.schedule]
    refine ⟨rfl, rfl, rfl, fun _ => rfl, ?_, Or.inr ?_⟩
    · intro h; exact h
    · intro t ht
      simp only [evs, hs] at ht ⊢
      exact List.mem_append_left _ ht

/-- fields that decide the bound are untouched by the id / payload steps of `send_packet` -/
structure SameT (c c' : Conn) : Prop where
  limit : c'.resendLimit = c.resendLimit
  rt : c'.resendTimeout = c.resendTimeout
  link : c'.linkUp = c.linkUp
  sched : c'.sched = c.sched
  state : c'.state = c.state
  eof : c'.eof = c.eof
  hs : c'.handshakeEvent = c.handshakeEvent
  cl : c'.closeEvent = c.closeEvent
  addr : c'.remoteAddr = c.remoteAddr
  acks : c'.ackEvents = c.ackEvents
  pt : c'.pingTimeout = c.pingTimeout

theorem SameT.ok {c c' : Conn} (h : SameT c c') : Ok c c' := by
  refine ⟨h.limit, h.rt, h.link, ?_, ?_, Or.inr ?_⟩
  · rw [h.sched]; exact id
  · intro d; exact ⟨h.state.trans d.1, h.eof.trans d.2.1, h.hs.trans d.2.2.1, h.cl.trans d.2.2.2⟩
  · intro t ht; simp only [evs, h.sched]; exact ht

theorem assign_sameT (c c' : Conn) (p : Packet) (n : Nat) (h : c.assign p = .ok (n, c')) : SameT c c' := by
  unfold Conn.assign at h
  split at h
  · split at h
    · cases h
    · cases h; exact ⟨rfl, rfl, rfl, rfl, rfl, rfl, rfl, rfl, rfl, rfl, rfl⟩
  · split at h
    · cases h; exact ⟨rfl, rfl, rfl, rfl, rfl, rfl, rfl, rfl, rfl, rfl, rfl⟩
    · split at h <;> (cases h; exact ⟨rfl, rfl, rfl, rfl, rfl, rfl, rfl, rfl, rfl, rfl, rfl⟩)

theorem assignIf_sameT (c c' : Conn) (p : Packet) (b : Bool) (n : Nat) (h : c.assignIf p b = .ok (n, c')) : SameT c c' := by
  unfold Conn.assignIf at h
  cases b with
  | true => simp at h; rw [← h.2]; exact ⟨rfl, rfl, rfl, rfl, rfl, rfl, rfl, rfl, rfl, rfl, rfl⟩
  | false => simp at h; exact assign_sameT _ _ _ _ h

theorem encodePayload_sameT (env : Env) (c c' : Conn) (p : Packet) (d : Bytes) (h : c.encodePayload env p = .ok (d, c')) :
    SameT c c' := by
  unfold Conn.encodePayload at h
  split at h
  · simp only [] at h
    split at h
    · split at h
      · cases h
      · split at h <;> (cases h; exact ⟨rfl, rfl, rfl, rfl, rfl, rfl, rfl, rfl, rfl, rfl, rfl⟩)
    · split at h <;> (cases h; exact ⟨rfl, rfl, rfl, rfl, rfl, rfl, rfl, rfl, rfl, rfl, rfl⟩)
  · cases h; exact ⟨rfl, rfl, rfl, rfl, rfl, rfl, rfl, rfl, rfl, rfl, rfl⟩

theorem encodeIf_sameT (env : Env) (c c' : Conn) (p : Packet) (b : Bool) (d : Bytes) (h : c.encodeIf env p b = .ok (d, c')) :
    SameT c c' := by
  unfold Conn.encodeIf at h
  by_cases hc : p.type = TYPE_DATA ∧ (!b) = true
  · rw [if_pos hc] at h; exact encodePayload_sameT _ _ _ _ _ h
  · rw [if_neg hc] at h; cases h; exact ⟨rfl, rfl, rfl, rfl, rfl, rfl, rfl, rfl, rfl, rfl, rfl⟩

theorem SameT.trans {a b c : Conn} (h1 : SameT a b) (h2 : SameT b c) : SameT a c :=
  ⟨h2.limit.trans h1.limit, h2.rt.trans h1.rt, h2.link.trans h1.link, h2.sched.trans h1.sched, h2.state.trans h1.state,
   h2.eof.trans h1.eof, h2.hs.trans h1.hs, h2.cl.trans h1.cl, h2.addr.trans h1.addr, h2.acks.trans h1.acks, h2.pt.trans h1.pt⟩

/-- `transmit`: cleanup, or an exception with nothing changed, or the packet goes out and — for a packet that wants an
    acknowledgement — its retransmission timer is appended, due one `resend_timeout` later with counter 0 -/
theorem transmit_cases (env : Env) (now : Time) (c : Conn) (p : Packet) :
    ((c.transmit env now p).c = c.cleanup.c) ∨
    ((c.transmit env now p).err.isSome ∧ (c.transmit env now p).c = c) ∨
    ((c.transmit env now p).err = none ∧
      (c.transmit env now p).c = (if (hasReliable p.flags || p.type == TYPE_SYN) && hasNeedAck p.flags then c.arm now p 0 else c)) := by
  unfold Conn.transmit
  by_cases hl : (!c.linkUp) = true
  · rw [if_pos hl]; exact Or.inl rfl
  · rw [if_neg hl]
    cases encodeChecked env.cfg p with
    | error e => exact Or.inr (Or.inl ⟨rfl, rfl⟩)
    | ok data => exact Or.inr (Or.inr ⟨rfl, rfl⟩)

theorem ok_transmit (env : Env) (now : Time) (c : Conn) (p : Packet) : Ok c (c.transmit env now p).c := by
  rcases transmit_cases env now c p with h | h | h
  · rw [h]; exact ok_cleanup c
  · rw [h.2]; exact Ok.refl c
  · rw [h.2]; split
    · exact ok_arm c now p 0
    · exact Ok.refl c

theorem ok_sendPacket (env : Env) (now : Time) (c : Conn) (p : Packet) : Ok c (c.sendPacket env now p).c := by
  unfold Conn.sendPacket
  simp only []
  generalize hA : Conn.assignIf c _ _ = ra
  cases ra with
  | error e => exact Ok.refl c
  | ok v =>
    obtain ⟨pid, c1⟩ := v
    have h1 := (assignIf_sameT _ _ _ _ _ hA).ok
    simp only []
    generalize hE : Conn.encodeIf env c1 _ _ = re
    cases re with
    | error e => exact h1
    | ok w =>
      obtain ⟨payload, c2⟩ := w
      have h2 := (encodeIf_sameT _ _ _ _ _ _ hE).ok
      simp only []
      exact (h1.trans h2).trans (ok_transmit env now c2 _)

theorem ok_resendPacket (env : Env) (now : Time) (c : Conn) (p : Packet) (k : Nat) : Ok c (c.resendPacket env now p k).c := by
  unfold Conn.resendPacket
  split
  · split
    · exact ok_cleanup c
    · exact ok_arm c now p (k + 1)
  · exact ok_cleanup c

theorem ok_fire (env : Env) (now : Time) (c : Conn) (a : Action) : Ok c (c.fire env now a).c := by
  cases a with
  | resend p k => exact ok_resendPacket env now c p k
  | ping => exact ok_sendPacket env now c _

theorem ok_fireOne (env : Env) (now : Time) (c : Conn) (a : Action) : Ok c (c.fireOne env now a).c := by
  unfold Conn.fireOne
  simp only []
  cases h : (c.fire env now a).err with
  | none => exact ok_fire env now c a
  | some e => exact (ok_fire env now c a).trans (ok_cleanup _)

theorem ok_fireAll (env : Env) (now : Time) : ∀ (as : List Action) (c : Conn), Ok c (Conn.fireAll env now as c).c := by
  intro as
  induction as with
  | nil => intro c; exact Ok.refl c
  | cons a as ih => intro c; exact (ok_fireOne env now c a).trans (ih _)

end Nx.L1

namespace Nx.L1
open Nx Nx.Prudp

/-- the instant by which the retransmission chain started by a pending timer has run out -/
def tbound (limit rt : Nat) (t : Timer) : Nat :=
  match t.act with
  | .resend _ k => t.deadline + (limit - k) * rt
  | .ping => t.deadline + (limit + 1) * rt

def abound (limit rt d : Nat) : Action → Nat
  | .resend _ k => d + (limit - k) * rt
  | .ping => d + (limit + 1) * rt

theorem tbound_eq (limit rt : Nat) (t : Timer) : tbound limit rt t = abound limit rt t.deadline t.act := by
  unfold tbound abound; cases t.act <;> rfl

theorem deadline_le_tbound (limit rt : Nat) (t : Timer) : t.deadline ≤ tbound limit rt t := by
  unfold tbound; cases t.act <;> simp

/-- dead, or some pending timer's chain runs out by `D` -/
def Conn.Doomed (c : Conn) (D : Nat) : Prop :=
  c.Dead ∨ ∃ t ∈ evs c, tbound c.resendLimit c.resendTimeout t ≤ D

theorem Ok.doomed {c c' : Conn} (h : Ok c c') {D : Nat} (hd : c.Doomed D) : c'.Doomed D := by
  cases hd with
  | inl d => exact Or.inl (h.dead d)
  | inr w =>
    obtain ⟨t, ht, hb⟩ := w
    cases h.grow with
    | inl d => exact Or.inl d
    | inr g => exact Or.inr ⟨t, g t ht, by rw [h.limit, h.rt]; exact hb⟩

theorem evs_arm (c : Conn) (now : Time) (p : Packet) (k : Nat) (hs : c.sched.isSome) :
    ∃ t ∈ evs (c.arm now p k), t.deadline = now + c.resendTimeout ∧ t.act = .resend p k := by
  unfold Conn.arm
  cases h : c.sched with
  | none => rw [h] at hs; cases hs
  | some s =>
    simp only [Sched.schedule, evs]
    exact ⟨⟨s.nextHandle, now + c.resendTimeout, none, .resend p k⟩, by simp, rfl, rfl⟩

theorem arm_limit (c : Conn) (now : Time) (p : Packet) (k : Nat) :
    (c.arm now p k).resendLimit = c.resendLimit ∧ (c.arm now p k).resendTimeout = c.resendTimeout :=
  ⟨(ok_arm c now p k).limit, (ok_arm c now p k).rt⟩

/-- a fired retransmission either ends the connection or leaves a timer whose chain ends at the same instant -/
theorem resend_doomed (env : Env) (d : Nat) (c : Conn) (p : Packet) (k : Nat) (hs : c.sched.isSome) :
    (c.resendPacket env d p k).c.Doomed (d + (c.resendLimit - k) * c.resendTimeout) := by
  unfold Conn.resendPacket
  by_cases hk : k < c.resendLimit
  · rw [if_pos hk]
    by_cases hl : (!c.linkUp) = true
    · rw [if_pos hl]; exact Or.inl (cleanup_dead c)
    · rw [if_neg hl]
      obtain ⟨t, ht, hd, ha⟩ := evs_arm c d p (k + 1) hs
      refine Or.inr ⟨t, ht, ?_⟩
      simp only [R.ok]
      rw [(arm_limit c d p (k+1)).1, (arm_limit c d p (k+1)).2]
      unfold tbound; rw [ha]; simp only [hd]
      generalize c.resendLimit = L at hk ⊢
      generalize c.resendTimeout = rt
      have : L - k = (L - (k + 1)) + 1 := by omega
      rw [this, Nat.add_mul]; omega
  · rw [if_neg hk]; exact Or.inl (cleanup_dead c)

/-- `transmit` of a packet that wants an acknowledgement: dead, or an exception, or its timer is pending -/
theorem transmit_doomed (env : Env) (d : Nat) (c : Conn) (p : Packet) (hs : c.sched.isSome)
    (hp : ((hasReliable p.flags || p.type == TYPE_SYN) && hasNeedAck p.flags) = true) :
    (c.transmit env d p).err.isSome ∨ (c.transmit env d p).c.Doomed (d + (c.resendLimit + 1) * c.resendTimeout) := by
  rcases transmit_cases env d c p with h | h | h
  · right; rw [h]; exact Or.inl (cleanup_dead c)
  · left; exact h.1
  · right; rw [h.2, if_pos hp]
    obtain ⟨t, ht, hd, ha⟩ := evs_arm c d p 0 hs
    refine Or.inr ⟨t, ht, ?_⟩
    rw [(arm_limit c d p 0).1, (arm_limit c d p 0).2]
    unfold tbound; rw [ha]; simp only [hd]
    generalize c.resendLimit = L
    generalize c.resendTimeout = rt
    rw [Nat.add_mul]; simp; omega

theorem sendPacket_doomed (env : Env) (d : Nat) (c : Conn) (p : Packet) (hs : c.sched.isSome)
    (hp : ((hasReliable p.flags || p.type == TYPE_SYN) && hasNeedAck p.flags) = true) :
    (c.sendPacket env d p).err.isSome ∨ (c.sendPacket env d p).c.Doomed (d + (c.resendLimit + 1) * c.resendTimeout) := by
  unfold Conn.sendPacket
  simp only []
  generalize hA : Conn.assignIf c _ _ = ra
  cases ra with
  | error e => left; rfl
  | ok v =>
    obtain ⟨pid, c1⟩ := v
    have h1 := assignIf_sameT _ _ _ _ _ hA
    simp only []
    generalize hE : Conn.encodeIf env c1 _ _ = re
    cases re with
    | error e => left; rfl
    | ok w =>
      obtain ⟨payload, c2⟩ := w
      have h2 := h1.trans (encodeIf_sameT _ _ _ _ _ _ hE)
      simp only []
      have hs2 : c2.sched.isSome := by rw [h2.sched]; exact hs
      have key := fun (q : Packet) (hq : ((hasReliable q.flags || q.type == TYPE_SYN) && hasNeedAck q.flags) = true) =>
        transmit_doomed env d c2 q hs2 hq
      rw [h2.limit, h2.rt] at key
      apply key
      split <;> exact hp

theorem fireOne_doomed (env : Env) (d : Nat) (c : Conn) (a : Action) (hs : c.sched.isSome) :
    (c.fireOne env d a).c.Doomed (abound c.resendLimit c.resendTimeout d a) := by
  unfold Conn.fireOne
  simp only []
  cases a with
  | resend p k =>
    have h := resend_doomed env d c p k hs
    have hok := ok_resendPacket env d c p k
    simp only [Conn.fire, abound]
    cases he : (c.resendPacket env d p k).err with
    | none => exact h
    | some e => exact Or.inl (cleanup_dead _)
  | ping =>
    have h := sendPacket_doomed env d c (mkPacket TYPE_PING (FLAG_RELIABLE + FLAG_NEED_ACK)) hs (by decide)
    simp only [Conn.fire, abound, Conn.sendPing]
    cases he : (c.sendPacket env d (mkPacket TYPE_PING (FLAG_RELIABLE + FLAG_NEED_ACK))).err with
    | none =>
      rw [he] at h
      cases h with
      | inl h => cases h
      | inr h => exact h
    | some e => exact Or.inl (cleanup_dead _)

theorem fireAll_doomed (env : Env) (d B : Nat) (a : Action) : ∀ (as : List Action) (c : Conn), c.sched.isSome → a ∈ as →
    abound c.resendLimit c.resendTimeout d a ≤ B → (Conn.fireAll env d as c).c.Doomed B := by
  intro as
  induction as with
  | nil => intro c _ h; cases h
  | cons x xs ih =>
    intro c hs hm hb
    have hok1 := ok_fireOne env d c x
    simp only [Conn.fireAll]
    cases List.mem_cons.mp hm with
    | inl heq =>
      subst heq
      have h1 := fireOne_doomed env d c a hs
      have h1' : (c.fireOne env d a).c.Doomed B := by
        cases h1 with
        | inl dd => exact Or.inl dd
        | inr w => obtain ⟨t, ht, hb'⟩ := w; exact Or.inr ⟨t, ht, Nat.le_trans hb' hb⟩
      exact (ok_fireAll env d xs _).doomed h1'
    | inr hin =>
      apply ih _ (hok1.some hs) hin
      rw [hok1.limit, hok1.rt]; exact hb

theorem nextDeadline_le (s : Sched) (d : Time) (h : s.nextDeadline = some d) : ∀ t ∈ s.events, d ≤ t.deadline := by
  unfold Sched.nextDeadline at h
  have gen : ∀ (l : List Timer) (m : Option Time) (d : Time),
      l.foldl (fun m t => match m with | none => some t.deadline | some d => some (min d t.deadline)) m = some d →
      (∀ t ∈ l, d ≤ t.deadline) ∧ (∀ x, m = some x → d ≤ x) := by
    intro l
    induction l with
    | nil => intro m d h; simp at h; exact ⟨by simp, fun x hx => by rw [hx] at h; cases h; exact Nat.le_refl _⟩
    | cons t ts ih =>
      intro m d h
      simp only [List.foldl_cons] at h
      have := ih _ _ h
      refine ⟨?_, ?_⟩
      · intro u hu
        cases List.mem_cons.mp hu with
        | inl e =>
          subst e
          cases m with
          | none => exact this.2 _ rfl
          | some x => exact Nat.le_trans (this.2 _ rfl) (Nat.min_le_right _ _)
        | inr e => exact this.1 u e
      · intro x hx; subst hx; exact Nat.le_trans (this.2 _ rfl) (Nat.min_le_left _ _)
  exact (gen _ _ _ h).1

/-- one firing round of `advance` keeps the connection doomed -/
theorem round_doomed (env : Env) (c : Conn) (s : Sched) (d D : Nat) (hs : c.sched = some s) (hd : s.nextDeadline = some d)
    (h : c.Doomed D) :
    (Conn.fireAll env d (s.takeDue d).2 { c with sched := some (s.takeDue d).1 }).c.Doomed D := by
  have hok := ok_fireAll env d (s.takeDue d).2 { c with sched := some (s.takeDue d).1 }
  cases h with
  | inl dd => exact Or.inl (hok.dead dd)
  | inr w =>
    obtain ⟨t, ht, hb⟩ := w
    simp only [evs, hs] at ht
    by_cases hdue : t.deadline ≤ d
    · have hge := nextDeadline_le s d hd t ht
      have heq : t.deadline = d := Nat.le_antisymm hdue hge
      apply fireAll_doomed env d D t.act _ _ rfl
      · simp only [Sched.takeDue, List.mem_map]
        exact ⟨t, by simp [ht, hdue], rfl⟩
      · rw [tbound_eq, heq] at hb; exact hb
    · have : t ∈ evs ({ c with sched := some (s.takeDue d).1 } : Conn) := by
        simp only [evs, Sched.takeDue]
        apply List.mem_append_left
        simp [ht, hdue]
      exact hok.doomed (Or.inr ⟨t, this, hb⟩)

theorem advance_doomed (env : Env) (T D : Nat) : ∀ (fuel : Nat) (c : Conn), c.Doomed D → (Conn.advance env fuel T c).1.Doomed D := by
  intro fuel
  induction fuel with
  | zero => intro c h; exact h
  | succ n ih =>
    intro c h
    unfold Conn.advance
    cases hs : c.sched with
    | none => exact h
    | some s =>
      simp only []
      cases hd : s.nextDeadline with
      | none => exact h
      | some d =>
        simp only []
        by_cases hle : d ≤ T
        · rw [if_pos hle]
          simp only []
          exact ih _ (round_doomed env c s d D hs hd h)
        · rw [if_neg hle]; exact h

/-- nothing is due any more at `T` -/
def Conn.Settled (c : Conn) (T : Nat) : Prop := ∀ t ∈ evs c, T < t.deadline

instance (c : Conn) (T : Nat) : Decidable (c.Settled T) := by unfold Conn.Settled; infer_instance

/-- **the silence bound**: a connection on which some timer's chain runs out by `D` and that hears nothing is dead once the
    clock has passed `D` — whatever else is pending, however many timers fire on the way -/
theorem silence_bound (env : Env) (fuel T D : Nat) (c : Conn) (h : c.Doomed D) (hT : D ≤ T)
    (hset : (Conn.advance env fuel T c).1.Settled T) : (Conn.advance env fuel T c).1.Dead := by
  cases advance_doomed env T D fuel c h with
  | inl d => exact d
  | inr w =>
    obtain ⟨t, ht, hb⟩ := w
    have h1 : T < t.deadline := hset t ht
    have h2 := deadline_le_tbound (Conn.advance env fuel T c).1.resendLimit (Conn.advance env fuel T c).1.resendTimeout t
    exact absurd (Nat.lt_of_lt_of_le h1 (Nat.le_trans h2 (Nat.le_trans hb hT))) (Nat.lt_irrefl _)

end Nx.L1
