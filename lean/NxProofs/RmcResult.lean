import NxModel.Nex.RmcResult
import NxProofs.RmcServer
/-! proofs about wrongly typed handler results (`NxModel/Nex/RmcResult.lean`) -/
namespace Nx.RmcResult
open Nx Nx.Rmc Nx.RmcServer

/-- the PythonCore code of an encoder exception -/
def pyCode (e : PyExc) : Nat := if e = .typeError then 0x80040002 else 0x80040001

theorem tableCode_cls (e : PyExc) : tableCode e.cls = some (pyCode e) := by
  cases e <;> simp [PyExc.cls, tableCode, pyCode]

theorem cls_ne_base (e : PyExc) : e.cls ≠ .base := by cases e <;> simp [PyExc.cls]

/-! ### the string slot: exactly `None` and encodable, short-enough text -/

theorem string_accepts_iff (v : Val) :
    check .string v = none ↔ v = .atom .none ∨ ∃ cps, v = .atom (.str cps) ∧ textCheck cps = none := by
  cases v with
  | atom a => cases a <;> simp [check, stringCheck]
  | seq k l => simp [check, stringCheck]
  | dict l => simp [check, stringCheck]

/-- anything that is neither `None` nor a `str` is a `TypeError` at a string position (the defect class of
    seed C11-4: an encoder that stringifies instead) -/
theorem string_rejects_non_text (v : Val) (h1 : v ≠ .atom .none) (h2 : ∀ cps, v ≠ .atom (.str cps)) :
    check .string v = some .typeError := by
  cases v with
  | atom a => cases a <;> simp_all [check, stringCheck]
  | seq k l => simp [check, stringCheck]
  | dict l => simp [check, stringCheck]

/-! ### containers propagate the first failure of an element -/

theorem firstSome_append_some {α : Type} (pre : List (Option α)) (x : α) (post : List (Option α))
    (h : ∀ y ∈ pre, y = none) : firstSome (pre ++ some x :: post) = some x := by
  induction pre with
  | nil => simp [firstSome]
  | cons y r ih =>
    have hy : y = none := h y (by simp)
    subst hy
    simp only [List.cons_append, firstSome]
    exact ih (fun z hz => h z (by simp [hz]))

theorem firstSome_none {α : Type} (l : List (Option α)) (h : ∀ y ∈ l, y = none) : firstSome l = none := by
  induction l with
  | nil => rfl
  | cons y r ih =>
    have hy : y = none := h y (by simp)
    subst hy
    simp only [firstSome]
    exact ih (fun z hz => h z (by simp [hz]))

/-- a list / tuple whose elements before `a` are all accepted and whose element `a` is rejected with `x` is
    rejected with `x`, whatever follows -/
theorem list_first_failure (e : Slot) (k : SeqKind) (pre post : List Atom) (a : Atom) (x : PyExc)
    (hpre : ∀ b ∈ pre, check e (.atom b) = none) (ha : check e (.atom a) = some x) :
    check (.list e) (.seq k (pre ++ a :: post)) = some x := by
  simp only [check, iterOf, List.map_append, List.map_cons, ha]
  apply firstSome_append_some
  intro y hy
  obtain ⟨b, hb, rfl⟩ := List.mem_map.mp hy
  exact hpre b hb

theorem list_all_accepted (e : Slot) (k : SeqKind) (l : List Atom) (h : ∀ b ∈ l, check e (.atom b) = none) :
    check (.list e) (.seq k l) = none := by
  simp only [check, iterOf]
  apply firstSome_none
  intro y hy
  obtain ⟨b, hb, rfl⟩ := List.mem_map.mp hy
  exact h b hb

/-- a dict: the first rejected key or value decides (keys before values, items in order) -/
theorem map_first_failure (ks vs : Slot) (pre post : List (Atom × Atom)) (kv : Atom × Atom) (x : PyExc)
    (hpre : ∀ p ∈ pre, check ks (.atom p.1) = none ∧ check vs (.atom p.2) = none)
    (hkv : check ks (.atom kv.1) = some x ∨ (check ks (.atom kv.1) = none ∧ check vs (.atom kv.2) = some x)) :
    check (.map ks vs) (.dict (pre ++ kv :: post)) = some x := by
  have hx : ((check ks (.atom kv.1)).orElse fun _ => check vs (.atom kv.2)) = some x := by
    rcases hkv with h | ⟨h1, h2⟩
    · simp [h]
    · simp [h1, h2]
  simp only [check, List.map_append, List.map_cons, hx]
  apply firstSome_append_some
  intro y hy
  obtain ⟨p, hp, rfl⟩ := List.mem_map.mp hy
  obtain ⟨h1, h2⟩ := hpre p hp
  simp [h1, h2]

/-! ### the property's "wrongly typed" relation is rejected by the encoder model, with the stated class -/

theorem asInt_isIntLike (v : Val) : isIntLike v = (asInt v).isSome := by
  cases v with
  | atom a => cases a <;> rfl
  | seq k l => rfl
  | dict l => rfl

private theorem incompat_int (s : Slot) (lo hi : Int) (v : Val) (c : Exc) (hr : intRange s = some (lo, hi))
    (hne : s ≠ .u8) (hchk : check s v = packInt lo hi v) (h : incompat s v = some c) :
    ∃ e, check s v = some e ∧ e.cls = c := by
  simp only [incompat, hr] at h
  rw [hchk]
  unfold packInt
  cases hv : asInt v with
  | none => simp [hv, hne] at h; exact ⟨.structError, rfl, by simp [PyExc.cls, h]⟩
  | some i =>
    simp only [hv] at h
    by_cases hin : lo ≤ i ∧ i ≤ hi
    · simp [hin] at h
    · simp only [hin, if_false, Option.some.injEq] at h
      exact ⟨.structError, by simp [hin], by simp [PyExc.cls, h]⟩

theorem incompat_sound (s : Slot) (v : Val) (c : Exc) (h : incompat s v = some c) :
    ∃ e, check s v = some e ∧ e.cls = c := by
  cases s with
  | u8 =>
    simp only [incompat, intRange] at h
    simp only [check, packU8]
    cases hv : asInt v with
    | none => simp [hv] at h; exact ⟨.typeError, rfl, by simp [PyExc.cls, h]⟩
    | some i =>
      simp only [hv] at h
      by_cases hin : (0 : Int) ≤ i ∧ i ≤ 255
      · simp [hin] at h
      · simp only [hin, if_false, Option.some.injEq] at h
        exact ⟨.valueError, by simp [hin], by simp [PyExc.cls, h]⟩
  | u16 => exact incompat_int _ _ _ v c rfl (by simp) rfl h
  | u32 => exact incompat_int _ _ _ v c rfl (by simp) rfl h
  | u64 => exact incompat_int _ _ _ v c rfl (by simp) rfl h
  | s8 => exact incompat_int _ _ _ v c rfl (by simp) rfl h
  | s16 => exact incompat_int _ _ _ v c rfl (by simp) rfl h
  | s32 => exact incompat_int _ _ _ v c rfl (by simp) rfl h
  | s64 => exact incompat_int _ _ _ v c rfl (by simp) rfl h
  | pid size8 =>
    cases size8
    · exact incompat_int _ _ _ v c rfl (by simp) (by simp [check]) h
    · exact incompat_int _ _ _ v c rfl (by simp) (by simp [check]) h
  | float =>
    simp only [incompat, intRange] at h
    cases v with
    | atom a => cases a <;> simp_all [isIntLike, check, packFloat, asInt, PyExc.cls]
    | seq k l => simp_all [isIntLike, check, packFloat, asInt, PyExc.cls]
    | dict l => simp_all [isIntLike, check, packFloat, asInt, PyExc.cls]
  | double =>
    simp only [incompat, intRange] at h
    cases v with
    | atom a => cases a <;> simp_all [isIntLike, check, packFloat, asInt, PyExc.cls]
    | seq k l => simp_all [isIntLike, check, packFloat, asInt, PyExc.cls]
    | dict l => simp_all [isIntLike, check, packFloat, asInt, PyExc.cls]
  | bool => simp [incompat, intRange] at h
  | string =>
    simp only [incompat, intRange] at h
    cases v with
    | atom a => cases a <;> simp_all [check, stringCheck, PyExc.cls]
    | seq k l => simp_all [check, stringCheck, PyExc.cls]
    | dict l => simp_all [check, stringCheck, PyExc.cls]
  | buffer =>
    simp only [incompat, intRange] at h
    cases v with
    | atom a => cases a <;> simp_all [check, bufferCheck, PyExc.cls]
    | seq k l => simp at h
    | dict l => simp at h
  | qbuffer =>
    simp only [incompat, intRange] at h
    cases v with
    | atom a =>
      cases a with
      | str cps =>
        by_cases hl : cps.length > 65535
        · simp only [hl, and_self, if_true, Option.some.injEq] at h
          exact ⟨.structError, by simp [check, bufferCheck, hl], by simp [PyExc.cls, h]⟩
        · simp only [hl, and_false, if_false, Option.some.injEq] at h
          exact ⟨.typeError, by simp [check, bufferCheck, hl], by simp [PyExc.cls, h]⟩
      | _ => simp_all [check, bufferCheck, PyExc.cls]
    | seq k l => simp at h
    | dict l => simp at h
  | result =>
    simp only [incompat, intRange] at h
    by_cases hv : v = .atom .result
    · simp [hv] at h
    · simp only [hv, if_false, Option.some.injEq] at h
      exact ⟨.attributeError, by simp [check, hv], by simp [PyExc.cls, h]⟩
  | datetime =>
    simp only [incompat, intRange] at h
    by_cases hv : v = .atom .datetime
    · simp [hv] at h
    · simp only [hv, if_false, Option.some.injEq] at h
      exact ⟨.attributeError, by simp [check, hv], by simp [PyExc.cls, h]⟩
  | stationurl => simp [incompat, intRange] at h
  | variant =>
    simp only [incompat, intRange] at h
    cases v with
    | atom a => cases a <;> simp_all [check, variantCheck, PyExc.cls]
    | seq k l => simp_all [check, variantCheck, PyExc.cls]
    | dict l => simp_all [check, variantCheck, PyExc.cls]
  | anydata =>
    simp only [incompat, intRange] at h
    cases v with
    | atom a => cases a <;> simp_all [check, structCheck, PyExc.cls]
    | seq k l => simp_all [check, structCheck, PyExc.cls]
    | dict l => simp_all [check, structCheck, PyExc.cls]
  | struct =>
    simp only [incompat, intRange] at h
    cases v with
    | atom a => cases a <;> simp_all [check, structCheck, PyExc.cls]
    | seq k l => simp_all [check, structCheck, PyExc.cls]
    | dict l => simp_all [check, structCheck, PyExc.cls]
  | list e =>
    simp only [incompat, intRange] at h
    cases hi : iterOf v with
    | some l => simp [hi] at h
    | none =>
      simp only [hi, Option.isSome_none, Bool.false_eq_true, if_false, Option.some.injEq] at h
      exact ⟨.typeError, by simp [check, hi], by simp [PyExc.cls, h]⟩
  | map ks vs =>
    simp only [incompat, intRange] at h
    cases v with
    | dict l => simp at h
    | atom a =>
      cases hi : iterOf (.atom a) with
      | some l => simp_all [check, PyExc.cls]
      | none => simp_all [check, PyExc.cls]
    | seq k l => simp_all [check, iterOf, PyExc.cls]

/-! ### from the encoder's exception to the response on the wire -/

section wire
variable {servers : Registry} {req : Msg} {m : Nat}

/-- a supported method with response variables whose (otherwise well-typed) result is rejected with `e` at
    one position: the peer gets exactly the error response with the PythonCore code of `e` — never a success,
    never part of the output -/
theorem rejected_result_response (w : ReqWF req m) (hp : regLookup req.protocol servers = some false)
    (srv : Server) (mid : Nat) (mt : Method) (hf : findMethod mid srv.methods = some mt)
    (hs : mt.supported = true) (hr : mt.resp ≠ .none)
    (wh : Where) (s : Slot) (v : Val) (e : PyExc) (obs : Bytes) (he : resultCheck wh s v = some e) :
    react servers req (generatedHandle srv mid none (.returns .good (encOf (resultCheck wh s v) obs)))
      = .sends (specEncode (.failure req.protocol req.callId (pyCode e))) := by
  rw [gen_returns_good srv mid _ mt hf hs, if_neg hr, he]
  exact react_raised w hp e.cls (pyCode e) (tableCode_cls e)

/-- … and an accepted one is answered with the encoder's output -/
theorem accepted_result_response (w : ReqWF req m) (hp : regLookup req.protocol servers = some false)
    (srv : Server) (mid : Nat) (mt : Method) (hf : findMethod mid srv.methods = some mt)
    (hs : mt.supported = true) (hr : mt.resp ≠ .none) (hm : m < 32768)
    (wh : Where) (s : Slot) (v : Val) (obs : Bytes) (hb : obs.length + 12 < 4294967296)
    (he : resultCheck wh s v = none) :
    react servers req (generatedHandle srv mid none (.returns .good (encOf (resultCheck wh s v) obs)))
      = .sends (specEncode (.success req.protocol req.callId m obs)) := by
  rw [gen_returns_good srv mid _ mt hf hs, if_neg hr, he]
  exact react_returned w hp obs hm hb

end wire

theorem resultCheck_inner_incompat (req : Bool) (s : Slot) (v : Val) (c : Exc) (h : incompat s v = some c) :
    ∃ e, resultCheck (.inner req) s v = some e ∧ (e.cls = c ∨ (req = true ∧ v = .atom .none ∧ e = .valueError)) := by
  simp only [resultCheck]
  by_cases hq : req = true ∧ v = .atom .none
  · exact ⟨.valueError, by simp [hq], .inr ⟨hq.1, hq.2, rfl⟩⟩
  · obtain ⟨e, he, hc⟩ := incompat_sound s v c h
    exact ⟨e, by simp [hq, he], .inl hc⟩

theorem resultCheck_top (t : TopType) (s : Slot) (v : Val) :
    (isInstance t v = false → resultCheck (.top t) s v = some .runtimeError) ∧
    (isInstance t v = true → resultCheck (.top t) s v = check s v) := by
  constructor <;> intro h <;> simp [resultCheck, h]

end Nx.RmcResult
