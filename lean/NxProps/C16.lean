import NxProofs.NexKerberos
/-! # C16 — Kerberos tickets round-trip, authenticate, and keys derive per specification -/
namespace Nx.C16
open Nx Nx.Nex Nx.Nex.Kerberos Nx.Crypto

/-- RC4 with the same key twice is the identity (for every key and every data) -/
theorem rc4_involution (key x : Bytes) : rc4 key (rc4 key x) = x := Kerberos.rc4_involution key x

end Nx.C16
