"""C07 — forged acknowledgements COMBINED WITH LOSS of the victims' own packets (set-ups for multi_session.run).

Every packet a PRUDP endpoint has in flight is identified by (type, substream, sequence id), and the ids are predictable (SYN 0,
CONNECT 1, DATA 2, 3, ... on the connecting side, 1, 2, ... on the accepting side). A third party that can write the victim's
peer's address into a datagram therefore can send, towards a client transport or towards the server, packets that NAME the
victim's in-flight packet and carry FLAG_ACK (or an aggregate acknowledgement covering it) without knowing any key: their
signatures are garbage, copied from other packets, or computed with the wrong key / connection signature / access key. Such a
packet must be dropped before it has any effect. The effect it could have is invisible as long as the genuine acknowledgement
arrives as well, so the set-up also LOSES genuine datagrams once (the first transmission of a handshake request, a data packet,
a disconnect request, or of the acknowledgement of one; decided by the datagram's content, hence the same in the reference and
in the attacked run): the victim's retransmission has to repair the loss exactly as in the run without the third party.

`setup(cfg, hostile)` returns the hook for multi_session.run: the loss is installed in both runs, the forging only if `hostile`.
Judged by the twin-run oracles of corr_C07 (reference run: every client completes its handshake and gets every echo; attacked
run: the victims emit the same datagrams at the same instants and receive the same messages)."""
import copy, struct, zlib, random

import multi_session as ms
from sim import quant
from nintendo.nex import prudp

KINDS = {0: "syn", 1: "connect", 2: "data", 3: "disconnect", 4: "ping"}


def _decode(out, sel, data):
    """observation only: decode with the library's decoder, without leaving a trace in the run's decode statistics"""
    n = len(out.decodes)
    try:
        return sel.decode(data)
    except Exception:
        return []
    finally:
        del out.decodes[n:]


def session_keys(spec, seed):
    """the session key of client i (multi_session.client_task draws it first from Random(seed * 31 + i)); b"" without a ticket key"""
    keys = {}
    for i, c in enumerate(spec.clients):
        if spec.key:
            s = spec.settings(c["version"])
            keys[i] = random.Random(seed * 31 + i).randbytes(s["kerberos.key_size"])
        else:
            keys[i] = b""
    return keys


def expected_signature(enc, q, claimed_src, session_key):
    """the signature the receiver's PRUDPClient would accept for q (its remote address is the address q claims to come from)"""
    if q.type == prudp.TYPE_SYN:
        return enc.calc_packet_signature(q, b"", b"")
    consig = enc.calc_connection_signature(claimed_src)
    if q.type == prudp.TYPE_CONNECT:
        return enc.calc_packet_signature(q, b"", consig)
    return enc.calc_packet_signature(q, session_key, consig)


def forge(rng, settings, p, claimed_src, session_key, seen_sigs, session_id, ahead=0):
    """packets that acknowledge the in-flight packet p (as decoded from the victim's datagram), as its addressee would — except
    for the signature, which is never the one the victim would accept. Returns [(label, datagram)]."""
    sel = prudp.PRUDPMessageSelector(settings)
    enc = sel.select(p.version)
    size = enc.signature_size()
    shapes = []
    pid = (p.packet_id + ahead) & 0xFFFF
    for flags in ([prudp.FLAG_ACK, prudp.FLAG_ACK | prudp.FLAG_HAS_SIZE, prudp.FLAG_ACK | prudp.FLAG_RELIABLE]):
        q = copy.copy(p)
        q.flags = flags
        q.source_port, q.source_type, q.dest_port, q.dest_type = p.dest_port, p.dest_type, p.source_port, p.source_type
        q.packet_id = pid
        q.session_id = 0 if p.type == prudp.TYPE_SYN else session_id
        q.payload = b""
        if p.type == prudp.TYPE_SYN:
            q.connection_signature = enc.calc_connection_signature(claimed_src)      # what a SYN/ACK plausibly carries
        elif p.type == prudp.TYPE_CONNECT:
            q.connection_signature = bytes(size)
        shapes.append(("ack" if flags == prudp.FLAG_ACK else "ack+%d" % flags, q))
    if p.type == prudp.TYPE_DATA and p.flags & prudp.FLAG_RELIABLE:
        # aggregate acknowledgements covering the id: old form (base id in the header, further ids in the payload) and new form
        for new in (False, True):
            q = copy.copy(p)
            q.flags = prudp.FLAG_MULTI_ACK
            q.source_port, q.source_type, q.dest_port, q.dest_type = p.dest_port, p.dest_type, p.source_port, p.source_type
            q.session_id = session_id
            q.fragment_id = 0
            if new:
                q.substream_id = 1
                q.packet_id = 0
                q.payload = struct.pack("<BBH", p.substream_id, 2, pid) + struct.pack("<HH", (pid + 1) & 0xFFFF, (pid + 2) & 0xFFFF)
            else:
                q.substream_id = 0
                q.packet_id = pid
                q.payload = struct.pack("<HH", (pid + 1) & 0xFFFF, (pid + 2) & 0xFFFF)
            shapes.append(("multi-ack-new" if new else "multi-ack-old", q))
    label, q = rng.choice(shapes)
    want = expected_signature(enc, q, claimed_src, session_key)
    cands = [("random", rng.randbytes(size)), ("zeros", bytes(size)), ("ones", b"\xff" * size),
             ("of-the-packet-in-flight", (p.signature or b"")[:size].ljust(size, b"\0")),
             ("wrong-session-key", expected_signature(enc, q, claimed_src, rng.randbytes(16))),
             ("no-session-key-attackers-address", enc.calc_packet_signature(q, b"", enc.calc_connection_signature(ms.ATTACKER))),
             ("no-key-at-all", enc.calc_packet_signature(q, b"", b"")),
             ("one-bit-off", bytes(b ^ (1 << rng.randrange(8)) if i == k else b for k in [rng.randrange(size)] for i, b in enumerate(want)))]
    if seen_sigs:
        cands.append(("of-another-genuine-packet", rng.choice(seen_sigs)[:size].ljust(size, b"\0")))
    try:
        s2 = settings.copy()
        s2["prudp.access_key"] = "not the key"
        e2 = prudp.PRUDPMessageSelector(s2).select(p.version)
        cands.append(("wrong-access-key", expected_signature(e2, q, claimed_src, session_key)))
    except Exception:
        pass
    cands = [(l, s) for l, s in cands if s != want and len(s) == size]       # never a signature the victim would be right to accept
    if not cands:
        return []
    sl, sig = rng.choice(cands)
    q.signature = sig
    try:
        return [("%s:%s:%s" % (KINDS.get(p.type, "type%d" % p.type), label, sl), enc.encode(q))]
    except Exception:
        return []


def setup(cfg, hostile):
    """cfg: lose = kinds of genuine packets whose FIRST transmission is lost ("syn", "connect", "data", "disconnect": the request;
    "ack-syn", ...: its acknowledgement), share = percentage of the packets of these kinds that are lost (by content hash),
    per = forged packets per in-flight packet, to = "client" | "server" | "both" (whose in-flight packets are named)."""
    lose = set(cfg.get("lose", ()))
    share = cfg.get("share", 100)
    per = cfg.get("per", 3)
    to = cfg.get("to", "both")

    def attack(sim, out, rng):
        net = sim.net
        out.injected = 0
        out.lost = {}
        out.forged = {}
        sel = prudp.PRUDPMessageSelector(out.settings_s)
        seen = {}
        keys = session_keys(out.spec, out.seed)
        sigs = {}            # sender -> signatures it has used (a third party on the path sees them)
        sids = {}            # (sender, source port) -> its session id
        salt = out.seed.to_bytes(8, "little")

        def fate(tx):
            if tx.src == ms.ATTACKER:
                return [0.0]
            k = seen.get((tx.src, tx.data), 0); seen[(tx.src, tx.data)] = k + 1
            if k == 0 and lose:
                pk = _decode(out, sel, tx.data)
                if len(pk) == 1:
                    p = pk[0]
                    kind = ("ack-" if p.flags & prudp.FLAG_ACK else "") + KINDS.get(p.type, "?")
                    if p.flags & prudp.FLAG_MULTI_ACK:
                        kind = "multi-ack"
                    h = zlib.crc32(tx.data + tx.src[0].encode() + tx.src[1].to_bytes(2, "little") + salt)
                    if kind in lose and h % 100 < share:
                        out.lost[kind] = out.lost.get(kind, 0) + 1
                        return []
            return [quant(0.004)]
        net.fate = fate
        if not hostile:
            return

        def on_tx(tx):
            if tx.src == ms.ATTACKER:
                return
            victim_is_client = tx.src != ms.SERVER
            pk = _decode(out, sel, tx.data)
            for p in pk:
                if p.signature:
                    sigs.setdefault(tx.src, []).append(p.signature)
                if p.type != prudp.TYPE_SYN:
                    sids[(tx.src, p.source_port)] = p.session_id
            if (victim_is_client and to == "server") or (not victim_is_client and to == "client"):
                return
            for p in pk:
                if p.flags & (prudp.FLAG_ACK | prudp.FLAG_MULTI_ACK) or not p.flags & prudp.FLAG_NEED_ACK:
                    continue
                # p is in flight from tx.src to tx.dst: the forged packets claim to come from tx.dst
                caddr = tx.src if victim_is_client else tx.dst
                idx = [i for i, a in out.client_addr.items() if a == caddr]
                sk = keys.get(idx[0], b"") if idx else b""
                sid = sids.get((tx.dst, p.dest_port), rng.randrange(256))
                for j in range(per):
                    ahead = rng.choice([0, 0, 0, 0, 1, 2]) if p.type == prudp.TYPE_DATA else 0
                    for label, data in forge(rng, out.settings_s, p, tx.dst, sk, sigs.get(tx.dst, []), sid, ahead):
                        # while the packet is in flight (before / after its loss is repaired), and at the moment the repair is due
                        d = rng.choice([0.0, 0.001, 0.003, 0.005, 0.02, 0.1, out.spec.resend_timeout - 0.01, out.spec.resend_timeout + 0.002])
                        net.inject(tx.dst, tx.src, data, d)
                        out.injected += 1
                        label = ("to-client:" if victim_is_client else "to-server:") + label
                        out.forged[label] = out.forged.get(label, 0) + 1
        net.on_tx = on_tx
    return attack
