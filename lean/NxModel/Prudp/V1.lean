import NxModel.Prudp.Options
/-!
# PRUDP v1 codec — mirrors `PRUDPMessageV1` encode/decode (prudp.py 296-388)
-/
namespace Nx.Prudp
open Nx

def optBytesVal (b : Option Bytes) : OptVal :=
  match b with
  | some x => .bytes x
  | none => .none

/-- the dict built by `PRUDPMessageV1.encode_options` (insertion order) -/
def v1Options (p : Packet) : Opts :=
  if isSynOrConnect p.type then
    [(OPTION_SUPPORT, .int (pyOr p.minorVersion p.supportedFunctions 8)),
     (OPTION_CONNECTION_SIG, optBytesVal p.connectionSignature)] ++
    (if p.type = 1 then [(OPTION_UNRELIABLE_SEQ_ID, .int p.initialUnreliableId)] else []) ++
    [(OPTION_MAX_SUBSTREAM_ID, .int p.maxSubstreamId)]
  else if p.type = 2 then [(OPTION_FRAGMENT_ID, .int p.fragmentId)]
  else []

def v1EncodeOptions (p : Packet) : Bytes := encodeOptions (v1Options p)

/-- `encode_header(packet, option_size)` -/
def v1EncodeHeader (p : Packet) (optionSize : Nat) : Bytes :=
  u8 1 ++ u8 optionSize ++ u16le p.payload.length ++
  u8 (pyOr p.sourcePort p.sourceType 4) ++ u8 (pyOr p.destPort p.destType 4) ++
  u16le (pyOr p.type p.flags 4) ++ u8 p.sessionId ++ u8 p.substreamId ++ u16le p.packetId

/-- `PRUDPMessageV1.encode` (total) -/
def v1Encode (p : Packet) : Bytes :=
  let options := v1EncodeOptions p
  [0xEA, 0xD0] ++ v1EncodeHeader p options.length ++ p.signature.getD [] ++ options ++ p.payload

/-- exceptions of `encode_header` in evaluation order (option size is at most 31, never an error) -/
def v1HeaderErr (p : Packet) : Option Err :=
  if p.payload.length ≥ 65536 then some .struct
  else if pyOr p.sourcePort p.sourceType 4 ≥ 256 then some .value
  else if pyOr p.destPort p.destType 4 ≥ 256 then some .value
  else if pyOr p.type p.flags 4 ≥ 65536 then some .struct
  else if p.sessionId ≥ 256 then some .value
  else if p.substreamId ≥ 256 then some .value
  else if p.packetId ≥ 65536 then some .struct
  else none

def v1EncodeErr (p : Packet) : Option Err :=
  match encodeOptionsErr (v1Options p) with
  | some e => some e
  | none =>
    match v1HeaderErr p with
    | some e => some e
    | none => if p.signature = none then some .type else none

def v1EncodeChecked (p : Packet) : Except Err Bytes :=
  match v1EncodeErr p with
  | some e => .error e
  | none => .ok (v1Encode p)

/-- `verify_options` -/
def v1VerifyOptions (type : Nat) (o : Opts) : Bool :=
  if type = 0 then o.keysEq [OPTION_SUPPORT, OPTION_CONNECTION_SIG, OPTION_MAX_SUBSTREAM_ID]
  else if type = 1 then
    o.keysEq [OPTION_SUPPORT, OPTION_CONNECTION_SIG, OPTION_UNRELIABLE_SEQ_ID, OPTION_MAX_SUBSTREAM_ID]
  else if type = 2 then o.keysEq [OPTION_FRAGMENT_ID]
  else o.keysEq []

/-- the header fields after the magic: (optionSize, payloadSize, source, dest, typeFlags, session, substream, packetId) -/
structure V1Hdr where
  optionSize : Nat
  payloadSize : Nat
  source : Nat
  dest : Nat
  typeFlags : Nat
  session : Nat
  substream : Nat
  packetId : Nat
  deriving DecidableEq, Repr

/-- magic, `peek(12)`, version byte and the fixed header -/
def v1RdHeader (whole : Bytes) : Except Err (V1Hdr × Bytes) :=
  match rd 2 whole with
  | .error e => .error e
  | .ok (magic, r) =>
    if magic ≠ [0xEA, 0xD0] then .error .value
    else if r.length < 12 then .error .overflow
    else
      match rdU8 r with
      | .error e => .error e
      | .ok (v, r) =>
        if v ≠ 1 then .error .value
        else
          match rdU8 r with
          | .error e => .error e
          | .ok (os, r) =>
          match rdU16 r with
          | .error e => .error e
          | .ok (ps, r) =>
          match rdU8 r with
          | .error e => .error e
          | .ok (source, r) =>
          match rdU8 r with
          | .error e => .error e
          | .ok (dest, r) =>
          match rdU16 r with
          | .error e => .error e
          | .ok (tf, r) =>
          match rdU8 r with
          | .error e => .error e
          | .ok (session, r) =>
          match rdU8 r with
          | .error e => .error e
          | .ok (sub, r) =>
          match rdU16 r with
          | .error e => .error e
          | .ok (pid, r) =>
            .ok ({ optionSize := os, payloadSize := ps, source, dest, typeFlags := tf,
                   session, substream := sub, packetId := pid }, r)

/-- the option-derived fields: (minor, supported, connection signature, max substream, initial unreliable id, fragment id) -/
structure V1OptFields where
  minorVersion : Nat := 0
  supportedFunctions : Nat := 0
  connectionSignature : Option Bytes := none
  maxSubstreamId : Nat := 0
  initialUnreliableId : Nat := 0
  fragmentId : Nat := 0
  deriving DecidableEq, Repr

def v1OptFields (type : Nat) (o : Opts) : Except Err V1OptFields := do
  let f : V1OptFields := {}
  let f ← if isSynOrConnect type then do
      let sup ← o.getInt OPTION_SUPPORT
      let cs ← o.getBytes OPTION_CONNECTION_SIG
      let ms ← o.getInt OPTION_MAX_SUBSTREAM_ID
      pure { f with minorVersion := sup % 256, supportedFunctions := sup / 256,
                    connectionSignature := some cs, maxSubstreamId := ms }
    else pure f
  let f ← if type = 1 then do
      let u ← o.getInt OPTION_UNRELIABLE_SEQ_ID
      pure { f with initialUnreliableId := u }
    else pure f
  if type = 2 then do
    let fr ← o.getInt OPTION_FRAGMENT_ID
    pure { f with fragmentId := fr }
  else pure f

/-- one iteration of the loop of `PRUDPMessageV1.decode` -/
def v1DecodeOne (whole : Bytes) : Except Err (Packet × Bytes) :=
  match v1RdHeader whole with
  | .error e => .error e
  | .ok (h, r) =>
  match rd 16 r with
  | .error e => .error e
  | .ok (sig, r) =>
  match rd h.optionSize r with
  | .error e => .error e
  | .ok (optData, r) =>
  match decodeOptions optData with
  | .error e => .error e
  | .ok opts =>
    let type := h.typeFlags % 16
    if !v1VerifyOptions type opts then .error .value
    else
      match v1OptFields type opts with
      | .error e => .error e
      | .ok f =>
      match rd h.payloadSize r with
      | .error e => .error e
      | .ok (payload, r) =>
        .ok ({ type := type, flags := h.typeFlags / 16, version := some 1,
               sourceType := h.source / 16, sourcePort := h.source % 16,
               destType := h.dest / 16, destPort := h.dest % 16,
               sessionId := h.session, packetId := h.packetId, fragmentId := f.fragmentId,
               substreamId := h.substream, connectionSignature := f.connectionSignature,
               initialUnreliableId := f.initialUnreliableId, maxSubstreamId := f.maxSubstreamId,
               supportedFunctions := f.supportedFunctions, minorVersion := f.minorVersion,
               signature := some sig, payload := payload }, r)

def v1Loop : Nat → Bytes → Except Err (List Packet)
  | 0, _ => .error .other
  | fuel + 1, data =>
    if data.isEmpty then .ok []
    else
      match v1DecodeOne data with
      | .error e => .error e
      | .ok (p, r) =>
        match v1Loop fuel r with
        | .error e => .error e
        | .ok ps => .ok (p :: ps)

/-- `PRUDPMessageV1.decode` -/
def v1Decode (data : Bytes) : Except Err (List Packet) := v1Loop (data.length + 1) data

/-- packets the v1 encoding carries faithfully -/
def V1WF (p : Packet) : Prop :=
  p.version = some 1 ∧
  p.sourceType < 16 ∧ p.sourcePort < 16 ∧ p.destType < 16 ∧ p.destPort < 16 ∧
  p.type < 16 ∧ p.flags < 4096 ∧
  p.sessionId < 256 ∧ p.substreamId < 256 ∧ p.packetId < 65536 ∧
  optLen p.signature 16 ∧ p.payload.length < 65536 ∧
  (if isSynOrConnect p.type then
     p.minorVersion < 256 ∧ p.supportedFunctions < 16777216 ∧ optLen p.connectionSignature 16 ∧
     p.maxSubstreamId < 256
   else p.minorVersion = 0 ∧ p.supportedFunctions = 0 ∧ p.connectionSignature = none ∧ p.maxSubstreamId = 0) ∧
  (if p.type = 1 then p.initialUnreliableId < 65536 else p.initialUnreliableId = 0) ∧
  (if p.type = 2 then p.fragmentId < 256 else p.fragmentId = 0)

instance (p : Packet) : Decidable (V1WF p) := by unfold V1WF; exact inferInstance

end Nx.Prudp
