import NxProofs.KeepAlive
/-! C02: `advance` settles — with positive resend and keep-alive periods every firing round moves the earliest deadline strictly
forward, so `T + 1` rounds are enough to reach an instant-`T` state with nothing due; the `Settled` hypothesis of the silence
bound can be discharged. -/
namespace Nx.L1
open Nx Nx.Prudp

/-- every repeating timer has a positive period -/
def RepPos (c : Conn) : Prop := ∀ t ∈ evs c, ∀ r, t.rep = some r → 0 < r

/-- what a timer task running at instant `d` may add to the timer wheel: one-shot timers due at `d + resend_timeout` -/
structure Sub (d : Nat) (c c' : Conn) : Prop where
  rt : c'.resendTimeout = c.resendTimeout
  some : c.sched.isSome → c'.sched.isSome
  ev : ∀ t ∈ evs c', t ∈ evs c ∨ (t.deadline = d + c.resendTimeout ∧ t.rep = none)

theorem Sub.refl (d : Nat) (c : Conn) : Sub d c c := ⟨rfl, id, fun _ h => Or.inl h⟩

theorem Sub.trans {d : Nat} {a b c : Conn} (h1 : Sub d a b) (h2 : Sub d b c) : Sub d a c := by
  refine ⟨h2.rt.trans h1.rt, fun h => h2.some (h1.some h), ?_⟩
  intro t ht
  cases h2.ev t ht with
  | inl h => exact h1.ev t h
  | inr h => exact Or.inr (by rw [← h1.rt]; exact h)

theorem sub_cleanup (d : Nat) (c : Conn) : Sub d c c.cleanup.c := by
  refine ⟨rfl, ?_, ?_⟩
  · intro h
    simp only [Conn.cleanup, R.ok]
    cases hs : c.sched with
    | none => rw [hs] at h; cases h
    | some s => rfl
  · intro t ht
    simp only [Conn.cleanup, R.ok, evs] at ht
    cases hs : c.sched with
    | none => rw [hs] at ht; cases ht
    | some s => rw [hs] at ht; cases ht

theorem sub_arm (d : Nat) (c : Conn) (p : Packet) (k : Nat) : Sub d c (c.arm d p k) := by
  unfold Conn.arm
  cases hs : c.sched with
  | none => simp only []; exact Sub.refl d c
  | some s =>
    simp only [Sched.schedule]
    refine ⟨rfl, fun _ => rfl, ?_⟩
    intro t ht
    simp only [evs, hs] at ht ⊢
    cases List.mem_append.mp ht with
    | inl h => exact Or.inl h
    | inr h => simp at h; rw [h]; exact Or.inr ⟨rfl, rfl⟩

theorem SameT.sub {c c' : Conn} (d : Nat) (h : SameT c c') : Sub d c c' := by
  refine ⟨h.rt, by rw [h.sched]; exact id, ?_⟩
  intro t ht; simp only [evs, h.sched] at ht; exact Or.inl ht

theorem sub_transmit (env : Env) (d : Nat) (c : Conn) (p : Packet) : Sub d c (c.transmit env d p).c := by
  rcases transmit_cases env d c p with h | h | h
  · rw [h]; exact sub_cleanup d c
  · rw [h.2]; exact Sub.refl d c
  · rw [h.2]; split
    · exact sub_arm d c p 0
    · exact Sub.refl d c

theorem sub_sendPacket (env : Env) (d : Nat) (c : Conn) (p : Packet) : Sub d c (c.sendPacket env d p).c := by
  unfold Conn.sendPacket
  simp only []
  generalize hA : Conn.assignIf c _ _ = ra
  cases ra with
  | error e => exact Sub.refl d c
  | ok v =>
    obtain ⟨pid, c1⟩ := v
    have h1 := (assignIf_sameT _ _ _ _ _ hA).sub d
    simp only []
    generalize hE : Conn.encodeIf env c1 _ _ = re
    cases re with
    | error e => exact h1
    | ok w =>
      obtain ⟨payload, c2⟩ := w
      have h2 := (encodeIf_sameT _ _ _ _ _ _ hE).sub d
      simp only []
      exact (h1.trans h2).trans (sub_transmit env d c2 _)

theorem sub_fireOne (env : Env) (d : Nat) (c : Conn) (a : Action) : Sub d c (c.fireOne env d a).c := by
  have hf : Sub d c (c.fire env d a).c := by
    cases a with
    | resend p k =>
      simp only [Conn.fire, Conn.resendPacket]
      split
      · split
        · exact sub_cleanup d c
        · exact sub_arm d c p (k + 1)
      · exact sub_cleanup d c
    | ping => exact sub_sendPacket env d c _
  unfold Conn.fireOne
  simp only []
  cases (c.fire env d a).err with
  | none => exact hf
  | some e => exact hf.trans (sub_cleanup d _)

theorem sub_fireAll (env : Env) (d : Nat) : ∀ (as : List Action) (c : Conn), Sub d c (Conn.fireAll env d as c).c := by
  intro as
  induction as with
  | nil => intro c; exact Sub.refl d c
  | cons a as ih => intro c; exact (sub_fireOne env d c a).trans (ih _)

/-- after a firing round at `d` (the earliest deadline) nothing is due at `d` any more, and periods stay positive -/
theorem round_fresh (env : Env) (c : Conn) (s : Sched) (d : Nat) (hs : c.sched = some s) (hrt : 0 < c.resendTimeout) (hrp : RepPos c)
    (hmin : ∀ t ∈ s.events, d ≤ t.deadline) :
    (∀ t ∈ evs (Conn.fireAll env d (s.takeDue d).2 { c with sched := some (s.takeDue d).1 }).c, d < t.deadline) ∧
    RepPos (Conn.fireAll env d (s.takeDue d).2 { c with sched := some (s.takeDue d).1 }).c ∧
    (Conn.fireAll env d (s.takeDue d).2 { c with sched := some (s.takeDue d).1 }).c.resendTimeout = c.resendTimeout ∧
    (Conn.fireAll env d (s.takeDue d).2 { c with sched := some (s.takeDue d).1 }).c.sched.isSome := by
  have hsub := sub_fireAll env d (s.takeDue d).2 { c with sched := some (s.takeDue d).1 }
  have hbase : ∀ t ∈ evs ({ c with sched := some (s.takeDue d).1 } : Conn), d < t.deadline ∧ (∀ r, t.rep = some r → 0 < r) := by
    intro t ht
    simp only [evs, Sched.takeDue] at ht
    cases List.mem_append.mp ht with
    | inl h =>
      have hf := List.mem_filter.mp h
      have hin : t ∈ evs c := by simp only [evs, hs]; exact hf.1
      have hnd : ¬ t.deadline ≤ d := by have := hf.2; simpa using this
      exact ⟨Nat.lt_of_not_le hnd, hrp t hin⟩
    | inr h =>
      obtain ⟨t0, h0, he⟩ := List.mem_filterMap.mp h
      have hf := List.mem_filter.mp h0
      have hin : t0 ∈ evs c := by simp only [evs, hs]; exact hf.1
      have hge : d ≤ t0.deadline := hmin t0 hf.1
      cases hr : t0.rep with
      | none => rw [hr] at he; cases he
      | some r =>
        rw [hr] at he
        simp only [Option.map] at he
        have hpos : 0 < r := hrp t0 hin r hr
        have het : t = { handle := t0.handle, deadline := t0.deadline + r, rep := some r, act := t0.act } := (Option.some.inj he).symm
        rw [het]
        refine ⟨?_, ?_⟩
        · show d < t0.deadline + r
          exact Nat.lt_of_le_of_lt hge (Nat.lt_add_of_pos_right hpos)
        · intro r' hr'
          have : some r = some r' := hr'
          cases this
          exact hpos
  refine ⟨?_, ?_, hsub.rt, hsub.some rfl⟩
  · intro t ht
    cases hsub.ev t ht with
    | inl h => exact (hbase t h).1
    | inr h => rw [h.1]; exact Nat.lt_add_of_pos_right hrt
  · intro t ht r hr
    cases hsub.ev t ht with
    | inl h => exact (hbase t h).2 r hr
    | inr h => rw [h.2] at hr; cases hr

/-- **`advance` settles**: with a positive resend period and positive repeat periods, `T + 1 - lo` rounds suffice when nothing is
    due before `lo` -/
theorem advance_settles (env : Env) (T : Nat) : ∀ (fuel : Nat) (c : Conn) (lo : Nat), 0 < c.resendTimeout → RepPos c →
    (∀ t ∈ evs c, lo ≤ t.deadline) → T + 1 ≤ lo + fuel → (Conn.advance env fuel T c).1.Settled T := by
  intro fuel
  induction fuel with
  | zero =>
    intro c lo _ _ hlo hf t ht
    have := hlo t ht
    have h2 : T + 1 ≤ lo := hf
    exact Nat.lt_of_lt_of_le (Nat.lt_of_succ_le h2) this
  | succ n ih =>
    intro c lo hrt hrp hlo hf
    unfold Conn.advance
    cases hs : c.sched with
    | none => intro t ht; simp only [evs, hs] at ht; cases ht
    | some s =>
      simp only []
      cases hd : s.nextDeadline with
      | none =>
        -- no timer at all
        intro t ht
        simp only [evs, hs] at ht
        have : s.events = [] := by
          cases he : s.events with
          | nil => rfl
          | cons x xs =>
            unfold Sched.nextDeadline at hd; rw [he] at hd
            simp only [List.foldl_cons] at hd
            exfalso
            have key : ∀ (l : List Timer) (m : Time), l.foldl (fun m t => match m with | none => some t.deadline | some d => some (min d t.deadline)) (some m) ≠ none := by
              intro l
              induction l with
              | nil => intro m h; cases h
              | cons y ys ihl => intro m; simp only [List.foldl_cons]; exact ihl _
            exact key xs _ hd
        rw [this] at ht; cases ht
      | some d =>
        simp only []
        have hmin := nextDeadline_le s d hd
        by_cases hle : d ≤ T
        · rw [if_pos hle]; simp only []
          have hr := round_fresh env c s d hs hrt hrp hmin
          apply ih _ (d + 1) (by rw [hr.2.2.1]; exact hrt) hr.2.1 (fun t ht => hr.1 t ht)
          -- lo ≤ d because some timer has deadline d ... not needed: T + 1 ≤ (d + 1) + n follows from lo ≤ d + ... ; use d ≥ lo
          have hdlo : lo ≤ d := by
            -- the minimum is attained: nextDeadline is the deadline of some timer
            have : ∃ t ∈ s.events, t.deadline = d := by
              have gen : ∀ (l : List Timer) (m : Option Time) (d : Time),
                  l.foldl (fun m t => match m with | none => some t.deadline | some d => some (min d t.deadline)) m = some d →
                  (∃ t ∈ l, t.deadline = d) ∨ m = some d := by
                intro l
                induction l with
                | nil => intro m d h; exact Or.inr h
                | cons y ys ihl =>
                  intro m d h
                  simp only [List.foldl_cons] at h
                  cases ihl _ _ h with
                  | inl h1 => obtain ⟨t, ht, he⟩ := h1; exact Or.inl ⟨t, List.mem_cons_of_mem _ ht, he⟩
                  | inr h1 =>
                    cases m with
                    | none => simp only [] at h1; exact Or.inl ⟨y, List.mem_cons_self, Option.some.inj h1⟩
                    | some x =>
                      simp only [] at h1
                      have hx := Option.some.inj h1
                      by_cases hxy : x ≤ y.deadline
                      · rw [Nat.min_eq_left hxy] at hx; exact Or.inr (by rw [hx])
                      · rw [Nat.min_eq_right (Nat.le_of_lt (Nat.lt_of_not_le hxy))] at hx
                        exact Or.inl ⟨y, List.mem_cons_self, hx⟩
              cases gen s.events none d hd with
              | inl h => exact h
              | inr h => cases h
            obtain ⟨t, ht, he⟩ := this
            have := hlo t (by simp only [evs, hs]; exact ht)
            rw [he] at this; exact this
          omega
        · rw [if_neg hle]
          intro t ht
          simp only [evs, hs] at ht
          exact Nat.lt_of_lt_of_le (Nat.lt_of_not_le hle) (hmin t ht)

/-- the silence bound without the `Settled` hypothesis: `T + 1` rounds of `advance` are enough -/
theorem silence_bound_total (env : Env) (T D : Nat) (c : Conn) (h : c.Doomed D) (hT : D ≤ T)
    (hrt : 0 < c.resendTimeout) (hrp : RepPos c) : (Conn.advance env (T + 1) T c).1.Dead :=
  silence_bound env (T + 1) T D c h hT
    (advance_settles env T (T + 1) c 0 hrt hrp (fun _ _ => Nat.zero_le _) (by omega))

theorem serve_reppos (c : Conn) (now : Time) (h : 0 < c.pingTimeout) : RepPos (c.serve now) := by
  intro t ht r hr
  simp only [evs, Conn.serve, Sched.repeat] at ht
  simp at ht
  rw [ht] at hr
  cases hr
  exact h

end Nx.L1
