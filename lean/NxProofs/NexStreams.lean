import NxModel.Nex.Streams
import NxProofs.Bytes
import NxProofs.Bits
/-! round-trip lemmas for the NEX stream primitives -/
namespace Nx.Nex
open Nx

end Nx.Nex
