"""Reproduction (unchanged tree, found by `VERIF_SEED=2 ./check C07 --tier thorough`, family "multiport", stream transport):
one client transport holds a connection to each of the server's ports 1 and 31; both disconnect at the same instant. The server
acknowledges every DISCONNECT three times. The stream delivers the six acknowledgements in several reads; the connection on the
first port is finished (and its local port UNBOUND) after the first read, so the third copy of its acknowledgement, which opens
the last read, raises "Port is not bound" in PRUDPClientTransport.process_packet - and the exception barrier of process_data
drops the REST of that read: all three acknowledgements of the OTHER connection's DISCONNECT. That connection retransmits its
DISCONNECT until the resend limit (the server side is gone already) and ends by time-out instead of being closed.

    /venv/bin/python /verif/harness/c07_dupack_unbound_repro.py
"""
import sys, os
sys.path.insert(0, os.path.dirname(os.path.abspath(__file__)))
if os.environ.get("NX_REPO"):
    sys.path.insert(0, os.environ["NX_REPO"])
import multi_session as ms, c07_multiport as mpo
from nintendo.nex import prudp

spec = ms.Spec(**{"transport": "lite", "server_version": 1, "vports": [1, 31], "unbound": [2, 30], "groups": [{"version": 1, "vports": [31, 1]}]})
att = mpo.run(spec, 4000767572, {"aggregate": True, "splice": "behind", "third": True, "rechunk": True})
for b in mpo.judge(att):
    print("JUDGE", b[0], b[1][:260])
dec = {}
def show(d, key):
    m = dec.setdefault(key, prudp.PRUDPLiteMessage(att.settings_s))
    try:
        return [("type %d flags %d ports %d->%d id %d" % (p.type, p.flags, p.source_port, p.dest_port, p.packet_id)) for p in m.decode(d)] + (["+%d bytes buffered" % len(m.buffer)] if m.buffer else [])
    except Exception as e:
        m.buffer = b""
        return "ERR %s" % e
print("reads of the client transport / writes of the client transport from t = 1.4 s:")
for e in att.netlog:
    if e[0] == "sread" and e[1] > 1.4 and e[2][0] == "10.0.0.2":
        print("  read  t=%.6f %3d bytes %s" % (e[1], len(e[4]), show(e[4], ("r", e[2], e[3]))))
    if e[0] == "swrite" and e[1] > 1.4 and e[2][0] == "10.0.0.2":
        print("  WRITE t=%.6f %3d bytes %s" % (e[1], len(e[4]), show(e[4], ("w", e[2], e[3]))))
