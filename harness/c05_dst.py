"""C05 — the 120 s ticket lifetime with the server's TIME ZONE as an axis, daylight-saving transitions included
(virtual time, real client and real keyed server; the real code only is judged).

A ticket carries a LOCAL wall-clock DateTime (year..second, no offset, no fold); the property speaks about REAL elapsed time:
a connection request whose ticket was issued more than 120 s of real time ago creates no connection — in every zone, on both
sides of and inside the hour that the wall clock repeats when daylight saving ends and the hour it skips when it starts.

One scenario = one process-wide zone (TZ, time.tzset()), one keyed server, the virtual clock placed at `base` (an absolute instant
close to a transition of that zone, or in the middle of the DST / of the standard season), and many independent real clients:
step (off, age) = at instant base+off a real client (own address) presents a ticket issued `age` s of REAL time before (stamped by
the issuer of the same process with DateTime.fromtimestamp, as the authentication server of the repository does), with its own user id.

Oracle (real code; nothing white-box decides a verdict):
  * real age > 120 s: no handler invocation for that user, the client's handshake fails;
  * real age <= 119 s and the wall-clock stamp of the issue instant is NOT the second pass of a repeated hour (PEP 495 fold = 0):
    admitted — the handler runs exactly once, observes exactly the ticket's user id, the echo flows;
  * real age <= 119 s and the stamp IS a second pass (fold = 1; the stamp cannot tell the passes apart): not judged, counted
    (`fresh_in_fold_admitted` / `fresh_in_fold_refused`) — refusing a fresh ticket does not contradict the property's 'only if';
  * whatever is admitted observes its ticket's user id, once.
"""
import datetime, os, random, time, traceback
import anyio
import prudp_session as ps
from sim import Sim, Deadlock, quant
from nintendo.nex import prudp, kerberos, common

SERVER = ps.SERVER
SERVER_KEY = b"server key"
ENCODINGS = {"v1": ("udp", 1), "v0": ("udp", 0), "lite": ("lite", 1)}

# POSIX rule strings (no tz database needed) and tz database names (used only if the database has them)
ZONES = [
    "CET-1CEST,M3.5.0,M10.5.0/3",                 # central Europe
    "EST5EDT,M3.2.0,M11.1.0",                     # America/New_York rules
    "AEST-10AEDT,M10.1.0,M4.1.0/3",               # Sydney: southern hemisphere, DST over new year
    "NZST-12NZDT,M9.5.0,M4.1.0/3",                # +12/+13
    "GMT0BST,M3.5.0/1,M10.5.0",                   # offset 0 in winter
    "LHST-10:30LHDT-11,M10.1.0,M4.1.0",           # Lord Howe: the clock moves by 30 minutes only
    "NST3:30NDT,M3.2.0,M11.1.0",                  # Newfoundland: -3:30 / -2:30
    "<-03>3<-02>,M3.5.0/-2,M10.5.0/-1",           # west Greenland: transition at a negative local hour
    "America/New_York", "Europe/Berlin", "Australia/Lord_Howe", "Europe/Dublin", "America/Santiago", "Pacific/Chatham",
    "Africa/Casablanca",
]


def set_tz(tz):
    os.environ["TZ"] = tz
    time.tzset()


def gmtoff(t):
    return time.localtime(t).tm_gmtoff


def zone_usable(tz):
    return "," in tz or "/" not in tz or os.path.exists(os.path.join("/usr/share/zoneinfo", tz))


def transitions(tz, year):
    """[(instant, offset before, offset after)] of zone `tz` between 1 Jan `year` and 1 Jan `year`+1 (UTC); leaves TZ set to tz"""
    set_tz(tz)
    t0 = int(datetime.datetime(year, 1, 1, tzinfo=datetime.timezone.utc).timestamp())
    t1 = int(datetime.datetime(year + 1, 1, 1, tzinfo=datetime.timezone.utc).timestamp())
    out = []
    t, o = t0, gmtoff(t0)
    while t < t1:
        n = t + 6 * 3600
        on = gmtoff(n)
        if on != o:
            lo, hi = t, n                      # gmtoff(lo) == o, gmtoff(hi) != o
            while hi - lo > 1:
                mid = (lo + hi) // 2
                if gmtoff(mid) == o: lo = mid
                else: hi = mid
            out.append((hi, o, gmtoff(hi)))
            n, on = hi, gmtoff(hi)
        t, o = n, on
    return out


def make_ticket(s, sk, pid, issued):
    t = kerberos.ServerTicket()
    t.timestamp = common.DateTime.fromtimestamp(issued)
    t.source = pid
    t.session_key = sk
    ct = kerberos.ClientTicket()
    ct.session_key = sk
    ct.target = 1001
    ct.internal = t.encrypt(SERVER_KEY, s)
    return kerberos.Credentials(ct, pid, 2000)


def run_case(spec):
    """spec: dict(tz, base, steps=[(off, age)], enc, pid_size, key_size, ticket_version, seed, name, where) -> (bad, facts)"""
    set_tz(spec["tz"])
    transport, version = ENCODINGS[spec["enc"]]
    cfg = ps.Cfg(transport=transport, version=version, credentials=True, pid_size=spec.get("pid_size", 4), key_size=spec.get("key_size", 32),
                 ticket_version=spec.get("ticket_version", 0), fragment_size=50, resend_timeout=0.5, resend_limit=1, ping_timeout=2.0)
    bound = cfg.ping_timeout + (cfg.resend_limit + 1) * cfg.resend_timeout
    rng = random.Random(spec.get("seed", 0))
    base = int(spec["base"])
    steps = [(float(o), int(a)) for (o, a) in spec["steps"]]
    bad, facts = [], {"admitted": 0, "refused": 0, "fresh_in_fold_admitted": 0, "fresh_in_fold_refused": 0, "judged_stale": 0, "judged_fresh": 0,
                      "fold_examples": []}
    t_first = min(o for o, _ in steps)
    with Sim(spec.get("seed", 0) & 0xFFFF, epoch=float(base + int(t_first))) as sim:      # the virtual clock starts at base + t_first
        s = cfg.settings()
        sim.install_factories()
        sim.net.fate = lambda tx: [0.004]
        inv = {}                 # user id -> handler invocations
        top = 2 ** (8 * cfg.pid_size) - 1
        pid0 = rng.choice([1000, 3, top - len(steps) - 1, 0x12345600])

        async def handler(client):
            pid = client.pid()
            inv.setdefault(pid, []).append(sim.now())
            try:
                while True:
                    d = await client.recv()
                    await client.send(b"echo:" + d)
            except anyio.EndOfStream:
                pass
            except Exception:
                pass

        results = {}

        async def one(k, off, age):
            await anyio.sleep(max(0.0, quant(off - t_first + 0.25 - sim.now())))
            now_abs = sim.clock.time()
            issued = int(now_abs) - age
            pid = pid0 + k
            creds = make_ticket(s, rng.randbytes(cfg.key_size), pid, issued)
            completed, echo = False, None
            try:
                async with prudp.connect(s, SERVER[0], SERVER[1], credentials=creds) as c:
                    completed = True
                    try:
                        await c.send(b"hi")
                        with anyio.fail_after(quant(bound + 3)):
                            echo = await c.recv()
                    except BaseException as e:
                        if isinstance(e, (KeyboardInterrupt, SystemExit)): raise
                        echo = "failed:" + repr(e)[:60]
            except BaseException as e:
                if isinstance(e, (KeyboardInterrupt, SystemExit)): raise
                if completed and echo is None:
                    echo = "failed:" + repr(e)[:60]
            results[k] = (now_abs, issued, pid, completed, echo, sim.clock.time())

        async def main():
            async with prudp.serve_transport(s, SERVER[0], SERVER[1]) as tr:
                async with tr.serve(handler, 1, 10, SERVER_KEY):
                    stream = tr.ports.get(1, 10)
                    async with anyio.create_task_group() as tg:
                        for k, (off, age) in enumerate(steps):
                            tg.start_soon(one, k, off, age)
                    await anyio.sleep(quant(2 * bound + 2))
                    facts["table_end"] = len(stream.clients)

        async def guarded():
            span = max(o for o, _ in steps) - t_first
            with anyio.move_on_after(span + 60 * bound + 600) as scope:
                await main()
            facts["timed_out"] = scope.cancelled_caught

        try:
            sim.run(guarded())
        except Deadlock as e:
            bad.append("the scenario deadlocked: %s" % e)
        if facts.get("timed_out"):
            bad.append("the scenario did not finish in its (virtual) time")
        for k, (off, age) in enumerate(steps):
            if k not in results:
                continue
            now_abs, issued, pid, completed, echo, t_end = results[k]
            real_age = now_abs - issued
            stamp = datetime.datetime.fromtimestamp(issued)
            nowl = datetime.datetime.fromtimestamp(now_abs)
            ran = inv.get(pid, [])
            where = "zone %s, server clock %s local (utc offset %+d s%s), ticket stamped %s local (utc offset %+d s%s), issued %g s of real time before it was shown [%s, step %d: base %d %+g s, age %d s]" % (
                spec["tz"], nowl.strftime("%Y-%m-%d %H:%M:%S"), gmtoff(now_abs), ", second pass of a repeated hour" if nowl.fold else "",
                stamp.strftime("%Y-%m-%d %H:%M:%S"), gmtoff(issued), ", second pass of a repeated hour" if stamp.fold else "", real_age, spec.get("where", ""), k, base, off, age)
            if ran or completed: facts["admitted"] += 1
            else: facts["refused"] += 1
            if len(ran) > 1:
                bad.append("%s: one connection request, %d handler invocations" % (where, len(ran)))
            if real_age > 120.0 + 0.75:
                facts["judged_stale"] += 1
                if ran:
                    bad.append("%s: older than 120 s, yet the server created a connection and ran the handler, which observed user id %r" % (where, pid))
                if completed:
                    bad.append("%s: older than 120 s, yet the client's handshake completed (message answered: %r)" % (where, echo))
            elif real_age <= 119.5:
                if stamp.fold:
                    facts["fresh_in_fold_admitted" if (ran and completed) else "fresh_in_fold_refused"] += 1
                    if len(facts["fold_examples"]) < 3:
                        facts["fold_examples"].append({"stamp": stamp.strftime("%Y-%m-%d %H:%M:%S"), "real_age": real_age, "admitted": bool(ran and completed)})
                else:
                    facts["judged_fresh"] += 1
                    if not (len(ran) == 1 and completed and echo == b"echo:hi"):
                        bad.append("%s: a holder of a valid fresh ticket (wall-clock stamp unambiguous) was not admitted (handler invocations %d, handshake %s, message %r)"
                                   % (where, len(ran), completed, echo))
            if completed and not ran:
                bad.append("%s: the client's handshake completed although no handler ran for the ticket's user %r (handlers ran for %r)" % (where, pid, sorted(inv)[:5]))
        stray = sorted(set(inv) - {results[k][2] for k in results})
        if stray:
            bad.append("zone %s: handlers observed user ids %r that no ticket of the scenario was issued to" % (spec["tz"], stray[:5]))
        if facts.get("table_end"):
            bad.append("zone %s: %d entries left in the server's table after every client has gone" % (spec["tz"], facts["table_end"]))
    return bad, facts


def work(spec):
    try:
        bad, facts = run_case(spec)
        return spec, bad, facts, None
    except Exception:
        return spec, [], {}, traceback.format_exc()
    finally:
        set_tz("UTC0")


def stamp_points(args):
    """the real stamp functions at instants around one rule change: [(u, DateTime.fromtimestamp(u).value(), DateTime(value).timestamp() | error name)]"""
    tz, T, d, seed = args
    try:
        set_tz(tz)
        rng = random.Random(seed)
        us = sorted(set([T + k for k in (-2 * d - 300, -d - 121, -d - 1, -d, -d + 1, -121, -120, -1, 0, 1, 119, 120, 121, d - 121, d - 1, d, d + 1, d + 121, 2 * d, 2 * d + 300)]
                        + [T + rng.randrange(-2 * d - 400, 2 * d + 400) for _ in range(60)]))
        out = []
        for u in us:
            v = common.DateTime.fromtimestamp(u).value()
            try:
                back = common.DateTime(v).timestamp()
            except Exception as e:
                back = type(e).__name__
            out.append((u, v, back))
        return tz, T, out, None
    except Exception:
        return tz, T, [], traceback.format_exc()
    finally:
        set_tz("UTC0")


def grid(d):
    """offsets around a transition whose wall clock moves by d seconds, and real ticket ages (fresh, and 10 min .. 2 h and around d, 2d)"""
    offs = sorted(set([-2 * d - 300, -d - 125, -d - 1, -d + 60, -(d // 2), -125, -119, -60, -2, -1, 0, 1, 60, 119, 121, 125, d // 2, d - 125, d - 60, d - 1, d,
                       d + 1, d + 60, d + 119, d + 125, d + d // 2, 2 * d - 1, 2 * d + 1, 2 * d + 125, 2 * d + 300]))
    ages = sorted(set([0, 60, 119, 121, 125, 600, 1200, 1800, 2700, 3600, 5400, 7200, d - 125, d - 60, d - 1, d, d + 1, d + 60, d + 119, d + 121, d + 125, d + 600,
                       2 * d - 1, 2 * d, 2 * d + 60, 2 * d + 121]))
    return offs, [a for a in ages if a >= 0]


def cases(rng, quick):
    """the parent's TZ is left at UTC0"""
    out = []
    zones = [z for z in ZONES if zone_usable(z)]
    encs = ("v1", "v0", "lite")
    n = 0
    core = set(zones[:3] + [z for z in zones if z.startswith("LHST")] + [rng.choice([z for z in zones if "," not in z] or zones)])
    try:
        for zi, tz in enumerate(zones):
            year = rng.choice([2021, 2023, 2024, 2026, 2029])
            trs = transitions(tz, year)
            for ti, (T, o0, o1) in enumerate(trs):
                d = abs(o1 - o0)
                if d == 0 or d > 2 * 3600:
                    continue
                kind = "end of DST (the wall clock repeats %d s)" % d if o1 < o0 else "start of DST (the wall clock skips %d s)" % d
                offs, ages = grid(d)
                pairs = [(o, a) for o in offs for a in ages]
                # random instants and ages besides the grid
                pairs += [(rng.randrange(-2 * d - 400, 2 * d + 400), rng.choice([rng.randrange(0, 119), rng.randrange(122, 2 * d + 600)])) for _ in range(40 if quick else 400)]
                rng.shuffle(pairs)
                if quick:
                    # core zones: every (offset, age) pair of the grid is visited in one encoding (rotating), split over scenarios of ~200 clients;
                    # the other zones: a random quarter of the pairs
                    if tz in core:
                        chunks = [pairs[i::4] for i in range(4)]
                    else:
                        chunks = [pairs[:len(pairs) // 4]]
                    plan = [(encs[(zi + ti + j) % 3], ch) for j, ch in enumerate(chunks)]
                else:
                    plan = [(e, pairs[i::3]) for e in encs for i in range(3)]
                for enc, ch in plan:
                    n += 1
                    out.append(dict(name="dst-transition", tz=tz, base=T, steps=sorted(ch), enc=enc, pid_size=rng.choice([4, 8]), key_size=rng.choice([16, 32]),
                                    ticket_version=rng.choice([0, 1]), seed=rng.getrandbits(32), where="%s at %d, year %d" % (kind, T, year), change=(T, o0, o1)))
            # the middle of each season (far from any transition): the offset in force differs from the zone's January / standard offset
            if trs:
                bounds = [trs[0][0] - 60 * 86400] + [t for t, _, _ in trs] + [trs[-1][0] + 60 * 86400]
                for j in range(len(bounds) - 1):
                    mid = (bounds[j] + bounds[j + 1]) // 2 + rng.randrange(-86400, 86400)
                    ages = [0, 60, 119, 121, 125, 600, 1800, 3480, 3540, 3599, 3600, 3601, 3660, 3719, 3721, 3725, 5400, 7200, 7319, 7325, 86400, 86400 + 3600]
                    steps = [(10 * k, a) for k, a in enumerate(ages)]
                    out.append(dict(name="dst-season", tz=tz, base=mid, steps=steps, enc=encs[(zi + j) % 3], pid_size=rng.choice([4, 8]), key_size=rng.choice([16, 32]),
                                    ticket_version=rng.choice([0, 1]), seed=rng.getrandbits(32), where="middle of a season (utc offset %+d s), year %d" % (gmtoff(mid), year)))
    finally:
        set_tz("UTC0")
    return out


if __name__ == "__main__":
    import sys
    rng = random.Random(int(sys.argv[1]) if len(sys.argv) > 1 else 0)
    cs = cases(rng, True)
    t0 = time.time()
    tot = {}
    for c in cs:
        t1 = time.time()
        spec, bad, facts, err = work(c)
        for k, v in facts.items():
            if isinstance(v, int): tot[k] = tot.get(k, 0) + v
        print(c["name"], c["tz"], c["enc"], c["where"], len(c["steps"]), "steps ->", {k: v for k, v in facts.items() if k != "fold_examples"}, "%.2fs" % (time.time() - t1),
              "BAD %d" % len(bad) if bad else "", bad[:2], err or "")
    print(len(cs), "scenarios", sum(len(c["steps"]) for c in cs), "requests", tot, time.time() - t0, "s")
