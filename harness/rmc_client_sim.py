"""Scripted runs of the real `nintendo.nex.rmc.RMCClient` (client side: request/start/cleanup)
over a fake PRUDP client object, inside an anyio task group on asyncio.

A scenario is JSON-able: {"start_id": int, "steps": [step, ...]} with steps
  ["start", noresp(0|1), send_yields]   start a task that calls client.request(...)
  ["start", noresp, send_yields, opts]  the same with options (a dict): "method" / "protocol" = the method / protocol id handed to
                                        request() (defaults 1 / 10; a peer that answers the request message echoes them as a
                                        conforming peer does: method word = method | 0x8000); "gate": 1 = the transport's send()
                                        of this request stays suspended (back pressure / a socket that does not drain) until
                                        a "release" / "fail" / "cancel" step names the task; "fail_now": [exc, delivered] = send()
                                        raises at once, without suspending
  ["release", task]                     the suspended send() of that task completes normally
  ["fail", task, exc, delivered]        the suspended send() of that task raises exc ("os" ConnectionResetError | "broken"
                                        anyio.BrokenResourceError | "closed" anyio.ClosedResourceError | "custom" an application
                                        exception); delivered = 1: the datagram had reached the peer before the failure (the
                                        peer answers it if the script says so), 0: it never arrives
  ["cancel", task, delivered]           the cancel scope around that task's request() is cancelled (a timeout, a task group
                                        going down), wherever the task is suspended: inside send() (gate, send lock, slow send)
                                        or waiting for its response
  ["yield", n]                          the director yields n times (asyncio loop iterations)
  ["resp", call_id, "ok"|"err", serial] the peer's next datagram: a response carrying call_id
  ["resp", call_id, kind, serial, word] the same, the method word of a success response being `word`
  ["ans", task, kind, serial, how]      `ans` with the method word "std" = method | 0x8000 (conforming) | "same" = the request's
                                        method as it came | "other" = 0x8001
  ["ans", task, kind, serial]           the peer answers the REQUEST MESSAGE that task `task` sent (one-way requests
                                        included): a response echoing the call id that request carried, whose body /
                                        error code names the task (skipped when that task has not sent anything)
  ["churn", n, pattern, batch, order]   n further call ids are consumed by short-lived traffic, `batch` requests at a time (see Conn.churn):
                                        pattern letters 'c' call answered ok | 'e' call answered with an error | 'o' one-way request |
                                        'O' one-way request the peer answers all the same; answers by addressee, "fifo" | "lifo"
  ["strays", ids, kinds, gap]           len(ids) responses nobody waits for in a row (see Conn.strays): ids = [id, ...] | ["range", first,
                                        count, step]; kinds letters 'k' ok | 'z' ok, empty body | 'e' error | 'n' error without bit 31;
                                        gap = loop iterations between two of them (0 = one burst)
  ["raw", hex]                          the peer's next datagram (any bytes)
  ["req", protocol, method, call_id]    the peer's next datagram: a request (no server registered)
  ["preq", protocol, method, call_id, serial]
                                        the peer's next datagram: a REQUEST of its own, body P<call_id>.<serial>, to the
                                        server registered under `protocol` (server i has PROTOCOL_ID 0x50+i) or to
                                        nobody; `method` tells the server's handle() what to do (see FakeServer.handle):
                                        method & 15 = 1 return b"ack:"+body | 2 raise RMCError | 3 TypeError | 4 KeyError |
                                        5 ValueError, (method >> 4) & 15 = loop iterations it takes first (the receive
                                        loop is suspended in the handler meanwhile). The call id is the peer's own
                                        numbering: it may equal the id of one of our outstanding calls.
  ["eof"]                               the peer closes: recv() raises anyio.EndOfStream
  ["close"] | ["disconnect"] | ["cleanup"]   local closure via RMCClient.close()/disconnect()/__aexit__
Optional scenario keys:
  "send_lock": 1           the transport serialises send() with an anyio.Lock (as PRUDPClient.send does per substream): while
                           one send is suspended inside the lock the later senders are suspended in send() too, queued
                           for the lock, their calls already registered
  "final_yields": k        extra loop iterations before the final snapshot
  "servers": [hook, ...]   protocol servers handed to RMCClient.start(); hook = what `logout(client)` does:
                           ["ret"] | ["yret", k] (k loop iterations, then returns) | ["raise"] | ["yraise", k] |
                           ["idle"] (returns once no call is outstanding on the connection) | ["forever"]
  "spawn_close": 1         every local closure runs in a task of its own (as a real owner would: the director
                           must not depend on the closure returning)
  "reply_yields": k        the transport's send() of anything that is not a caller's request (the answers to the peer's
                           requests) takes k loop iterations
Log lines of the hooks: `hookret` / `hookraise` at the moment a logout hook returns / raises; of the request handlers:
`handlerret 1` / `handlerret 0` at the moment a server's handle() returns / raises. `sim.dispatches` = every entry of a
handle() (op index, server, method, body it was given); `sim.sends_at` = everything the client sent that is not a
caller's request (op index, datagram): the answers to the peer's requests.
`abort <t>` = the request() of task t, registered and suspended (inside send() or waiting for its response), ended with an
exception / a cancellation injected by the scenario instead of resuming from its event.
Every atomic section that the model has an op for appends one line to the op log *at the moment
it happens*; asyncio runs the code between two awaits atomically, so the log order is the real
interleaving. The log is what the Lean model replays.
"""
import collections, contextvars, logging, re
import anyio
from nintendo.nex import rmc, common, settings as nexsettings

S = nexsettings.default()
FINAL_YIELDS = 12
EOF = object()


def hx(b): return b.hex() if b else "-"


def resp_body(call_id, serial):
    return b"R%d.%d" % (call_id, serial)


def resp_code(call_id, serial):
    # distinct error code per (id, serial); bit 31 set as in any conforming error response
    return 0x80000000 | ((0x10000 + (call_id * 7 + serial * 13) % 0xFFF0) & 0x7FFFFFFF)


def build_resp(call_id, kind, serial, protocol=10, method=1):
    if kind == "ok":
        return rmc.RMCMessage.response(S, protocol, method, call_id, resp_body(call_id, serial)).encode()
    if kind == "ok-empty":
        return rmc.RMCMessage.response(S, protocol, method, call_id, b"").encode()
    if kind == "err":
        return rmc.RMCMessage.error(S, protocol, method, call_id, resp_code(call_id, serial)).encode()
    if kind == "err-nobit":
        # non-conforming error response: code without bit 31 (RMCError() ors the bit in)
        import struct
        payload = bytes([protocol, 0]) + struct.pack("<II", 0x00010005 + serial, call_id)
        return struct.pack("<I", len(payload)) + payload
    raise ValueError(kind)


def ans_body(task, serial):
    return b"A%d.%d" % (task, serial)


def ans_code(task, serial):
    return 0x20000 + task * 64 + serial


def preq_body(call_id, serial):
    return b"P%d.%d" % (call_id, serial)


def build_preq(protocol, method, call_id, serial):
    return rmc.RMCMessage.request(S, protocol, method, call_id, preq_body(call_id, serial)).encode()


HANDLER_EXC = {3: TypeError, 4: KeyError, 5: ValueError}


def read_request(data):
    """independent reader of a REQUEST datagram -> (protocol, call id, method, body) or None"""
    import struct
    if len(data) < 5 or struct.unpack_from("<I", data)[0] != len(data) - 4 or not data[4] & 0x80: return None
    proto, q = data[4] & 0x7F, data[5:]
    if proto == 0x7F:
        if len(q) < 2: return None
        proto, q = struct.unpack_from("<H", q)[0], q[2:]
    if len(q) < 8: return None
    cid, method = struct.unpack_from("<II", q)
    return proto, cid, method, q[8:]


def raw_response(protocol, call_id, method_word, body):
    """a success response written field by field (not with the library's encoder): the method word is what the peer puts there"""
    import struct
    head = bytes([protocol]) if protocol < 0x7F else bytes([0x7F]) + struct.pack("<H", protocol)
    payload = head + b"\x01" + struct.pack("<II", call_id & 0xFFFFFFFF, method_word & 0xFFFFFFFF) + body
    return struct.pack("<I", len(payload)) + payload


def raw_error(protocol, call_id, code):
    import struct
    head = bytes([protocol]) if protocol < 0x7F else bytes([0x7F]) + struct.pack("<H", protocol)
    payload = head + b"\x00" + struct.pack("<II", code & 0xFFFFFFFF, call_id & 0xFFFFFFFF)
    return struct.pack("<I", len(payload)) + payload


class InjectedError(Exception):
    """an application-level exception raised by a transport's send()"""


def make_exc(kind):
    if kind == "os": return ConnectionResetError(104, "Connection reset by peer")
    if kind == "broken": return anyio.BrokenResourceError()
    if kind == "closed": return anyio.ClosedResourceError("PRUDP connection is closed")
    return InjectedError("send failed")


def build_ans(call_id, task, kind, serial, protocol=10, method=1):
    """the peer's answer to the request message sent by `task` (echoes that request's call id)"""
    import struct
    if kind == "ok":
        return rmc.RMCMessage.response(S, protocol, method, call_id, ans_body(task, serial)).encode()
    if kind == "err":
        return rmc.RMCMessage.error(S, protocol, method, call_id, 0x80000000 | ans_code(task, serial)).encode()
    if kind == "err-nobit":
        payload = bytes([protocol, 0]) + struct.pack("<II", ans_code(task, serial) + 0x10000, call_id)
        return struct.pack("<I", len(payload)) + payload
    raise ValueError(kind)


class HookError(Exception):
    pass


class FakeServer:
    """a protocol server as RMCClient sees it: PROTOCOL_ID, handle(), logout()"""
    def __init__(self, sim, idx, hook):
        self.sim, self.idx, self.hook = sim, idx, hook
        self.PROTOCOL_ID = 0x50 + idx
    async def handle(self, client, method, input, output):
        sim = self.sim
        body = input.readall()
        sim.dispatches.append((len(sim.oplog) - 1, self.idx, method, body.hex()))
        kind = method & 15
        for _ in range((method >> 4) & 15):
            await anyio.sleep(0)
        if kind == 2:
            sim.log("handlerret 0")
            raise common.RMCError("Core::AccessDenied")
        if kind in HANDLER_EXC:
            sim.log("handlerret 0")
            raise HANDLER_EXC[kind]("handler of server %d" % self.idx)
        output.write(b"ack:" + body)
        sim.log("handlerret 1")
    async def logout(self, client):
        sim = self.sim
        sim.hook_entries.append((len(sim.oplog) - 1, self.idx))
        kind = self.hook[0]
        if kind in ("yret", "yraise"):
            for _ in range(self.hook[1]):
                await anyio.sleep(0)
        elif kind == "idle":
            # a hook that waits until nobody uses the connection any more
            while any(c["outcome"] is None for c in sim.callers):
                await anyio.sleep(0)
        elif kind == "forever":
            await anyio.Event().wait()
        if kind in ("raise", "yraise"):
            sim.log("hookraise")
            raise HookError("logout hook %d" % self.idx)
        sim.log("hookret")


# the connection whose receive loop is running in the current task (set inside that task: every task has a context of
# its own, so with several live connections in one process each warning is attributed to the connection that logged it)
_cur_sim = contextvars.ContextVar("c10_current_connection", default=None)


class _WarnCounter(logging.Handler):
    def __init__(self):
        super().__init__(level=logging.WARNING)
        self.invalid = 0
    def emit(self, record):
        if record.levelno == logging.WARNING and "invalid call id" in record.getMessage():
            sim = _cur_sim.get()
            if sim is not None: sim.invalid += 1
            else: self.invalid += 1

_handler = _WarnCounter()
_lg = logging.getLogger("nintendo.nex.rmc")
_lg.addHandler(_handler)
_lg.propagate = False
_lg.setLevel(logging.WARNING)


class FakePRUDP:
    """what RMCClient needs of a PRUDP client: async send/recv/close/disconnect, minor_version, pid, addresses"""
    def __init__(self, sim):
        self.sim = sim
        self.inbox = collections.deque()
        self.closed = False
        self.wakeup = None
        self.peer = None        # pair runs: the transport object of the other end (what is sent here arrives there)
        self.lock = anyio.Lock() if sim.sc.get("send_lock") else None
    def minor_version(self): return self.sim.minor
    def pid(self): return 1234
    def local_address(self): return ("127.0.0.1", 1)
    def remote_address(self): return ("127.0.0.1", 2)
    def local_sid(self): return 1
    def remote_sid(self): return 1
    async def send(self, data):
        sim = self.sim
        caller = sim.current
        sim.current = None
        if caller is not None:
            m = rmc.RMCMessage.parse(S, data)
            caller["sent_id"] = m.call_id
            caller["sent_mode"] = m.mode
            caller["sent_body"] = m.body
            q = read_request(data)
            if q is not None:
                caller["sent_protocol"], caller["sent_method"] = q[0], q[2]
            if self.peer is not None:
                self.peer.inbox.append((data, None)); self.peer._kick()
            rt = sim.rt.get(caller["task"], {})
            if caller.get("fail_now"):
                caller["delivered"] = bool(caller["fail_now"][1])
                raise make_exc(caller["fail_now"][0])
            if self.lock is not None:
                # the datagram goes out only once this sender holds the lock
                caller["delivered"] = False
                async with self.lock:
                    await self._caller_send(caller, rt)
            else:
                await self._caller_send(caller, rt)
        else:
            sim.other_sends.append(data)
            sim.sends_at.append((len(sim.oplog) - 1, data.hex()))
            if self.peer is not None:
                self.peer.inbox.append((data, sim.answering)); self.peer._kick()
            for _ in range(sim.sc.get("reply_yields", 0)):
                await anyio.sleep(0)
    async def _caller_send(self, caller, rt):
        if caller.get("gate"):
            caller["delivered"] = False
            await rt["gate"].wait()
            if rt["fail"] is not None:
                caller["delivered"] = bool(rt["fail"][1])
                raise make_exc(rt["fail"][0])
        else:
            for _ in range(caller["send_yields"]):
                await anyio.sleep(0)
        caller["delivered"] = True
    def _kick(self):
        if self.wakeup is not None:
            self.wakeup.set()
    async def recv(self):
        while True:
            if self.inbox:
                item = self.inbox.popleft()
                if item is EOF:
                    self.sim.eof()
                    raise anyio.EndOfStream
                item, addressee = item
                self.sim.log("recv " + hx(item))
                self.sim.recv_marks.append((len(self.sim.oplog) - 1, self.sim.invalid))
                if addressee is not None:
                    self.sim.recv_addr[len(self.sim.oplog) - 1] = addressee
                if self.peer is not None:
                    q = read_request(item)
                    mt = re.match(rb"Q(\d+)", q[3]) if q else None
                    self.sim.answering = int(mt.group(1)) if mt else None
                return item
            if self.closed:
                self.sim.eof()
                raise anyio.EndOfStream
            self.wakeup = anyio.Event()
            await self.wakeup.wait()
            self.wakeup = None
    async def close(self):
        self.closed = True
        self._kick()
    async def disconnect(self):
        self.closed = True
        self._kick()


class Sim:
    def __init__(self, sc):
        self.sc = sc
        self.minor = sc.get("minor", 0)
        self.oplog = []
        self.callers = []       # in order of the model's task numbers
        self.current = None
        self.other_sends = []
        self.recv_marks = []    # (oplog index of a recv line, warning counter before processing)
        self.loop_result = None
        self.warn_after = {}
        self.recv_addr = {}     # oplog index of a recv line -> task whose request message that datagram answers
        self.hook_entries = []  # (oplog index of the op during which logout() of server idx was entered, idx)
        self.cleanup_by = None  # who ran the body of cleanup(): "loop" or the index of a local closure
        self.cleanup_status = "none"    # none | running | returned | raised
        self.closures = []      # outcome of every local closure: [kind, "returned" | "raised <type>" | "running"]
        self.skipped_ans = 0
        self.dispatches = []    # (oplog index of the op during which handle() of a server was entered, server idx, method, body hex)
        self.sends_at = []      # (oplog index, datagram hex) of everything sent that is not a caller's request
        self.invalid = 0        # "invalid call id" warnings logged by this connection's receive loop
        self.conn = 0           # number of this connection among the live connections of the process (run_multi)
        self.glog = None        # run_multi: the schedule of the whole process, (connection, index in its op log) in real order
        self.settings = S
        self.rt = {}            # task -> run-time objects of that caller (gate event, cancel scope, injected failure)
        self.answering = None   # pair runs: the task (of the other end) whose request this end received last
    def log(self, line):
        if self.glog is not None:
            self.glog.append((self.conn, len(self.oplog)))
        self.oplog.append(line)
    def eof(self):
        # recv() is about to raise EndOfStream: start() will call cleanup()
        if not self.client.closed:
            self.cleanup_by = "loop"; self.cleanup_status = "running"
        self.log("eof")


def classify(exc):
    if isinstance(exc, common.RMCError): return "rmc %d" % exc.code()
    if isinstance(exc, RuntimeError) and str(exc) == "RMC connection is closed": return "closed"
    if isinstance(exc, KeyError): return "keyerror"
    return "exc " + type(exc).__name__


async def _caller(sim, client, noresp, send_yields, opts=None):
    opts = opts or {}
    c = {"task": len(sim.callers), "noresp": noresp, "send_yields": send_yields, "sent_id": None,
         "outcome": None, "done_at": None, "call_at": len(sim.oplog)}
    for k in ("method", "protocol", "gate", "fail_now"):
        if k in opts: c[k] = opts[k]
    rt = sim.rt[c["task"]] = {"gate": anyio.Event(), "fail": None, "scope": None, "injected": bool(opts.get("fail_now"))}
    sim.callers.append(c)
    sim.log("call %d" % noresp)
    sim.current = c
    out = None
    with anyio.CancelScope() as scope:
        rt["scope"] = scope
        try:
            r = await client.request(opts.get("protocol", 10), opts.get("method", 1), b"Q%d" % c["task"] + sim.sc.get("body_tag", "").encode(), bool(noresp))
            out = "none" if r is None else "body " + hx(r)
        except Exception as e:
            out = classify(e)
        finally:
            sim.current = None if sim.current is c else sim.current
    if out is None:
        out = "cancelled" if scope.cancelled_caught else "exc BaseException"
    c["outcome"] = out
    if c["sent_id"] is not None and not noresp:
        if rt["injected"] and (out == "cancelled" or out.startswith("exc ")):
            # the suspended request() was ended from outside (its send() raised / it was cancelled)
            c["aborted"] = 1
            sim.log("abort %d" % c["task"])
        else:
            # the completion of a suspended request() *is* the model's `wake`
            sim.log("wake %d" % c["task"])
    c["done_at"] = len(sim.oplog) - 1


async def _loop(sim, client, servers):
    _cur_sim.set(sim)
    try:
        await client.start(servers)
        sim.loop_result = "returned"
        if sim.cleanup_by == "loop": sim.cleanup_status = "returned"
    except HookError:
        # a logout hook raised inside the EndOfStream branch: start() ends with that exception
        sim.loop_result = "hook-raised"
        if sim.cleanup_by == "loop": sim.cleanup_status = "raised"
    except Exception as e:
        sim.loop_result = "crash " + type(e).__name__
        sim.log("loopcrash")


async def _closer(sim, client, kind):
    """one local closure: close() / disconnect() / leaving `async with client`"""
    me = len(sim.closures)
    rec = [kind, "running"]
    sim.closures.append(rec)
    if not client.closed:
        sim.log("cleanup")
        sim.cleanup_by = me; sim.cleanup_status = "running"
    try:
        if kind == "close": await client.close()
        elif kind == "disconnect": await client.disconnect()
        else: await client.__aexit__(None, None, None)
        rec[1] = "returned"
    except Exception as e:
        rec[1] = "raised " + type(e).__name__
    if sim.cleanup_by == me:
        sim.cleanup_status = "returned" if rec[1] == "returned" else "raised"


class Conn:
    """one live connection: its own settings object, transport, RMCClient, servers and records — nothing of it is
    shared with any other connection of the process"""
    def __init__(self, sc, conn=0, glog=None, own_settings=False):
        self.sc = sc
        self.sim = sim = Sim(sc)
        sim.conn, sim.glog = conn, glog
        if own_settings:
            sim.settings = nexsettings.default()
        self.fake = FakePRUDP(sim)
        self.client = rmc.RMCClient(sim.settings, self.fake)
        self.client.call_id = sc.get("start_id", 1)
        sim.client = self.client
        self.servers = [FakeServer(sim, i, h) for i, h in enumerate(sc.get("servers", []))]
        self.spawn = sc.get("spawn_close", 0)

    def start(self, tg):
        tg.start_soon(_loop, self.sim, self.client, self.servers)

    async def step(self, tg, st):
        sim, fake, client = self.sim, self.fake, self.client
        k = st[0]
        if k == "start":
            tg.start_soon(_caller, sim, client, st[1], st[2], st[3] if len(st) > 3 else None)
        elif k == "release":
            if st[1] in sim.rt: sim.rt[st[1]]["gate"].set()
        elif k == "fail":
            rt = sim.rt.get(st[1])
            if rt is not None and sim.callers[st[1]]["outcome"] is None:
                rt["fail"] = (st[2], st[3]); rt["injected"] = True; rt["gate"].set()
        elif k == "cancel":
            rt = sim.rt.get(st[1])
            if rt is not None and rt["scope"] is not None and sim.callers[st[1]]["outcome"] is None:
                c = sim.callers[st[1]]
                if not c.get("delivered", True): c["delivered"] = bool(st[2])
                rt["injected"] = True; rt["scope"].cancel()
        elif k == "yield":
            for _ in range(st[1]):
                await anyio.sleep(0)
        elif k == "resp":
            if len(st) > 4:     # the method word the peer puts into a success response, written field by field
                data = (raw_response(10, st[1], st[4], resp_body(st[1], st[3])) if st[2] == "ok" else raw_response(10, st[1], st[4], b"") if st[2] == "ok-empty"
                        else raw_error(10, st[1], resp_code(st[1], st[3])) if st[2] == "err" else raw_error(10, st[1], 0x00010005 + st[3]))
            else:
                data = build_resp(st[1], st[2], st[3])
            fake.inbox.append((data, None)); fake._kick()
        elif k == "ans":
            t = st[1]
            if t < len(sim.callers) and sim.callers[t]["sent_id"] is not None and sim.callers[t].get("delivered", True):
                c = sim.callers[t]
                if "method" in c or "protocol" in c or len(st) > 4:
                    # the peer echoes what the request frame carried (read independently of the library)
                    proto, meth = c.get("sent_protocol", 10), c.get("sent_method", 1)
                    how = st[4] if len(st) > 4 else "std"
                    word = meth | 0x8000 if how == "std" else meth if how == "same" else 0x8001
                    if st[2] == "ok": data = raw_response(proto, c["sent_id"], word, ans_body(t, st[3]))
                    elif st[2] == "err": data = raw_error(proto, c["sent_id"], 0x80000000 | ans_code(t, st[3]))
                    else: data = raw_error(proto, c["sent_id"], ans_code(t, st[3]) + 0x10000)
                else:
                    data = build_ans(c["sent_id"], t, st[2], st[3])
                fake.inbox.append((data, t)); fake._kick()
            else:
                sim.skipped_ans += 1
        elif k == "churn":
            await self.churn(tg, *st[1:])
        elif k == "strays":
            await self.strays(*st[1:])
        elif k == "raw":
            fake.inbox.append((bytes.fromhex(st[1]) if st[1] != "-" else b"", None)); fake._kick()
        elif k == "req":
            fake.inbox.append((rmc.RMCMessage.request(S, st[1], st[2], st[3], b"").encode(), None)); fake._kick()
        elif k == "preq":
            fake.inbox.append((build_preq(st[1], st[2], st[3], st[4]), None)); fake._kick()
        elif k == "eof":
            fake.inbox.append(EOF); fake._kick()
        elif k in ("close", "disconnect", "cleanup"):
            if self.spawn:
                tg.start_soon(_closer, sim, client, k)
            else:
                await _closer(sim, client, k)
        else:
            raise ValueError(st)

    async def churn(self, tg, n, pattern="c", batch=1, order="fifo", settle=8):
        """n further call ids are consumed on this connection by short-lived traffic of other tasks, `batch` requests at a
        time: the i-th request is what pattern[i % len(pattern)] says - 'c' a call the peer answers with success, 'e' a call
        the peer answers with an error, 'o' a one-way request (noresponse=True) nobody answers, 'O' a one-way request the
        peer answers all the same (a response nobody waits for). The peer answers the REQUEST MESSAGES of a batch (echoing
        the call id each carried, the data naming the task) in the order they were sent ("fifo") or the reverse ("lifo");
        the director then lets the loop run until the calls of the batch have completed (at most `settle` iterations)."""
        sim, done = self.sim, 0
        while done < n:
            b = min(batch, n - done)
            first = len(sim.callers)
            for i in range(b):
                tg.start_soon(_caller, sim, self.client, 1 if pattern[(done + i) % len(pattern)] in "oO" else 0, 0, None)
            await anyio.sleep(0)
            ts = [first + i for i in range(b) if first + i < len(sim.callers)]
            for t in (ts if order == "fifo" else ts[::-1]):
                kind = pattern[(done + t - first) % len(pattern)]
                if kind in "ceO":
                    await self.step(tg, ["ans", t, "err" if kind == "e" else "ok", 0])
            for _ in range(settle):
                await anyio.sleep(0)
                if not self.fake.inbox and all(sim.callers[t]["outcome"] is not None for t in ts):
                    break
            done += b

    async def strays(self, ids, kinds="k", gap=0, serial=100):
        """responses nobody waits for, one after the other: ids = a list of call ids, or ["range", first, count, step];
        kinds[i % len(kinds)] = 'k' success | 'z' success with an empty body | 'e' error | 'n' error whose code lacks bit 31;
        gap = loop iterations the peer lets pass between two of them (0: they sit in the transport as one burst)."""
        if ids and ids[0] == "range":
            ids = [(ids[1] + j * ids[3]) & 0xFFFFFFFF for j in range(ids[2])]
        names = {"k": "ok", "z": "ok-empty", "e": "err", "n": "err-nobit"}
        for j, cid in enumerate(ids):
            self.fake.inbox.append((build_resp(cid & 0xFFFFFFFF, names[kinds[j % len(kinds)]], serial + j % 50), None)); self.fake._kick()
            for _ in range(gap):
                await anyio.sleep(0)

    def settle_yields(self):
        # the receive loop waits in every request handler and in every slow answer send
        sc = self.sc
        ry = sc.get("reply_yields", 0)
        return (sum(((st[2] >> 4) & 15) + ry + 1 for st in sc["steps"] if st[0] == "preq")
                + sum(ry + 1 for st in sc["steps"] if st[0] == "req"))

    def snapshot(self):
        """white-box snapshot before the tasks are torn down"""
        sim, fake, client = self.sim, self.fake, self.client
        sim.final = {
            "next": client.call_id, "closed": int(client.closed),
            "requests": sorted(client.requests.keys()), "responses": sorted(client.responses.keys()),
            "hung": [c["task"] for c in sim.callers if c["outcome"] is None],
            "loop": sim.loop_result, "undelivered": len(fake.inbox),
            "cleanup_status": sim.cleanup_status, "closures": [list(r) for r in sim.closures],
            "nservers": len(self.servers),
        }
        # per recv line: did the loop warn about an invalid call id while processing it?
        marks = sim.recv_marks
        for i, (idx, before) in enumerate(marks):
            after = marks[i + 1][1] if i + 1 < len(marks) else sim.invalid
            sim.warn_after[idx] = after - before


async def run_scenario(sc):
    """runs one scenario on the real code; returns the Sim (op log, callers, final white-box state)"""
    conn = Conn(sc)
    async with anyio.create_task_group() as tg:
        conn.start(tg)
        for st in sc["steps"]:
            await conn.step(tg, st)
        for _ in range(FINAL_YIELDS + conn.settle_yields() + sc.get("final_yields", 0)):
            await anyio.sleep(0)
        conn.snapshot()
        tg.cancel_scope.cancel()
    return conn.sim


async def run_multi_scenario(msc):
    """several live connections in ONE process (one event loop, one task group, as in BackEndClient.login or a server):
    msc = {"multi": [scenario of connection 0, scenario of connection 1, ...], "order": [c, c, ...]}; the k-th entry of
    "order" executes the next step of connection order[k] (steps left over run afterwards, connection by connection).
    A "yield" step lets the tasks of ALL connections run. Every connection has its own settings, transport, client,
    servers and op log; `glog` (harness bookkeeping only) records the real order of the atomic sections of the process.
    Returns the list of Sims; sims[0].glog is the schedule."""
    glog = []
    conns = [Conn(sc, i, glog, own_settings=True) for i, sc in enumerate(msc["multi"])]
    if msc.get("pair"):
        # the two connections are the two ends of ONE connection: what one end sends the other receives
        conns[0].fake.peer, conns[1].fake.peer = conns[1].fake, conns[0].fake
    async with anyio.create_task_group() as tg:
        for c in conns:
            c.start(tg)
        nxt = [0] * len(conns)
        order = list(msc.get("order", []))
        for i, c in enumerate(conns):
            order += [i] * len(c.sc["steps"])
        for ci in order:
            c = conns[ci]
            if nxt[ci] < len(c.sc["steps"]):
                st = c.sc["steps"][nxt[ci]]
                nxt[ci] += 1
                await c.step(tg, st)
        for _ in range(FINAL_YIELDS + sum(c.settle_yields() + c.sc.get("final_yields", 0) for c in conns)):
            await anyio.sleep(0)
        for c in conns:
            c.snapshot()
        tg.cancel_scope.cancel()
    return [c.sim for c in conns]


def run_many(scenarios):
    async def main():
        res = []
        for sc in scenarios:
            res.append(await run_scenario(sc))
        return res
    return anyio.run(main)


def run_many_multi(mscs):
    """-> one list of Sims per multi-connection scenario"""
    async def main():
        res = []
        for msc in mscs:
            res.append(await run_multi_scenario(msc))
        return res
    return anyio.run(main)
