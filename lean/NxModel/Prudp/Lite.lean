import NxModel.Prudp.V1
/-!
# PRUDP Lite codec — mirrors `PRUDPLiteMessage` encode/decode (prudp.py 410-500)

`decode` owns a reassembly buffer: `liteFeed buffer chunk` returns the result of one `decode(chunk)` call
*and* the value of `self.buffer` afterwards. On an exception the packets decoded earlier in the same call
are lost with it, and the buffer keeps whatever it was at that moment: a bad magic byte is never consumed,
whereas an option error happens after the packet's bytes were already dropped from the buffer.
-/
namespace Nx.Prudp
open Nx

/-- the dict built by `PRUDPLiteMessage.encode_options` -/
def liteOptions (p : Packet) : Opts :=
  (if isSynOrConnect p.type then [(OPTION_SUPPORT, .int (pyOr p.minorVersion p.supportedFunctions 8))] else []) ++
  (if p.type = 0 ∧ hasAck p.flags = true then [(OPTION_CONNECTION_SIG, optBytesVal p.connectionSignature)] else []) ++
  (if p.type = 1 ∧ hasAck p.flags = false then [(OPTION_CONNECTION_SIG_LITE, optBytesVal p.signature)] else [])

def liteEncodeOptions (p : Packet) : Bytes := encodeOptions (liteOptions p)

/-- `encode_header(packet, option_size)` -/
def liteEncodeHeader (p : Packet) (optionSize : Nat) : Bytes :=
  u8 0x80 ++ u8 optionSize ++ u16le p.payload.length ++
  u8 ((p.sourceType <<< 4) ||| p.destType) ++ u8 p.sourcePort ++ u8 p.destPort ++ u8 p.fragmentId ++
  u16le (pyOr p.type p.flags 4) ++ u16le p.packetId

/-- `PRUDPLiteMessage.encode` (total) -/
def liteEncode (p : Packet) : Bytes :=
  let options := liteEncodeOptions p
  liteEncodeHeader p options.length ++ options ++ p.payload

def liteHeaderErr (p : Packet) : Option Err :=
  if p.payload.length ≥ 65536 then some .struct
  else if ((p.sourceType <<< 4) ||| p.destType) ≥ 256 then some .value
  else if p.sourcePort ≥ 256 then some .value
  else if p.destPort ≥ 256 then some .value
  else if p.fragmentId ≥ 256 then some .value
  else if pyOr p.type p.flags 4 ≥ 65536 then some .struct
  else if p.packetId ≥ 65536 then some .struct
  else none

def liteEncodeErr (p : Packet) : Option Err :=
  match encodeOptionsErr (liteOptions p) with
  | some e => some e
  | none => liteHeaderErr p

def liteEncodeChecked (p : Packet) : Except Err Bytes :=
  match liteEncodeErr p with
  | some e => .error e
  | none => .ok (liteEncode p)

/-- `verify_options` -/
def liteVerifyOptions (type flags : Nat) (o : Opts) : Bool :=
  if isSynOrConnect type then
    if type = 0 ∧ hasAck flags = true then o.keysEq [OPTION_SUPPORT, OPTION_CONNECTION_SIG]
    else if type = 1 ∧ hasAck flags = false then o.keysEq [OPTION_SUPPORT, OPTION_CONNECTION_SIG_LITE]
    else o.keysEq [OPTION_SUPPORT]
  else o.keysEq []

structure LiteHdr where
  streamTypes : Nat
  sourcePort : Nat
  destPort : Nat
  fragmentId : Nat
  typeFlags : Nat
  packetId : Nat
  deriving DecidableEq, Repr

/-- bytes 4..11 of the header (after magic, option size and payload size) -/
def liteRdHeader (r : Bytes) : Except Err (LiteHdr × Bytes) :=
  match rdU8 r with
  | .error e => .error e
  | .ok (st, r) =>
  match rdU8 r with
  | .error e => .error e
  | .ok (sp, r) =>
  match rdU8 r with
  | .error e => .error e
  | .ok (dp, r) =>
  match rdU8 r with
  | .error e => .error e
  | .ok (frag, r) =>
  match rdU16 r with
  | .error e => .error e
  | .ok (tf, r) =>
  match rdU16 r with
  | .error e => .error e
  | .ok (pid, r) =>
    .ok ({ streamTypes := st, sourcePort := sp, destPort := dp, fragmentId := frag, typeFlags := tf, packetId := pid }, r)

structure LiteOptFields where
  minorVersion : Nat := 0
  supportedFunctions : Nat := 0
  connectionSignature : Option Bytes := some []
  signature : Option Bytes := none
  deriving DecidableEq, Repr

def liteOptFields (type flags : Nat) (o : Opts) : Except Err LiteOptFields := do
  let f : LiteOptFields := {}
  let f ← if isSynOrConnect type then do
      let sup ← o.getInt OPTION_SUPPORT
      pure { f with minorVersion := sup % 256, supportedFunctions := sup / 256 }
    else pure f
  let f ← if type = 0 ∧ hasAck flags = true then do
      let cs ← o.getBytes OPTION_CONNECTION_SIG
      pure { f with connectionSignature := some cs }
    else pure f
  if type = 1 ∧ hasAck flags = false then do
    let s ← o.getBytes OPTION_CONNECTION_SIG_LITE
    pure { f with signature := some s }
  else pure f

/-- parse one complete packet; `r` = the stream after the 4 bytes magic/option size/payload size -/
def liteParse (optionSize payloadSize : Nat) (r : Bytes) : Except Err Packet :=
  match liteRdHeader r with
  | .error e => .error e
  | .ok (h, r) =>
  match rd optionSize r with
  | .error e => .error e
  | .ok (optData, r) =>
  match decodeOptions optData with
  | .error e => .error e
  | .ok opts =>
    let type := h.typeFlags % 16
    let flags := h.typeFlags / 16
    if !liteVerifyOptions type flags opts then .error .value
    else
      match liteOptFields type flags opts with
      | .error e => .error e
      | .ok f =>
      match rd payloadSize r with
      | .error e => .error e
      | .ok (payload, _) =>
        .ok { type := type, flags := flags, version := none,
              sourceType := h.streamTypes / 16, sourcePort := h.sourcePort,
              destType := h.streamTypes % 16, destPort := h.destPort,
              sessionId := 0, packetId := h.packetId, fragmentId := h.fragmentId,
              connectionSignature := f.connectionSignature,
              supportedFunctions := f.supportedFunctions, minorVersion := f.minorVersion,
              signature := f.signature, payload := payload }

/-- the `while self.buffer` loop: result of the call and `self.buffer` afterwards -/
def liteLoop : Nat → Bytes → Except Err (List Packet) × Bytes
  | 0, buf => (.error .other, buf)
  | fuel + 1, buf =>
    if buf.isEmpty then (.ok [], buf)
    else if buf.length < 12 then (.ok [], buf)
    else
      match rdU8 buf with
      | .error e => (.error e, buf)
      | .ok (magic, r) =>
        if magic ≠ 0x80 then (.error .value, buf)
        else
          match rdU8 r with
          | .error e => (.error e, buf)
          | .ok (os, r) =>
          match rdU16 r with
          | .error e => (.error e, buf)
          | .ok (ps, r) =>
            if buf.length < 12 + os + ps then (.ok [], buf)
            else
              let buf' := buf.drop (12 + os + ps)
              match liteParse os ps r with
              | .error e => (.error e, buf')
              | .ok p =>
                match liteLoop fuel buf' with
                | (.error e, b) => (.error e, b)
                | (.ok ps, b) => (.ok (p :: ps), b)

/-- one call `decode(chunk)` on an object whose `self.buffer` is `buffer` -/
def liteFeed (buffer chunk : Bytes) : Except Err (List Packet) × Bytes :=
  liteLoop ((buffer ++ chunk).length + 1) (buffer ++ chunk)

/-- successive `decode` calls; stops at the first exception (result: all packets so far or the error,
    and the buffer at that point) -/
def liteFeedAll : Bytes → List Bytes → Except Err (List Packet) × Bytes
  | buf, [] => (.ok [], buf)
  | buf, c :: cs =>
    match liteFeed buf c with
    | (.error e, b) => (.error e, b)
    | (.ok ps, b) =>
      match liteFeedAll b cs with
      | (.error e, b') => (.error e, b')
      | (.ok qs, b') => (.ok (ps ++ qs), b')

/-- packets the lite encoding carries faithfully -/
def LiteWF (p : Packet) : Prop :=
  p.version = none ∧
  p.sourceType < 16 ∧ p.destType < 16 ∧ p.sourcePort < 256 ∧ p.destPort < 256 ∧
  p.fragmentId < 256 ∧ p.type < 16 ∧ p.flags < 4096 ∧ p.packetId < 65536 ∧
  p.sessionId = 0 ∧ p.substreamId = 0 ∧ p.maxSubstreamId = 0 ∧ p.initialUnreliableId = 0 ∧
  p.payload.length < 65536 ∧
  (if isSynOrConnect p.type then p.minorVersion < 256 ∧ p.supportedFunctions < 16777216
   else p.minorVersion = 0 ∧ p.supportedFunctions = 0) ∧
  (if p.type = 0 ∧ hasAck p.flags = true then optLen p.connectionSignature 16
   else p.connectionSignature = some []) ∧
  (if p.type = 1 ∧ hasAck p.flags = false then optLen p.signature 16 else p.signature = none)

instance (p : Packet) : Decidable (LiteWF p) := by unfold LiteWF; exact inferInstance

end Nx.Prudp
