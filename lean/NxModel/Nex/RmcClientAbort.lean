import NxModel.Nex.RmcClientX
/-!
# A caller that ends while suspended — `request()` left by an exception of `client.send` or by a cancellation

```
call_id = self.call_id
self.call_id = (self.call_id + 1) & 0xFFFFFFFF
event = anyio.Event(); self.requests[call_id] = event           -- atomic section `call` (already done)
await self.client.send(message.encode())                        -- (1) may raise, may be cancelled while suspended in it
await event.wait()                                              -- (2) may be cancelled while suspended in it
```
`request()` has no `try`: when `send` raises (a socket error, `ClosedResourceError` of a closed PRUDP connection) or the
task is cancelled at (1) or (2) (a timeout scope, a task group going down) the coroutine frame is discarded and NOTHING
of the client object is touched: `call_id` keeps counting from where it was, the entry `requests[call_id]` stays (with an
event nobody waits for), `responses` is untouched. `abort t` is that atomic section: the frame of task `t` disappears.
A response that later arrives under the abandoned id is stored and its event set (no warning, nobody reads it); `cleanup()`
sets the abandoned event too. Calls made afterwards take the next ids of the counter — never the id of the abandoned call,
never the id of a call that is still outstanding.
-/
namespace Nx.RmcClient
open Nx Nx.Rmc

inductive AOp where
  | x (op : XOp)
  | abort (t : Nat)      -- the suspended `request()` of task `t` ends with an exception / cancellation from outside
  deriving DecidableEq, Repr

inductive AOut where
  | x (o : XOut)
  | aborted (t : Nat)
  | noSuchCall (t : Nat)   -- (never happens at run time) task `t` is not a suspended call
  deriving DecidableEq, Repr

/-- the frame of task `t` is discarded; the object's attributes are not touched -/
def abortFrame (s : State) (t : Nat) : State := { s with frames := derase t s.frames }

def astep (x : XState) : AOp → XState × List AOut
  | .x op => let r := xstep x op; (r.1, r.2.map .x)
  | .abort t =>
    match dlookup t x.core.frames with
    | none => (x, [.noSuchCall t])
    | some _ => ({ x with core := abortFrame x.core t }, [.aborted t])

def arun (x : XState) : List AOp → XState × List AOut
  | [] => (x, [])
  | op :: ops =>
    let (x1, o1) := astep x op
    let (x2, o2) := arun x1 ops
    (x2, o1 ++ o2)

/-- the specification's side: the slot of the abandoned call is dropped -/
def CallSpec.abort (a : CallSpec) (t : Nat) : CallSpec := { a with calls := a.calls.filter (·.task ≠ t) }

/-- the attributes of the client object that id allocation reads and writes -/
def counters (s : State) : Nat × Nat × Bool := (s.nextId, s.nextTask, s.closed)

/-- the request messages an output sequence says were sent: (task, call id) in order -/
def sentOf : List AOut → List (Nat × Nat)
  | [] => []
  | .x (.core (.sent t id)) :: r => (t, id) :: sentOf r
  | _ :: r => sentOf r

/-- the same ops with the aborts left out -/
def dropAborts : List AOp → List AOp
  | [] => []
  | .abort _ :: r => dropAborts r
  | op :: r => op :: dropAborts r

end Nx.RmcClient
