import NxModel.Nex.RmcClientAbort
import NxProofs.RmcClientX
/-!
# Proofs about callers that end while suspended (`abort`): a `send` that raises, a cancellation

* `abort_frame_only`: the atomic section touches nothing but the frame of the abandoned task.
* `abort_other_wake`: the completion of any other suspended call is what it would have been.
* `arun_sent_congr` / `aborts_keep_sent`: the request messages of a run (task, call id) are those of the same run with the
  aborts left out — the id counter does not see them; with `sent_ids_distinct` all request ids stay pairwise distinct.
-/
namespace Nx.RmcClient
open Nx Nx.Rmc

theorem abort_frame_only (x : XState) (t : Nat) :
    (astep x (.abort t)).1.core.nextId = x.core.nextId ∧ (astep x (.abort t)).1.core.nextTask = x.core.nextTask ∧
    (astep x (.abort t)).1.core.requests = x.core.requests ∧ (astep x (.abort t)).1.core.responses = x.core.responses ∧
    (astep x (.abort t)).1.core.closed = x.core.closed ∧ (astep x (.abort t)).1.core.fired = x.core.fired ∧
    (astep x (.abort t)).1.servers = x.servers ∧ (astep x (.abort t)).1.pending = x.pending ∧
    (astep x (.abort t)).1.status = x.status ∧ (astep x (.abort t)).1.handling = x.handling ∧
    ∀ t', t' ≠ t → dlookup t' (astep x (.abort t)).1.core.frames = dlookup t' x.core.frames := by
  simp only [astep]
  split
  · simp
  · simp only [abortFrame, true_and]
    intro t' h
    exact dlookup_derase_ne h _

theorem abort_frame_gone (x : XState) (t : Nat) : dlookup t (astep x (.abort t)).1.core.frames = none := by
  simp only [astep]
  split
  · assumption
  · simp [abortFrame]

/-- what `wake t'` does depends on the frame of `t'`, `fired`, `closed` and `responses` only -/
theorem wake_congr (s s' : State) (t' : Nat) (hf : dlookup t' s'.frames = dlookup t' s.frames) (h1 : s'.fired = s.fired)
    (h2 : s'.closed = s.closed) (h3 : s'.responses = s.responses) : (step s' (.wake t')).2 = (step s (.wake t')).2 := by
  simp only [step, hf, h1, h2, h3]
  cases dlookup t' s.frames with
  | none => rfl
  | some id =>
    simp only
    by_cases hm : t' ∈ s.fired
    · simp only [hm, if_true]
      cases s.closed with
      | true => simp
      | false =>
        simp only [Bool.false_eq_true, if_false]
        cases dlookup id s.responses <;> rfl
    · simp [hm]

theorem abort_other_wake (x : XState) (t t' : Nat) (h : t' ≠ t) :
    (xstep (astep x (.abort t)).1 (.core (.wake t'))).2 = (xstep x (.core (.wake t'))).2 := by
  obtain ⟨_, _, _, h4, h5, h6, _, _, _, _, h11⟩ := abort_frame_only x t
  have hw := wake_congr x.core (astep x (.abort t)).1.core t' (h11 t' h) h6 h5 h4
  simp only [xstep, runsCleanup, Bool.false_eq_true, if_false, hw]

/-! ## the id counter does not see aborts -/

theorem sentOf_append (a b : List AOut) : sentOf (a ++ b) = sentOf a ++ sentOf b := by
  induction a with
  | nil => rfl
  | cons o r ih =>
    cases o with
    | x xo =>
      cases xo with
      | core co => cases co <;> simp [sentOf, ih]
      | _ => simp [sentOf, ih]
    | _ => simp [sentOf, ih]

/-- the (task, id) pairs of the `sent` notes of a core output list -/
def sentCore : List Out → List (Nat × Nat)
  | [] => []
  | .sent t id :: r => (t, id) :: sentCore r
  | _ :: r => sentCore r

theorem sentOf_map_core (l : List Out) : sentOf ((l.map XOut.core).map AOut.x) = sentCore l := by
  induction l with
  | nil => rfl
  | cons o r ih => cases o <;> simp only [List.map_cons, sentOf, sentCore, ih]

theorem sentOf_nextHook (x : XState) (rest : List Nat) : sentOf ((nextHook x rest).2.map AOut.x) = [] := by
  cases rest <;> simp [nextHook, sentOf]

theorem nextHook_counters (x : XState) (rest : List Nat) : (nextHook x rest).1.core = x.core := by
  cases rest <;> simp [nextHook]

/-- a core step: the counters after it and the requests it sends are functions of the counters before it -/
theorem step_counters (s s' : State) (op : Op) (h : counters s = counters s') :
    counters (step s op).1 = counters (step s' op).1 ∧ sentCore (step s op).2 = sentCore (step s' op).2 := by
  simp only [counters, Prod.mk.injEq] at h
  obtain ⟨h1, h2, h3⟩ := h
  cases op with
  | call nr =>
    simp only [step, h1, h2, h3]
    cases s'.closed with
    | true => simp [counters, sentCore]
    | false => cases nr <;> simp [counters, sentCore]
  | recvResponse m =>
    simp only [step]
    cases dlookup m.callId s.requests <;> cases dlookup m.callId s'.requests <;> simp [counters, sentCore, h1, h2, h3]
  | recvRequest => simp [step, counters, sentCore, h1, h2, h3]
  | eof =>
    simp only [step, doCleanup, h3]
    cases s'.closed <;> simp [counters, sentCore, h1, h2, h3]
  | cleanup =>
    simp only [step, doCleanup, h3]
    cases s'.closed <;> simp [counters, sentCore, h1, h2, h3]
  | wake t =>
    simp only [step]
    cases dlookup t s.frames with
    | none =>
      cases dlookup t s'.frames with
      | none => simp [counters, sentCore, h1, h2, h3]
      | some id' =>
        simp only
        by_cases hm' : t ∈ s'.fired
        · simp only [hm', if_true]
          cases hc : s'.closed with
          | true => simp [counters, sentCore, h1, h2, h3, hc]
          | false => cases dlookup id' s'.responses <;> simp [counters, sentCore, h1, h2, h3, hc]
        · simp [hm', counters, sentCore, h1, h2, h3]
    | some id =>
      simp only
      by_cases hm : t ∈ s.fired
      · simp only [hm, if_true]
        cases hc0 : s.closed with
        | true =>
          have hc0' : s'.closed = true := by rw [← h3]; exact hc0
          cases dlookup t s'.frames with
          | none => simp [counters, sentCore, h1, h2, hc0, hc0']
          | some id' =>
            simp only
            by_cases hm' : t ∈ s'.fired
            · simp [hm', hc0', counters, sentCore, h1, h2, hc0]
            · simp [hm', counters, sentCore, h1, h2, hc0, hc0']
        | false =>
          have hc0' : s'.closed = false := by rw [← h3]; exact hc0
          cases dlookup t s'.frames with
          | none => cases dlookup id s.responses <;> simp [counters, sentCore, h1, h2, hc0, hc0']
          | some id' =>
            simp only
            by_cases hm' : t ∈ s'.fired
            · cases dlookup id s.responses <;> cases dlookup id' s'.responses <;> simp [hm', hc0', counters, sentCore, h1, h2, hc0]
            · cases dlookup id s.responses <;> simp [hm', counters, sentCore, h1, h2, hc0, hc0']
      · cases dlookup t s'.frames with
        | none => simp [hm, counters, sentCore, h1, h2, h3]
        | some id' =>
          simp only
          by_cases hm' : t ∈ s'.fired
          · simp only [hm', if_true]
            cases hc : s'.closed with
            | true => simp [hm, counters, sentCore, h1, h2, h3, hc]
            | false => cases dlookup id' s'.responses <;> simp [hm, counters, sentCore, h1, h2, h3, hc]
          · simp [hm, hm', counters, sentCore, h1, h2, h3]

theorem astep_counters (x y : XState) (op : XOp) (h : counters x.core = counters y.core) :
    counters (astep x (.x op)).1.core = counters (astep y (.x op)).1.core ∧
      sentOf (astep x (.x op)).2 = sentOf (astep y (.x op)).2 := by
  cases op with
  | core o =>
    obtain ⟨c1, c2⟩ := step_counters x.core y.core o h
    simp only [astep, xstep]
    constructor
    · split <;> split <;> simp only [nextHook_counters] <;> exact c1
    · split <;> split <;>
        simp only [List.map_append, sentOf_append, sentOf_nextHook, sentOf_map_core, List.append_nil] <;> exact c2
  | hookReturn =>
    simp only [astep, xstep]
    constructor
    · split <;> split <;> simp only [nextHook_counters] <;> exact h
    · split <;> split <;> simp [sentOf_nextHook, sentOf]
  | hookRaise =>
    simp only [astep, xstep]
    constructor
    · split <;> split <;> exact h
    · split <;> split <;> simp [sentOf]
  | peerRequest r =>
    simp only [astep, xstep, step]
    constructor
    · split <;> split <;> exact h
    · split <;> split <;> simp [sentOf]
  | handlerEnd ok =>
    simp only [astep, xstep]
    constructor
    · split <;> split <;> exact h
    · split <;> split <;> simp [sentOf]

theorem abort_counters (x : XState) (t : Nat) :
    counters (astep x (.abort t)).1.core = counters x.core ∧ sentOf (astep x (.abort t)).2 = [] := by
  simp only [astep]
  split <;> simp [counters, abortFrame, sentOf]

/-- the request messages of a run are those of the run with the aborts left out (from any state with the same counters) -/
theorem arun_sent_congr (x y : XState) (ops : List AOp) (h : counters x.core = counters y.core) :
    sentOf (arun x ops).2 = sentOf (arun y (dropAborts ops)).2 := by
  induction ops generalizing x y with
  | nil => rfl
  | cons op rest ih =>
    cases op with
    | abort t =>
      obtain ⟨c1, c2⟩ := abort_counters x t
      simp only [arun, dropAborts, sentOf_append, c2, List.nil_append]
      exact ih _ _ (c1.trans h)
    | x o =>
      obtain ⟨c1, c2⟩ := astep_counters x y o h
      simp only [arun, dropAborts, sentOf_append, c2]
      rw [ih _ _ c1]

theorem aborts_keep_sent (x : XState) (ops : List AOp) : sentOf (arun x ops).2 = sentOf (arun x (dropAborts ops)).2 :=
  arun_sent_congr x x ops rfl

/-! ## a run without aborts is a run of the extended machine -/

def xopsOf : List AOp → List XOp
  | [] => []
  | .x o :: r => o :: xopsOf r
  | .abort _ :: r => xopsOf r

theorem arun_dropAborts (x : XState) (ops : List AOp) :
    (arun x (dropAborts ops)).2 = (xrun x (xopsOf ops)).2.map AOut.x := by
  induction ops generalizing x with
  | nil => rfl
  | cons op rest ih =>
    cases op with
    | abort t => simpa [dropAborts, xopsOf] using ih x
    | x o => simp [dropAborts, xopsOf, arun, xrun, astep, ih]

theorem sentOf_map_x (l : List XOut) : sentOf (l.map AOut.x) = sentCore (coreOuts l) := by
  induction l with
  | nil => rfl
  | cons o r ih =>
    cases o with
    | core co => cases co <;> simp [sentOf, sentCore, coreOuts, ih]
    | _ => simp [sentOf, coreOuts, ih]

theorem mem_sentCore {t id : Nat} {l : List Out} : (t, id) ∈ sentCore l ↔ Out.sent t id ∈ l := by
  induction l with
  | nil => simp [sentCore]
  | cons o r ih => cases o <;> simp [sentCore, ih]

/-- all request messages of a run with callers failing / being cancelled while suspended carry pairwise distinct call ids
    while the counter does not wrap -/
theorem sent_ids_distinct_with_aborts (k : Nat) (ops : List AOp) (h : nCalls (coreOps (xopsOf ops)) < 4294967295)
    (t t' id : Nat) (h1 : (t, id) ∈ sentOf (arun (xinit 1 k) ops).2) (h2 : (t', id) ∈ sentOf (arun (xinit 1 k) ops).2) :
    t = t' := by
  rw [aborts_keep_sent, arun_dropAborts, sentOf_map_x, (xrun_core (xinit 1 k) (xopsOf ops)).2, mem_sentCore] at h1 h2
  exact sent_ids_distinct _ _ (by simp [xinit, init]; omega) t t' id h1 h2

end Nx.RmcClient
