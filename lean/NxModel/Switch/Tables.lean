import NxModel.Switch.Http
/-!
# Per-version tables of the Switch clients and `set_system_version`

Mirrors the module-level dict literals of `nintendo/switch/{common,dauth,aauth,baas,five}.py` and the
`__init__` / `set_system_version` methods of the seven clients.  A Python dict literal is a list of
key/value pairs in which the **last** duplicate wins (`dictGet`).  `set_system_version` first tests
membership in *one* table (→ `ValueError`), then assigns attribute after attribute; a key missing from
a later table raises `KeyError` *after* the earlier attributes were already overwritten — the model
keeps that order, so atomicity is a theorem about tables with equal key sets, not a definition.
-/
namespace Nx.Switch
open Nx Nx.Http

abbrev Dict (α : Type) := List (Nat × α)

/-- `d[k]` of a dict literal (last duplicate wins) -/
def dictGet {α : Type} (d : Dict α) (k : Nat) : Option α :=
  match d with
  | [] => none
  | (k', v) :: r =>
    match dictGet r k with
    | some x => some x
    | none => if k' = k then some v else none

def dictHas {α : Type} (d : Dict α) (k : Nat) : Bool := d.any (·.1 == k)

structure Tables where
  fw : Dict String            -- common.FIRMWARE_VERSIONS
  dauthUA : Dict String       -- dauth.USER_AGENT
  digest : Dict String        -- dauth.SYSTEM_VERSION_DIGEST
  keygen : Dict Nat           -- dauth.KEY_GENERATION
  dauthApi : Dict Nat         -- dauth.API_VERSION
  aauthUA : Dict String       -- aauth.USER_AGENT
  aauthApi : Dict Nat         -- aauth.API_VERSION
  baasUA : Dict String        -- baas.USER_AGENT  (templates with one `%s`)
  fiveUA : Dict String        -- five.USER_AGENT
  latestDauth : Nat
  latestAauth : Nat
  latestBaas : Nat
  latestDragons : Nat
  latestFive : Nat
  latestSun : Nat
  latestAtumn : Nat
  languages : List String     -- five.LANGUAGES
  deriving Repr, Inhabited

/-- result of a Python method that mutates `self` and may raise half-way -/
abbrev Upd (σ : Type) := σ × Option Err

/-! ## dauth -/

structure Dauth where
  host : String := "dauth-lp1.ndas.srv.nintendo.net"
  powerState : String := "FA"
  region : Nat := 1
  version : Nat
  ua : String
  digest : String
  keygen : Nat
  api : Nat
  deriving DecidableEq, Repr, Inhabited

def Dauth.init (T : Tables) : Except Err Dauth :=
  match dictGet T.dauthUA T.latestDauth, dictGet T.digest T.latestDauth, dictGet T.keygen T.latestDauth, dictGet T.dauthApi T.latestDauth with
  | some ua, some d, some k, some a => .ok { version := T.latestDauth, ua, digest := d, keygen := k, api := a }
  | _, _, _, _ => .error .key

def Dauth.setVersion (T : Tables) (s : Dauth) (v : Nat) : Upd Dauth :=
  if !dictHas T.dauthUA v then (s, some .value) else
  let s := { s with version := v }
  match dictGet T.dauthUA v with
  | none => (s, some .key)
  | some ua =>
    let s := { s with ua := ua }
    match dictGet T.digest v with
    | none => (s, some .key)
    | some d =>
      let s := { s with digest := d }
      match dictGet T.keygen v with
      | none => (s, some .key)
      | some k =>
        let s := { s with keygen := k }
        match dictGet T.dauthApi v with
        | none => (s, some .key)
        | some a => ({ s with api := a }, none)

/-! ## aauth -/

structure Aauth where
  host : String := "aauth-lp1.ndas.srv.nintendo.net"
  powerState : String := "FA"
  version : Nat
  ua : String
  api : Nat
  deriving DecidableEq, Repr, Inhabited

def Aauth.init (T : Tables) : Except Err Aauth :=
  match dictGet T.aauthUA T.latestAauth, dictGet T.aauthApi T.latestAauth with
  | some ua, some a => .ok { version := T.latestAauth, ua, api := a }
  | _, _ => .error .key

def Aauth.setVersion (T : Tables) (s : Aauth) (v : Nat) : Upd Aauth :=
  if !dictHas T.aauthUA v then (s, some .value) else
  let s := { s with version := v }
  match dictGet T.aauthUA v with
  | none => (s, some .key)
  | some ua =>
    let s := { s with ua := ua }
    match dictGet T.aauthApi v with
    | none => (s, some .key)
    | some a => ({ s with api := a }, none)

/-! ## baas -/

structure Baas where
  host : String := "e0d67c509fb203858ebcb2fe3f88c2aa.baas.nintendo.com"
  powerState : String := "FA"
  version : Nat
  ua : String         -- the template
  deriving DecidableEq, Repr, Inhabited

def Baas.init (T : Tables) : Except Err Baas :=
  match dictGet T.baasUA T.latestBaas with
  | some ua => .ok { version := T.latestBaas, ua }
  | none => .error .key

def Baas.setVersion (T : Tables) (s : Baas) (v : Nat) : Upd Baas :=
  if !dictHas T.baasUA v then (s, some .value) else
  let s := { s with version := v }
  match dictGet T.baasUA v with
  | none => (s, some .key)
  | some ua => ({ s with ua := ua }, none)

/-! ## five -/

structure Five where
  host : String := "app.lp1.five.nintendo.net"
  version : Nat
  ua : String
  deriving DecidableEq, Repr, Inhabited

def Five.init (T : Tables) : Except Err Five :=
  match dictGet T.fiveUA T.latestFive with
  | some ua => .ok { version := T.latestFive, ua }
  | none => .error .key

def Five.setVersion (T : Tables) (s : Five) (v : Nat) : Upd Five :=
  if !dictHas T.fiveUA v then (s, some .value) else
  let s := { s with version := v }
  match dictGet T.fiveUA v with
  | none => (s, some .key)
  | some ua => ({ s with ua := ua }, none)

/-! ## dragons / sun / atumn: `"NintendoSDK Firmware/%s (platform:NX; did:%016x; eid:lp1)"` -/

def nimUA (fw : String) (deviceId : Nat) : String :=
  "NintendoSDK Firmware/" ++ fw ++ " (platform:NX; did:" ++ hexL 16 deviceId ++ "; eid:lp1)"

structure Dragons where
  deviceId : Option Nat
  hostDragons : String := "dragons.hac.lp1.dragons.nintendo.net"
  hostDragonst : String := "dragonst.hac.lp1.dragons.nintendo.net"
  hostTigers : String := "tigers.hac.lp1.dragons.nintendo.net"
  version : Nat
  uaNim : Option String
  uaDauth : String
  deriving DecidableEq, Repr, Inhabited

def Dragons.init (T : Tables) (deviceId : Option Nat) : Except Err Dragons :=
  match deviceId with
  | some d =>
    match dictGet T.fw T.latestDragons, dictGet T.dauthUA T.latestDragons with
    | some fw, some ua => .ok { deviceId, version := T.latestDragons, uaNim := some (nimUA fw d), uaDauth := ua }
    | _, _ => .error .key
  | none =>
    match dictGet T.dauthUA T.latestDragons with
    | some ua => .ok { deviceId, version := T.latestDragons, uaNim := none, uaDauth := ua }
    | none => .error .key

def Dragons.setVersion (T : Tables) (s : Dragons) (v : Nat) : Upd Dragons :=
  if !dictHas T.fw v then (s, some .value) else
  let s := { s with version := v }
  let step2 (s : Dragons) : Upd Dragons :=
    match dictGet T.dauthUA v with
    | none => (s, some .key)
    | some ua => ({ s with uaDauth := ua }, none)
  match s.deviceId with
  | none => step2 s
  | some d =>
    match dictGet T.fw v with
    | none => (s, some .key)
    | some fw => step2 { s with uaNim := some (nimUA fw d) }

/-- `SunClient` and `AtumnClient` keep no version attribute, only the derived user agent -/
structure Nim where
  deviceId : Nat
  host : String
  ua : String
  deriving DecidableEq, Repr, Inhabited

def Nim.init (T : Tables) (latest : Nat) (host : String) (deviceId : Nat) : Except Err Nim :=
  match dictGet T.fw latest with
  | some fw => .ok { deviceId, host, ua := nimUA fw deviceId }
  | none => .error .key

def Nim.setVersion (T : Tables) (s : Nim) (v : Nat) : Upd Nim :=
  if !dictHas T.fw v then (s, some .value) else
  match dictGet T.fw v with
  | none => (s, some .key)
  | some fw => ({ s with ua := nimUA fw s.deviceId }, none)

def sunHost := "sun.hac.lp1.d4c.nintendo.net"
def atumnHost := "atumn.hac.lp1.d4c.nintendo.net"

end Nx.Switch
