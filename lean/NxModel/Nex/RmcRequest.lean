import NxModel.Bytes
/-!
# Reading the parameters of an RMC request — the NESTED framing of a request body (C11)

Mirrors what a generated `handle_<method>` does before it calls the user's method: the `input.<type>(...)` statements, i.e.
`nintendo/nex/streams.py` `StreamIn` (on top of `anynet.streams.StreamIn`), `common.Structure.decode` (with and without
structure headers), `common.DataHolder.decode` and the `load` bodies of the structure classes.

The *schema* (types of the parameters, per structure class the fields each class of its hierarchy loads, with the
`if version >= k:` gates; `nex.version` gates are evaluated for the session) is read from the code under test with `ast`
by `harness/rmc_frames.py`; this file is the interpreter.

Framing facts mirrored here (they are what the property's "truncated request body" means below the top level):
* `stream.substream()` = `StreamIn(self.buffer(), settings)`: the `u32 size` bytes are *copied*; everything read from the
  substream is bounded by them, whatever follows in the outer stream (`decBuf` + continuing with the copy only);
* with structure headers every class of a structure's hierarchy is `u8 version, u32 size, size bytes`; bytes of the frame
  the fields do not consume are skipped (warning only), a frame the fields do not fit in is an `OverflowError`;
* `anydata`: name, `substream().substream()` (outer and inner length), then `object_map[name]` (`KeyError`), then the
  structure is read from the inner copy;
* list / map: `u32` count, then that many elements; strings: `u16` length (0 = `None`), strict UTF-8, last character dropped.
-/
namespace Nx.RmcRequest
open Nx

inductive Ty where
  | u8 | u16 | u32 | u64 | s8 | s16 | s32 | s64 | float | double | bool
  | string | buffer | qbuffer | datetime | stationurl | result | variant | anydata
  | list (t : Ty) | map (k v : Ty) | struct (id : Nat)
  deriving DecidableEq, Repr

/-- the body of a `load(self, stream, version)`: attribute assignments and `if version >= k:` blocks, in order -/
inductive Items where
  | nil
  | field (t : Ty) (rest : Items)
  | rev (k : Nat) (body rest : Items)
  deriving DecidableEq, Repr

structure Env where
  structs : List (Nat × List Items)   -- class id ↦ the `load` bodies of its hierarchy, base class first
  registry : List (Bytes × Nat)       -- `DataHolder.object_map`: name (UTF-8 bytes) ↦ class id

inductive Val where
  | none | int (i : Int) | bool (b : Bool) | str (s : Bytes) | bytes (b : Bytes)
  | f32 (bits : Nat) | f64 (bits : Nat) | dt (v : Nat) | res (v : Nat) | url
  | list (l : List Val) | map (l : List (Val × Val))
  | obj (fields : List Val)                      -- attributes in the order they were loaded (gated-out ones are not loaded)
  | any (name : Bytes) (fields : List Val)
  deriving Repr, Inhabited

/-! ## UTF-8 (Python's strict decoder), `[:-1]`, `StationURL.parse` -/

def cont (x : UInt8) : Bool := 0x80 ≤ x.toNat && x.toNat ≤ 0xBF
def inR (lo hi : Nat) (x : UInt8) : Bool := lo ≤ x.toNat && x.toNat ≤ hi

def utf8Valid : Bytes → Bool
  | [] => true
  | a :: r =>
    if a.toNat < 0x80 then utf8Valid r
    else if inR 0xC2 0xDF a then
      match r with | b :: r => cont b && utf8Valid r | _ => false
    else if inR 0xE0 0xEF a then
      match r with
      | b :: c :: r =>
        (if a.toNat = 0xE0 then inR 0xA0 0xBF b else if a.toNat = 0xED then inR 0x80 0x9F b else cont b) && cont c && utf8Valid r
      | _ => false
    else if inR 0xF0 0xF4 a then
      match r with
      | b :: c :: d :: r =>
        (if a.toNat = 0xF0 then inR 0x90 0xBF b else if a.toNat = 0xF4 then inR 0x80 0x8F b else cont b) && cont c && cont d
          && utf8Valid r
      | _ => false
    else false

/-- the UTF-8 bytes of `s[:-1]` for valid UTF-8 `s` -/
def dropLastChar (b : Bytes) : Bytes := ((b.reverse.dropWhile cont).drop 1).reverse

/-- `StreamIn.string`: `none` = Python `None` -/
def decStr (b : Bytes) : Except Err (Option Bytes × Bytes) :=
  match rdU16 b with
  | .error e => .error e
  | .ok (n, r) =>
    if n = 0 then .ok (none, r)
    else match rd n r with
      | .error e => .error e
      | .ok (d, r') => if utf8Valid d then .ok (some (dropLastChar d), r') else .error .unicode

/-- `s.split(sep)` for a one- or two-byte separator -/
def splitGo (sep : Bytes) : Nat → Bytes → Bytes → List Bytes
  | 0, _, acc => [acc.reverse]
  | _, [], acc => [acc.reverse]
  | f + 1, x :: r, acc =>
    if sep.isPrefixOf (x :: r) ∧ !sep.isEmpty then acc.reverse :: splitGo sep f ((x :: r).drop sep.length) []
    else splitGo sep f r (x :: acc)

def split (sep s : Bytes) : List Bytes := splitGo sep (s.length + 1) s []

def asciiBytes (s : String) : Bytes := s.toList.map fun c => b8 c.toNat

/-- `StationURL.parse(string)`: `scheme, fields = string.split(":/")` and `dict(field.split("=") for field in
    fields.split(";"))` are `ValueError`s unless there are exactly two parts; `cls(scheme, **params)` is a `TypeError`
    for a parameter called `scheme` / `self` -/
def parseUrl : Option Bytes → Except Err Unit
  | none => .ok ()
  | some s =>
    if s.isEmpty then .ok () else
    match split (asciiBytes ":/") s with
    | [_, fields] =>
      if fields.isEmpty then .ok () else
      let kvs := (split (asciiBytes ";") fields).map (split (asciiBytes "="))
      if kvs.any (fun kv => kv.length != 2) then .error .value
      else if kvs.any (fun kv => kv.head? == some (asciiBytes "scheme") || kv.head? == some (asciiBytes "self")) then .error .type
      else .ok ()
    | _ => .error .value

/-! ## primitives -/

def decBuf (b : Bytes) : Except Err (Bytes × Bytes) :=
  match rdU32 b with
  | .error e => .error e
  | .ok (n, r) => rd n r

def decQBuf (b : Bytes) : Except Err (Bytes × Bytes) :=
  match rdU16 b with
  | .error e => .error e
  | .ok (n, r) => rd n r

def signed (bits n : Nat) : Int := if n ≥ 2 ^ (bits - 1) then (n : Int) - (2 : Int) ^ bits else (n : Int)

def mapOk {α β : Type} (f : α → β) (x : Except Err (α × Bytes)) : Except Err (β × Bytes) :=
  match x with | .ok (a, r) => .ok (f a, r) | .error e => .error e

def decVariant (b : Bytes) : Except Err (Val × Bytes) :=
  match rdU8 b with
  | .error e => .error e
  | .ok (t, r) =>
    if t = 0 then .ok (.none, r)
    else if t = 1 then mapOk (fun (n : Nat) => .int (signed 64 n)) (rdU64 r)
    else if t = 2 then mapOk .f64 (rdU64 r)
    else if t = 3 then mapOk (fun n => .bool (n != 0)) (rdU8 r)
    else if t = 4 then mapOk (fun s => match s with | some s => .str s | none => .none) (decStr r)
    else if t = 5 then mapOk .dt (rdU64 r)
    else if t = 6 then mapOk (fun (n : Nat) => .int n) (rdU64 r)
    else .error .value

/-- `[func() for i in range(count)]` -/
def decList (f : Bytes → Except Err (Val × Bytes)) : Nat → Bytes → Except Err (List Val × Bytes)
  | 0, b => .ok ([], b)
  | n + 1, b =>
    match f b with
    | .error e => .error e
    | .ok (v, r) => match decList f n r with
      | .error e => .error e
      | .ok (vs, r') => .ok (v :: vs, r')

def decPairs (fk fv : Bytes → Except Err (Val × Bytes)) : Nat → Bytes → Except Err (List (Val × Val) × Bytes)
  | 0, b => .ok ([], b)
  | n + 1, b =>
    match fk b with
    | .error e => .error e
    | .ok (k, r) => match fv r with
      | .error e => .error e
      | .ok (v, r') => match decPairs fk fv n r' with
        | .error e => .error e
        | .ok (kvs, r'') => .ok ((k, v) :: kvs, r'')

/-- reading a whole structure instance of class `id` (`stream.extract(cls)`): supplied by `decObj` -/
abbrev Hook := Nat → Bytes → Except Err (List Val × Bytes)

def lookupName (reg : List (Bytes × Nat)) (s : Bytes) : Option Nat :=
  match reg with
  | [] => none
  | (n, id) :: r => if n = s then some id else lookupName r s

def decTy (R : Hook) (env : Env) : Ty → Bytes → Except Err (Val × Bytes)
  | .u8, b => mapOk (fun (n : Nat) => .int n) (rdU8 b)
  | .u16, b => mapOk (fun (n : Nat) => .int n) (rdU16 b)
  | .u32, b => mapOk (fun (n : Nat) => .int n) (rdU32 b)
  | .u64, b => mapOk (fun (n : Nat) => .int n) (rdU64 b)
  | .s8, b => mapOk (fun (n : Nat) => .int (signed 8 n)) (rdU8 b)
  | .s16, b => mapOk (fun (n : Nat) => .int (signed 16 n)) (rdU16 b)
  | .s32, b => mapOk (fun (n : Nat) => .int (signed 32 n)) (rdU32 b)
  | .s64, b => mapOk (fun (n : Nat) => .int (signed 64 n)) (rdU64 b)
  | .float, b => mapOk .f32 (rdU32 b)
  | .double, b => mapOk .f64 (rdU64 b)
  | .bool, b => mapOk (fun n => .bool (n != 0)) (rdU8 b)
  | .string, b => mapOk (fun s => match s with | some s => .str s | none => .none) (decStr b)
  | .buffer, b => mapOk .bytes (decBuf b)
  | .qbuffer, b => mapOk .bytes (decQBuf b)
  | .datetime, b => mapOk .dt (rdU64 b)
  | .result, b => mapOk .res (rdU32 b)
  | .stationurl, b =>
    (match decStr b with
     | .error e => .error e
     | .ok (s, r) => match parseUrl s with
       | .error e => .error e
       | .ok () => .ok (.url, r))
  | .variant, b => decVariant b
  | .list t, b =>
    (match rdU32 b with
     | .error e => .error e
     | .ok (n, r) => mapOk .list (decList (decTy R env t) n r))
  | .map k v, b =>
    (match rdU32 b with
     | .error e => .error e
     | .ok (n, r) => mapOk .map (decPairs (decTy R env k) (decTy R env v) n r))
  | .struct id, b => mapOk .obj (R id b)
  | .anydata, b =>
    -- DataHolder.decode: name, substream().substream(), then object_map[name], then extract from the inner copy
    match decStr b with
    | .error e => .error e
    | .ok (nm, r) =>
      match decBuf r with
      | .error e => .error e
      | .ok (outer, r') =>
        match decBuf outer with
        | .error e => .error e
        | .ok (inner, _) =>
          match nm with
          | none => .error .key
          | some s =>
            match lookupName env.registry s with
            | none => .error .key
            | some id =>
              match R id inner with
              | .error e => .error e
              | .ok (fs, _) => .ok (.any s fs, r')

/-- a `load` body run on stream `b` with the given `version` -/
def decItems (R : Hook) (env : Env) (ver : Nat) : Items → Bytes → Except Err (List Val × Bytes)
  | .nil, b => .ok ([], b)
  | .field t rest, b =>
    (match decTy R env t b with
     | .error e => .error e
     | .ok (v, b1) => match decItems R env ver rest b1 with
       | .error e => .error e
       | .ok (vs, b2) => .ok (v :: vs, b2))
  | .rev k body rest, b =>
    if ver ≥ k then
      (match decItems R env ver body b with
       | .error e => .error e
       | .ok (vs1, b1) => match decItems R env ver rest b1 with
         | .error e => .error e
         | .ok (vs2, b2) => .ok (vs1 ++ vs2, b2))
    else decItems R env ver rest b

/-- one iteration of the hierarchy loop of `Structure.decode`: with structure headers the class's part is a frame
    `u8 version, u32 size, size bytes`; `load` reads from a COPY of those `size` bytes (left-over bytes: warning only) -/
def decLevel (R : Hook) (env : Env) (hdr : Bool) (items : Items) (b : Bytes) : Except Err (List Val × Bytes) :=
  if hdr then
    match rdU8 b with
    | .error e => .error e
    | .ok (ver, r) =>
      match decBuf r with
      | .error e => .error e
      | .ok (frame, r') =>
        match decItems R env ver items frame with
        | .error e => .error e
        | .ok (vs, _) => .ok (vs, r')
  else decItems R env 0 items b

def decLevels (R : Hook) (env : Env) (hdr : Bool) : List Items → Bytes → Except Err (List Val × Bytes)
  | [], b => .ok ([], b)
  | l :: ls, b =>
    match decLevel R env hdr l b with
    | .error e => .error e
    | .ok (vs, b1) => match decLevels R env hdr ls b1 with
      | .error e => .error e
      | .ok (ws, b2) => .ok (vs ++ ws, b2)

def lookupStruct (structs : List (Nat × List Items)) (id : Nat) : Option (List Items) :=
  match structs with
  | [] => none
  | (i, ls) :: r => if i = id then some ls else lookupStruct r id

/-- `stream.extract(cls)`; the fuel bounds the nesting depth of structure instances (never reached by the harness) -/
def decObj (env : Env) (hdr : Bool) : Nat → Hook
  | 0, _, _ => .error .other
  | f + 1, id, b =>
    match lookupStruct env.structs id with
    | none => .error .other
    | some levels => decLevels (decObj env hdr f) env hdr levels b

def fuel : Nat := 64

/-- the `input.<type>(...)` statements of a generated handler, in order; left-over input is not looked at -/
def decArgs (R : Hook) (env : Env) : List Ty → Bytes → Except Err (List Val × Bytes)
  | [], b => .ok ([], b)
  | t :: ts, b =>
    match decTy R env t b with
    | .error e => .error e
    | .ok (v, r) => match decArgs R env ts r with
      | .error e => .error e
      | .ok (vs, r') => .ok (v :: vs, r')

/-- what reading the parameters of a request with body `b` does: the argument values, or the exception -/
def readRequest (env : Env) (hdr : Bool) (tys : List Ty) (b : Bytes) : Except Err (List Val) :=
  match decArgs (decObj env hdr fuel) env tys b with
  | .error e => .error e
  | .ok (vs, _) => .ok vs

end Nx.RmcRequest
