import NxProofs.HandshakeServer
/-!
# C01 / C06 — the client's half of `Established`

What `handshake()`, `process_syn` and `process_connect` leave in the client object: the receiver role and the ciphers are never
touched by the handshake (`HsFresh` is kept by every `handle` of a SYN or CONNECT packet and by sending one), and the send
counter of substream 0 moves from 1 to 2 exactly when the SYN/ACK is accepted and the CONNECT goes out.
-/
namespace Nx.L1
open Nx Nx.Prudp Nx.Chan Nx.Crypto

variable {ks : List Bytes} {on : Bool}

/-- the fields of the receiver role and the ciphers, as `Conn.new` (+ `login`) leaves them, on a live link -/
structure HsFresh (c : Conn) (n : Nat) (ks : List Bytes) (on : Bool) : Prop where
  win : c.windows = List.replicate n { next := 1, packets := [] }
  q : c.queues = List.replicate n []
  fb : c.fragBufs = List.replicate n []
  eof : c.eof = false
  link : c.linkUp = true
  keys : ks.length = n ∧ c.relCiphers = ks.map (fun k => { key := k })
  con : c.cipherOn = on
  only : ∀ p ∈ resendsOf c, p.type = TYPE_SYN ∨ p.type = TYPE_CONNECT

theorem arm_hsFresh (c : Conn) (n : Nat) (now : Time) (p : Packet) (k : Nat) (h : HsFresh c n ks on)
    (hp : p.type = TYPE_SYN ∨ p.type = TYPE_CONNECT) : HsFresh (c.arm now p k) n ks on := by
  unfold Conn.arm
  cases hs : c.sched with
  | none => exact h
  | some s =>
    simp only []
    refine ⟨h.win, h.q, h.fb, h.eof, h.link, h.keys, h.con, ?_⟩
    intro q hq
    have hold := h.only
    simp only [resendsOf, hs] at hold
    simp only [resendsOf, Sched.schedule, List.filterMap_append, List.mem_append, List.filterMap_cons, List.filterMap_nil, actPacket,
      List.mem_singleton] at hq
    rcases hq with hq | hq
    · exact hold q hq
    · rw [hq]; exact hp

theorem transmit_hs (env : Env) (now : Time) (c : Conn) (n : Nat) (q : Packet) (h : HsFresh c n ks on)
    (hq : q.type = TYPE_SYN ∨ q.type = TYPE_CONNECT) :
    HsFresh (c.transmit env now q).c n ks on ∧ (c.transmit env now q).c.state = c.state ∧ (c.transmit env now q).c.counters = c.counters := by
  unfold Conn.transmit
  have hl : (!c.linkUp) = false := by rw [h.link]; rfl
  rw [hl]
  simp only [Bool.false_eq_true, if_false]
  cases encodeChecked env.cfg q with
  | error e => exact ⟨h, rfl, rfl⟩
  | ok data =>
    simp only []
    by_cases hc : ((hasReliable q.flags || q.type == TYPE_SYN) && hasNeedAck q.flags) = true
    · rw [if_pos hc]
      refine ⟨arm_hsFresh c n now q 0 h hq, ?_, ?_⟩ <;> (unfold Conn.arm; cases c.sched <;> rfl)
    · rw [if_neg hc]; exact ⟨h, rfl, rfl⟩

/-- sending a SYN or a CONNECT: the receiver role and the ciphers stay as they are, the state stays, and the counter of the
    packet's substream advances iff the packet is reliable (the CONNECT) -/
theorem sendPacket_hs (env : Env) (now : Time) (c : Conn) (n : Nat) (p : Packet) (h : HsFresh c n ks on)
    (hp : p.type = TYPE_SYN ∨ p.type = TYPE_CONNECT) (hna : (hasAck p.flags || hasMultiAck p.flags) = false) :
    HsFresh (c.sendPacket env now p).c n ks on ∧ (c.sendPacket env now p).c.state = c.state ∧
    ((c.sendPacket env now p).c.counters = c.counters ∨
      (hasReliable p.flags = true ∧ ∃ k, c.counters[p.substreamId]? = some k ∧
        (c.sendPacket env now p).c.counters = setAt c.counters p.substreamId (seqNext k))) ∧
    (∀ k, hasReliable p.flags = true → c.counters[p.substreamId]? = some k →
        (c.sendPacket env now p).c.counters = setAt c.counters p.substreamId (seqNext k)) := by
  have hnd : p.type ≠ TYPE_DATA := by rcases hp with h1 | h1 <;> rw [h1] <;> decide
  have hnp : p.type ≠ TYPE_PING := by rcases hp with h1 | h1 <;> rw [h1] <;> decide
  unfold Conn.sendPacket
  simp only [hna, Conn.assignIf, Bool.false_eq_true, if_false, Conn.assign]
  by_cases hr : hasReliable p.flags = true
  · simp only [hr, if_true]
    cases hk : c.counters[p.substreamId]? with
    | none => exact ⟨h, rfl, Or.inl rfl, fun k _ hk' => by cases hk'⟩
    | some k =>
      have h1 : HsFresh ({ c with counters := setAt c.counters p.substreamId (seqNext k) } : Conn) n ks on :=
        ⟨h.win, h.q, h.fb, h.eof, h.link, h.keys, h.con, h.only⟩
      by_cases hsyn : p.type = TYPE_SYN
      · simp only [hsyn, ne_eq, not_true_eq_false, if_false, Conn.encodeIf, show TYPE_SYN ≠ TYPE_DATA by decide, false_and]
        refine (fun t => ⟨t.1, t.2.1, Or.inr ⟨trivial, k, rfl, t.2.2⟩, fun k' _ hk' => by cases hk'; exact t.2.2⟩) (transmit_hs env now _ n _ h1 (Or.inl ?_))
        rfl
      · have hcon : p.type = TYPE_CONNECT := by rcases hp with h2 | h2; exact absurd h2 hsyn; exact h2
        simp only [hcon, ne_eq, show ¬ TYPE_CONNECT = TYPE_SYN by decide, not_false_eq_true, if_true, Conn.encodeIf,
          show TYPE_CONNECT ≠ TYPE_DATA by decide, false_and, if_false]
        refine (fun t => ⟨t.1, t.2.1, Or.inr ⟨trivial, k, rfl, t.2.2⟩, fun k' _ hk' => by cases hk'; exact t.2.2⟩) (transmit_hs env now _ n _ h1 (Or.inr ?_))
        rfl
  · simp only [hr, Bool.false_eq_true, if_false, hnd, hnp]
    by_cases hsyn : p.type = TYPE_SYN
    · simp only [hsyn, ne_eq, not_true_eq_false, if_false, Conn.encodeIf, show TYPE_SYN ≠ TYPE_DATA by decide, false_and]
      refine (fun t => ⟨t.1, t.2.1, Or.inl t.2.2, fun k hr' _ => False.elim hr'⟩) (transmit_hs env now c n _ h (Or.inl ?_))
      rfl
    · have hcon : p.type = TYPE_CONNECT := by rcases hp with h2 | h2; exact absurd h2 hsyn; exact h2
      simp only [hcon, ne_eq, show ¬ TYPE_CONNECT = TYPE_SYN by decide, not_false_eq_true, if_true, Conn.encodeIf,
        show TYPE_CONNECT ≠ TYPE_DATA by decide, false_and, if_false]
      refine (fun t => ⟨t.1, t.2.1, Or.inl t.2.2, fun k hr' _ => False.elim hr'⟩) (transmit_hs env now c n _ h (Or.inr ?_))
      rfl

theorem hsFresh_of_fields {c c' : Conn} {n : Nat} (h : HsFresh c n ks on) (hw : c'.windows = c.windows) (hq : c'.queues = c.queues)
    (hf : c'.fragBufs = c.fragBufs) (he : c'.eof = c.eof) (hl : c'.linkUp = c.linkUp) (hr : c'.relCiphers = c.relCiphers)
    (hc : c'.cipherOn = c.cipherOn)
    (hs : ∀ p ∈ resendsOf c', p ∈ resendsOf c) : HsFresh c' n ks on :=
  ⟨hw.trans h.win, hq.trans h.q, hf.trans h.fb, he.trans h.eof, hl.trans h.link, by rw [hr]; exact h.keys, hc.trans h.con, fun p hp => h.only p (hs p hp)⟩

/-- removing the timer of an acknowledged packet -/
theorem ackRemoval_hs (c : Conn) (n : Nat) (key : AckKey) (hd : Nat) (h : HsFresh c n ks on) :
    HsFresh ({ c with ackEvents := ackErase key c.ackEvents, sched := c.sched.map (·.remove hd) } : Conn) n ks on := by
  refine hsFresh_of_fields h rfl rfl rfl rfl rfl rfl rfl ?_
  intro p hp
  cases hs : c.sched with
  | none => simp [resendsOf, hs] at hp
  | some s =>
    simp only [resendsOf, hs, Option.map, Sched.remove, List.mem_filterMap, List.mem_filter] at hp ⊢
    obtain ⟨t, ⟨ht, _⟩, hpt⟩ := hp
    exact ⟨t, ht, hpt⟩

/-- **the client handles a SYN/ACK**: the receiver role and the ciphers stay as they are; either nothing of the send counters and
    the state changes, or the client is now CONNECTED and the counter of substream 0 has advanced by one (the CONNECT went out) -/
theorem handle_syn_hs (env : Env) (now : Time) (c : Conn) (n : Nat) (p : Packet) (h : HsFresh c n ks on) (hp : p.type = TYPE_SYN)
    (hst : c.state = STATE_CONNECTING) :
    HsFresh (c.handle env now p).c n ks on ∧
    (((c.handle env now p).c.state = STATE_CONNECTING ∧ (c.handle env now p).c.counters = c.counters) ∨
     ((c.handle env now p).c.state = STATE_CONNECTED ∧
        ∀ k, c.counters[0]? = some k → (c.handle env now p).c.counters = setAt c.counters 0 (seqNext k))) := by
  have hnd : c.state ≠ STATE_DISCONNECTED := by rw [hst]; decide
  unfold Conn.handle
  rw [if_neg hnd, if_neg (by intro hh; exact hh.2 hp)]
  simp only [hp, if_true]
  -- the effect of process_syn
  have hps : HsFresh (c.processSyn env now p).c n ks on ∧
      (((c.processSyn env now p).c.state = STATE_CONNECTING ∧ (c.processSyn env now p).c.counters = c.counters) ∨
       ((c.processSyn env now p).c.state = STATE_CONNECTED ∧
          ∀ k, c.counters[0]? = some k → (c.processSyn env now p).c.counters = setAt c.counters 0 (seqNext k))) := by
    unfold Conn.processSyn
    split
    · exact ⟨h, Or.inl ⟨hst, rfl⟩⟩
    · split
      · exact ⟨h, Or.inl ⟨hst, rfl⟩⟩
      · split
        · exact ⟨h, Or.inl ⟨hst, rfl⟩⟩
        · split
          · exact ⟨h, Or.inl ⟨hst, rfl⟩⟩
          · split
            · simp only []
              unfold Conn.sendConnect
              have h1 : HsFresh ({ c with
                  state := STATE_CONNECTED
                  maxSub := p.maxSubstreamId
                  minorVer := p.minorVersion
                  supFuncs := p.supportedFunctions
                  remoteSignature := p.connectionSignature } : Conn) n ks on :=
                hsFresh_of_fields h rfl rfl rfl rfl rfl rfl rfl (fun _ hq => hq)
              have := sendPacket_hs env now _ n ({ mkPacket TYPE_CONNECT (FLAG_RELIABLE + FLAG_NEED_ACK + FLAG_HAS_SIZE) with
                  connectionSignature := some (env.connSig c.codec c.remoteAddr)
                  initialUnreliableId := c.initialUnrelId
                  maxSubstreamId := p.maxSubstreamId
                  minorVersion := p.minorVersion
                  supportedFunctions := p.supportedFunctions
                  payload := Conn.buildConnectionRequest env ({ c with
                    state := STATE_CONNECTED
                    maxSub := p.maxSubstreamId
                    minorVer := p.minorVersion
                    supFuncs := p.supportedFunctions
                    remoteSignature := p.connectionSignature } : Conn) } : Packet) h1 (Or.inr rfl)
                (by show (hasAck (FLAG_RELIABLE + FLAG_NEED_ACK + FLAG_HAS_SIZE) || hasMultiAck (FLAG_RELIABLE + FLAG_NEED_ACK + FLAG_HAS_SIZE)) = false; decide)
              exact ⟨this.1, Or.inr ⟨this.2.1, fun k hk => this.2.2.2 k (by show hasReliable (FLAG_RELIABLE + FLAG_NEED_ACK + FLAG_HAS_SIZE) = true; decide) hk⟩⟩
            · exact ⟨h, Or.inl ⟨hst, rfl⟩⟩
  -- the acknowledgement bookkeeping of `handle`
  unfold R.bind
  cases he : (c.processSyn env now p).err with
  | some e => simp only []; exact hps
  | none =>
    simp only []
    split
    · split
      · rename_i hd hlk
        have hnd2 : p.type ≠ TYPE_DISCONNECT := by rw [hp]; decide
        simp only [hnd2, if_false, R.ok]
        exact ⟨ackRemoval_hs _ n _ hd hps.1, hps.2⟩
      · exact hps
    · exact hps

/-- **the client handles a CONNECT/ACK** (or any CONNECT packet): receiver role, ciphers, state and send counters stay -/
theorem handle_connect_hs (env : Env) (now : Time) (c : Conn) (n : Nat) (p : Packet) (h : HsFresh c n ks on) (hp : p.type = TYPE_CONNECT) :
    HsFresh (c.handle env now p).c n ks on ∧ (c.handle env now p).c.state = c.state ∧ (c.handle env now p).c.counters = c.counters := by
  unfold Conn.handle
  split
  · exact ⟨h, rfl, rfl⟩
  · split
    · exact ⟨h, rfl, rfl⟩
    · have hns : p.type ≠ TYPE_SYN := by rw [hp]; decide
      simp only [hp, show (TYPE_CONNECT = TYPE_SYN) = False by decide, if_false, if_true]
      have hpc : HsFresh (c.processConnect env p).c n ks on ∧ (c.processConnect env p).c.state = c.state ∧
          (c.processConnect env p).c.counters = c.counters := by
        unfold Conn.processConnect
        split
        · exact ⟨h, rfl, rfl⟩
        · split
          · exact ⟨h, rfl, rfl⟩
          · split
            · exact ⟨h, rfl, rfl⟩
            · split
              · exact ⟨h, rfl, rfl⟩
              · split
                · split
                  · exact ⟨h, rfl, rfl⟩
                  · exact ⟨hsFresh_of_fields h rfl rfl rfl rfl rfl rfl rfl (fun _ hq => hq), rfl, rfl⟩
                · exact ⟨h, rfl, rfl⟩
      unfold R.bind
      cases he : (c.processConnect env p).err with
      | some e => simp only []; exact hpc
      | none =>
        simp only []
        split
        · split
          · rename_i hd hlk
            simp only [show ¬ TYPE_CONNECT = TYPE_DISCONNECT by decide, if_false, R.ok]
            exact ⟨ackRemoval_hs _ n _ hd hpc.1, hpc.2.1, hpc.2.2⟩
          · exact hpc
        · exact hpc

theorem resume_hs (now : Time) (c : Conn) (n : Nat) (h : HsFresh c n ks on) :
    HsFresh (c.resumeHandshake now).c n ks on ∧ (c.resumeHandshake now).c.state = c.state ∧ (c.resumeHandshake now).c.counters = c.counters := by
  unfold Conn.resumeHandshake
  split
  · split
    · split
      · rename_i s hs
        refine ⟨hsFresh_of_fields h rfl rfl rfl rfl rfl rfl rfl ?_, rfl, rfl⟩
        intro q hq
        have hq' : q ∈ (s.events ++ [({ handle := s.nextHandle, deadline := now + c.pingTimeout, rep := some c.pingTimeout, act := Action.ping } : Timer)]).filterMap (fun (t : Timer) => actPacket t.act) := hq
        simp only [List.filterMap_append, List.filterMap_cons, List.filterMap_nil, actPacket, List.append_nil] at hq'
        simp only [resendsOf, hs]
        exact hq'
      · exact ⟨hsFresh_of_fields h rfl rfl rfl rfl rfl rfl rfl (fun _ hq => hq), rfl, rfl⟩
    · exact ⟨hsFresh_of_fields h rfl rfl rfl rfl rfl rfl rfl (fun _ hq => hq), rfl, rfl⟩
  · exact ⟨h, rfl, rfl⟩

/-- the substream keys of a client after `Conn.new` and the login of `handshake()` -/
def clientKeys (env : Env) (creds : Option Creds) : List Bytes :=
  match creds with
  | none => List.replicate (env.s.maxSubstreamId + 1) [0x43, 0x44, 0x26, 0x4D, 0x4C]
  | some cr => keyChain (env.s.maxSubstreamId + 1) cr.sessionKey

/-- **`handshake()` on a new client object**: the SYN goes out; receiver role and ciphers as `Conn.new` (+ `login`) left them,
    CONNECTING, every send counter at 1 -/
theorem handshake_start_hs (env : Env) (version : Option Nat) (u chk sid : Nat) (la : Addr) (lp lt : Nat) (ra : Addr) (rp rt : Nat)
    (t0 : Time) (creds : Option Creds) :
    let c1 := ((Conn.new env version u chk sid la lp lt ra rp rt).handshake env t0 creds).c
    HsFresh c1 (env.s.maxSubstreamId + 1) (clientKeys env creds) (env.s.transport == TRANSPORT_UDP) ∧ c1.state = STATE_CONNECTING ∧
      c1.counters = List.replicate (env.s.maxSubstreamId + 1) 1 := by
  intro c1
  have base : ∀ (c' : Conn) (ks : List Bytes), c'.windows = List.replicate (env.s.maxSubstreamId + 1) { next := 1, packets := [] } →
      c'.queues = List.replicate (env.s.maxSubstreamId + 1) [] → c'.fragBufs = List.replicate (env.s.maxSubstreamId + 1) [] →
      c'.eof = false → c'.linkUp = true →
      (ks.length = env.s.maxSubstreamId + 1 ∧ c'.relCiphers = ks.map (fun k => { key := k })) →
      c'.cipherOn = (env.s.transport == TRANSPORT_UDP) →
      c'.sched = some {} → c'.state = STATE_CONNECTING → c'.counters = List.replicate (env.s.maxSubstreamId + 1) 1 →
      HsFresh (c'.sendSyn env t0).c (env.s.maxSubstreamId + 1) ks (env.s.transport == TRANSPORT_UDP) ∧ (c'.sendSyn env t0).c.state = STATE_CONNECTING ∧
      (c'.sendSyn env t0).c.counters = List.replicate (env.s.maxSubstreamId + 1) 1 := by
    intro c' ks hw hq hf he hl hk hon hs hst hc
    have h0 : HsFresh c' (env.s.maxSubstreamId + 1) ks (env.s.transport == TRANSPORT_UDP) :=
      ⟨hw, hq, hf, he, hl, hk, hon, fun p hp => by simp [resendsOf, hs] at hp⟩
    unfold Conn.sendSyn
    have := sendPacket_hs env t0 c' _ ({ mkPacket TYPE_SYN FLAG_NEED_ACK with
        connectionSignature := some (List.replicate (signatureSize c'.codec) 0)
        maxSubstreamId := c'.maxSub
        supportedFunctions := c'.supFuncs
        minorVersion := c'.minorVer } : Packet) h0 (Or.inl rfl)
      (by show (hasAck FLAG_NEED_ACK || hasMultiAck FLAG_NEED_ACK) = false; decide)
    refine ⟨this.1, this.2.1.trans hst, ?_⟩
    rcases this.2.2.1 with h1 | ⟨h1, _⟩
    · exact h1.trans hc
    · exact absurd h1 (by show ¬ hasReliable FLAG_NEED_ACK = true; decide)
  cases creds with
  | none =>
    exact base _ _ rfl rfl rfl rfl rfl ⟨by simp [clientKeys], by simp [clientKeys, Conn.new]⟩ rfl rfl rfl rfl
  | some cr =>
    exact base _ _ rfl rfl rfl rfl rfl ⟨keyChain_length _ _, by simp [clientKeys, Conn.login, Conn.new]⟩ rfl rfl rfl rfl

/-- **the client's half of `Established`, for every configuration**: a new client object, `handshake()`, a SYN packet handled, a
    CONNECT packet handled, the parked `handshake()` resumed — if the client is CONNECTED after that, it is `ClientReady` on every
    substream the settings allow (whatever the environment, the addresses and ports, the random draws, the credentials, the two
    packets and the instants) -/
theorem client_half_established (env : Env) (version : Option Nat) (u chk sid : Nat) (la : Addr) (lp lt : Nat) (ra : Addr) (rp rt : Nat)
    (t0 t1 t2 t3 : Time) (creds : Option Creds) (synAck conAck : Packet) (hs : synAck.type = TYPE_SYN) (hc : conAck.type = TYPE_CONNECT)
    (sub : Nat) (hsub : sub ≤ env.s.maxSubstreamId) :
    let c1 := ((Conn.new env version u chk sid la lp lt ra rp rt).handshake env t0 creds).c
    let c2 := (c1.handle env t1 synAck).c
    let c3 := (c2.handle env t2 conAck).c
    let c4 := (c3.resumeHandshake t3).c
    c4.state = STATE_CONNECTED →
      ClientReady c4 sub ∧ c4.relCiphers = (clientKeys env creds).map (fun k => { key := k }) ∧
      c4.cipherOn = (env.s.transport == TRANSPORT_UDP) := by
  intro c1 c2 c3 c4 hconn
  have hn : sub < env.s.maxSubstreamId + 1 := by omega
  obtain ⟨f1, s1, k1⟩ := handshake_start_hs env version u chk sid la lp lt ra rp rt t0 creds
  obtain ⟨f2, e2⟩ := handle_syn_hs env t1 c1 _ synAck f1 hs s1
  obtain ⟨f3, s3, k3⟩ := handle_connect_hs env t2 c2 _ conAck f2 hc
  obtain ⟨f4, s4, k4⟩ := resume_hs t3 c3 _ f3
  have hst2 : c2.state = STATE_CONNECTED := by rw [← s3, ← s4]; exact hconn
  have hk2 : c2.counters = setAt (List.replicate (env.s.maxSubstreamId + 1) 1) 0 2 := by
    rcases e2 with ⟨h1, _⟩ | ⟨_, h2⟩
    · rw [hst2] at h1; exact absurd h1 (by decide)
    · have := h2 1 (by rw [k1]; exact replicate_get _ _ _ (by omega))
      rw [this, k1]; rfl
  have hk4 : c4.counters = setAt (List.replicate (env.s.maxSubstreamId + 1) 1) 0 2 := by rw [k4, k3, hk2]
  obtain ⟨hkl, hrk⟩ := f4.keys
  have hsl : sub < (clientKeys env creds).length := by omega
  refine ⟨⟨?_, ?_, ?_, ?_, ⟨f4.eof, f4.link⟩, ?_, ?_, ?_⟩, hrk, f4.con⟩
  · rw [hk4]
    by_cases h0 : sub = 0
    · subst h0
      simp only [setAt, if_true]
      rw [List.getElem?_set_self (by simp)]
    · simp only [setAt, h0, if_false]
      rw [List.getElem?_set_ne (by omega)]
      exact replicate_get _ _ _ hn
  · rw [f4.win]; exact replicate_get _ _ _ hn
  · rw [f4.q]; exact replicate_get _ _ _ hn
  · rw [f4.fb]; exact replicate_get _ _ _ hn
  · rw [hrk, List.getElem?_map, List.getElem?_eq_getElem hsl]; rfl
  · rw [hrk, List.getElem?_map, List.getElem?_eq_getElem hsl]; rfl
  · intro p hp
    rcases f4.only p hp with h1 | h1 <;> simp [relevant, h1]

theorem ackLookup_none_of_no_type (t : Nat) (key : AckKey) (hk : key.1 = t) :
    ∀ (l : List (AckKey × Nat)), (∀ e ∈ l, e.1.1 ≠ t) → ackLookup key l = none := by
  intro l
  induction l with
  | nil => intro _; rfl
  | cons e r ih =>
    intro h
    have he := h e List.mem_cons_self
    unfold ackLookup
    have : e.1 ≠ key := by intro heq; rw [heq, hk] at he; exact he rfl
    obtain ⟨k', v⟩ := e
    simp only [] at this ⊢
    rw [if_neg this]
    exact ih (fun x hx => h x (List.mem_cons_of_mem _ hx))

/-- **a SYN packet that arrives when no SYN is waiting for its acknowledgement changes nothing** — whatever it claims (a late or
    duplicated SYN/ACK, a crafted one with other parameters or another connection signature): the established connection keeps
    its negotiated parameters, the peer's signature, its counters, everything -/
theorem late_syn_inert (env : Env) (now : Time) (c : Conn) (p : Packet) (hp : p.type = TYPE_SYN)
    (hst : c.state = STATE_CONNECTED) (hno : ∀ e ∈ c.ackEvents, e.1.1 ≠ TYPE_SYN) : (c.handle env now p).c = c := by
  have hl : ackLookup (ackKeyOf p) c.ackEvents = none := ackLookup_none_of_no_type TYPE_SYN _ hp _ hno
  unfold Conn.handle
  rw [if_neg (by rw [hst]; decide), if_neg (by rw [hst]; intro h; exact absurd h.1 (by decide))]
  simp only [hp, if_true]
  have hps : (c.processSyn env now p).c = c := by
    unfold Conn.processSyn
    split
    · rfl
    · split
      · rfl
      · split
        · rfl
        · split
          · rfl
          · rw [hl]; rfl
  unfold R.bind
  cases he : (c.processSyn env now p).err with
  | some e => simp only []; exact hps
  | none =>
    simp only [hps]
    split
    · rw [hl]; rfl
    · rfl

/-- the same for a CONNECT packet when no CONNECT is waiting for its acknowledgement -/
theorem late_connect_inert (env : Env) (now : Time) (c : Conn) (p : Packet) (hp : p.type = TYPE_CONNECT)
    (hno : ∀ e ∈ c.ackEvents, e.1.1 ≠ TYPE_CONNECT) : (c.handle env now p).c = c := by
  have hl : ackLookup (ackKeyOf p) c.ackEvents = none := ackLookup_none_of_no_type TYPE_CONNECT _ hp _ hno
  unfold Conn.handle
  split
  · rfl
  · split
    · rfl
    · simp only [hp, show (TYPE_CONNECT = TYPE_SYN) = False by decide, if_false, if_true]
      have hpc : (c.processConnect env p).c = c := by
        unfold Conn.processConnect
        split
        · rfl
        · split
          · rfl
          · split
            · rfl
            · split
              · rfl
              · rw [hl]; rfl
      unfold R.bind
      cases he : (c.processConnect env p).err with
      | some e => simp only []; exact hpc
      | none =>
        simp only [hpc]
        split
        · rw [hl]; rfl
        · rfl

end Nx.L1
