"""C11 — a LISTENER over its lifetime: several connections, per-connection registration (an axis the property quantifies over).

`rmc.serve(settings, servers, ...)` / `rmc.serve_on_transport(settings, servers, transport, port)` accept any number of
connections while they are open; each accepted connection gets an `RMCClient` of its own that starts with the
listener's `servers`. A handler is handed that `RMCClient` and may attach further servers to it
(`client.register_server(obj)`: a login / register handler giving an authenticated client its per-client services).
The property speaks of EVERY incoming request on EVERY connection:
 * a request for a protocol that THIS connection has no server for is answered Core::NotImplemented and runs no handler,
   whatever other connections of the listener (earlier, concurrent) registered for themselves;
 * a request for a protocol this connection registered is handled by the object this connection registered, with this
   connection's client, and answered on this connection only;
 * a handler that registers a protocol its connection does not have succeeds (every connection can register its own
   instance); registering one the connection already has raises inside the handler -> PythonCore::Exception;
 * a registration ends with its connection: a connection accepted later starts with the listener's servers only;
 * closing one connection changes nothing for the others.

The REAL functions run: `rmc.serve_on_transport` with the in-memory transport below, and `rmc.serve` -> the real
`prudp.serve` with `prudp.serve_transport` (the function that would open the socket) yielding the same in-memory
transport. The transport does what `PRUDPServerStream.serve_client` does with the handler it is given: one task per
accepted connection, `await handler(client)`; the "PRUDP client" is the raw peer of harness/rmc_server_sim.py.

One listener run plays EVENTS, one at a time (the next after everything the library can do has been done):
  {"ev": "open", "conn": c}                  a client connects: the listener's handler is started for it
  {"ev": "req", "conn": c, "case": <case>}   the peer of connection c sends a request; `case["script"]["register"] = [k, ...]`
                                             makes the scripted user method first call `client.register_server(<new instance of
                                             srvinfos[k]>)` for each k (a "gate"), then do what the script says
  {"ev": "close", "conn": c}                 the peer of connection c goes away (end of stream)
`srvinfos[:n_listener]` are the classes whose instances are given to serve(); the others are per-connection classes.
A `req` record has the fields of rmc_server_sim.run_session (same oracle, same model replay) and in addition
  "elsewhere": {conn: [datagrams]} sent on OTHER connections during the event,
  "owners": [[owner, conn of the client handed to handle(), class]] per generated handle() entered (owner "L" = listener's object),
  "registered": [[k, "ok" | exception type name]] per register_server call of the handler.
"""
import contextlib, asyncio
import anyio
from nintendo.nex import rmc, prudp
import rmc_server_sim as R
import rmc_frames as FR

APIS = ("serve_on_transport", "serve")
SETTLE = 4
MAX_ROUNDS = 400


class ConnPeer(R.Peer):
    """what the transport hands to the listener's handler for connection `conn`"""
    def __init__(self, minor, conn):
        super().__init__(minor)
        self.conn = conn
        self.state = "new"          # new -> alive -> returned | crash:<type>
    def pid(self): return 1000 + self.conn
    def remote_address(self): return ("10.0.%d.%d" % (self.conn // 250, self.conn % 250 + 1), 50000 + self.conn)
    def remote_sid(self): return 1 + self.conn
    async def __aenter__(self): return self
    async def __aexit__(self, typ, val, tb): self.closed = True


class MemTransport:
    """in-memory stand-in for a PRUDPServerTransport: serve(handler, port, type, key) + accept(peer)"""
    def __init__(self):
        self.handler = None
        self.group = None
        self.served = []
        self.teardown = False

    @contextlib.asynccontextmanager
    async def serve(self, handler, port, type=10, key=None, *, disconnect_timeout=None):
        self.served.append([port, type, key is not None])
        async with anyio.create_task_group() as group:
            self.handler, self.group = handler, group
            try:
                yield
            finally:
                self.handler = None
                self.teardown = True
                group.cancel_scope.cancel()

    def local_address(self): return ("10.9.9.9", 60000)

    def accept(self, peer):
        if self.handler is None: raise RuntimeError("the listener is not serving")
        self.group.start_soon(self._client, peer)

    async def _client(self, peer):
        peer.state = "alive"
        try:
            async with peer:
                await self.handler(peer)
            peer.state = "returned"
        except BaseException as e:
            if isinstance(e, asyncio.CancelledError) and self.teardown: raise
            peer.state = "crash:" + type(e).__name__     # (serve_client logs exceptions and goes on serving the others)


def conn_of(client):
    return getattr(getattr(client, "client", None), "conn", None)


async def run_listener(api, srvinfos, n_listener, events, minor=0):
    """-> (records, info): one record per event; info = what the listener asked of the transport"""
    cell = R.Cell()
    S = R.config_settings(minor)
    if any(e["ev"] == "req" and e["case"].get("ref") for e in events): cell.schema = FR.schema_for(S)
    log = {"owners": [], "registered": []}

    def make_instance(k, owner):
        si = srvinfos[k]
        srv = R.instrument(si, cell)
        for m in si["methods"]:
            if not m["supported"]: continue
            def wrap(m, inner):
                async def user(client, *args):
                    for j in (cell.script.get("register") or []):
                        inst = make_instance(j, conn_of(client))
                        try:
                            client.register_server(inst)
                        except BaseException as e:
                            log["registered"].append([j, type(e).__name__])
                            cell.called = m["user"]; cell.calls.append([si["class"], m["user"]])
                            raise
                        log["registered"].append([j, "ok"])
                    return await inner(client, *args)
                return user
            setattr(srv, m["user"], wrap(m, getattr(srv, m["user"])))
        observed = srv.handle
        async def handle(client, method_id, input, output):
            log["owners"].append([owner, conn_of(client), si["class"]])
            await observed(client, method_id, input, output)
        srv.handle = handle
        return srv

    listener = [make_instance(k, "L") for k in range(n_listener)]
    transport = MemTransport()
    peers = {}
    records = []

    def snapshot(): return tuple((c, len(p.sent), p.state, p.idle, len(p.inbox)) for c, p in peers.items())

    def busy(): return any(p.state == "alive" and (not p.idle or p.inbox) for p in peers.values()) or any(p.state == "new" for p in peers.values())

    async def settle():
        quiet, n, last = 0, 0, snapshot()
        while n < MAX_ROUNDS and quiet < SETTLE:
            await anyio.sleep(0); n += 1
            now = snapshot()
            if now == last and (not busy() or n >= 80): quiet += 1
            else: quiet = 0
            last = now
        return busy()

    saved = prudp.serve_transport
    if api == "serve":
        @contextlib.asynccontextmanager
        async def memory_transport(settings, host="", port=0, context=None):
            yield transport
        prudp.serve_transport = memory_transport
        cm = rmc.serve(S, listener, "", 60000, 1)
    else:
        cm = rmc.serve_on_transport(S, listener, transport, 1)
    try:
        async with cm:
            for ev in events:
                c = ev["conn"]
                for p in peers.values(): p.sent = []; p.send_yields = 0
                log["owners"], log["registered"] = [], []
                rec = {"ev": ev["ev"], "conn": c}
                if ev["ev"] == "open":
                    peers[c] = ConnPeer(minor, c)
                    transport.accept(peers[c])
                elif ev["ev"] == "close":
                    p = peers.get(c)
                    if p is None or p.state != "alive": rec["skipped"] = True
                    else: p.closed = True; p.push_eof()
                else:
                    p = peers.get(c)
                    if p is None or p.state != "alive" or p.closed:
                        rec["skipped"] = True; records.append(rec); continue
                    case = ev["case"]
                    cell.script = case["script"]; cell.called = None; cell.observed = None; cell.value_error = None; cell.observed_type = None
                    cell.calls = []; cell.handled = []
                    cell.ref = case.get("ref"); cell.args = None
                    p.send_yields = case["script"].get("send_yields", 0)
                    p.push(bytes.fromhex(case["datagram"]))
                stuck = await settle()
                p = peers.get(c)
                rec.update({"sent": [bytes(d).hex() for d in p.sent] if p else [], "state": p.state if p else None,
                            "loop": "alive" if p and p.state == "alive" else (p.state if p else "absent"), "hang": bool(stuck and p and p.state == "alive" and not p.idle),
                            "elsewhere": {str(k): [bytes(d).hex() for d in q.sent] for k, q in peers.items() if k != c and q.sent},
                            "others": {str(k): q.state for k, q in peers.items() if k != c}})
                if ev["ev"] == "req":
                    rec.update({"observed": cell.observed, "called": cell.called is not None, "observed_type": cell.observed_type, "value_error": cell.value_error,
                                "closed": False, "calls": cell.calls, "handled": cell.handled, "args": cell.args,
                                "owners": log["owners"], "registered": log["registered"]})
                records.append(rec)
    finally:
        prudp.serve_transport = saved
    return records, {"served": transport.served, "api": api}


def run_listeners(jobs):
    """jobs: list of (api, srvinfos, n_listener, events, minor) -> list of (records, info)"""
    async def main():
        return [await run_listener(*j) for j in jobs]
    return anyio.run(main)


# ------------------------------------------------------------------ what the property says: the servers of EACH connection
def plan(events, srvinfos, n_listener):
    """annotates the `req` cases (in place) with what the property's per-connection registry says:
      case["srv"]  = index of the class that serves the request's protocol ON ITS CONNECTION when it arrives, or None
      case["lst"]  = {"conn", "event", "n_listener", "expect": [[k, "ok"|"dup"]] registrations of this handler,
                      "model_add": classes this connection registered since its previous request (for the model's table)}
    a gate whose registration must fail (its connection already has that protocol) gets the script of a handler that raises:
    whatever the registration does, the handler's outcome is then a Python exception of class `other`"""
    table, pending = {}, {}
    for k, ev in enumerate(events):
        c = ev["conn"]
        if ev["ev"] == "open":
            table[c] = {srvinfos[i]["protocol"]: i for i in range(n_listener)}; pending[c] = []
        elif ev["ev"] == "close":
            table.pop(c, None)
        else:
            case = ev["case"]
            t = table.get(c)
            case["lst"] = {"conn": c, "event": k, "n_listener": n_listener, "expect": [], "model_add": []}
            if t is None:
                case["srv"] = None; case["lst"]["dead"] = True; continue
            idx = t.get(case["protocol"])
            case["srv"] = idx
            case["lst"]["model_add"], pending[c] = pending[c], []
            regs = case["script"].get("register") or []
            si = srvinfos[idx] if idx is not None else None
            m = next((x for x in si["methods"] if x["id"] == case["method"]), None) if si else None
            if regs and m is not None and m["supported"] and case["extract"] == "ok":
                for j in regs:
                    p = srvinfos[j]["protocol"]
                    if p in t:
                        case["lst"]["expect"].append([j, "dup"])
                        case["script"] = dict(case["script"], mode="raise", exc="ValueError")
                        break
                    t[p] = j; pending[c].append(j)
                    case["lst"]["expect"].append([j, "ok"])
    return events


def judge(events, records, srvinfos, n_listener):
    """the part of the property that is about the LISTENER (the response of each request is judged by corr_C11.judge_case
    against the server `plan` found for it): -> None or (key, why, index of the event)"""
    for k, (ev, rec) in enumerate(zip(events, records)):
        c = ev["conn"]
        if rec.get("skipped"): continue
        if rec.get("elsewhere"):
            return ("datagram-on-another-connection", "%s on connection %d made the listener send %s on other connection(s)" % (describe([ev]), c, rec["elsewhere"]), k)
        if ev["ev"] == "open":
            if rec["state"] != "alive" or rec["sent"]:
                return ("accept", "connection %d was accepted: its handler is %s, %d datagram(s) were sent" % (c, rec["state"], len(rec["sent"])), k)
            continue
        if ev["ev"] == "close":
            if rec["state"] != "returned" or rec["sent"]:
                return ("close", "the peer of connection %d closed: the listener's handler for it is %s (expected: returned), %d datagram(s) were sent" % (c, rec["state"], len(rec["sent"])), k)
            dead = {q: s for q, s in rec["others"].items() if s.startswith("crash")}
            if dead: return ("close-kills-others", "the peer of connection %d closed: the handlers of other connections ended: %s" % (c, dead), k)
            continue
        case = ev["case"]
        for owner, cl, cls in rec.get("owners") or []:
            if owner not in ("L", c):
                return ("foreign-server-object", "the request on connection %d for protocol %d (method %d) was handled by the %s object that connection %s registered for ITSELF"
                        % (c, case["protocol"], case["method"], cls, owner), k)
            if cl != c:
                return ("foreign-client", "the request on connection %d for protocol %d was handled with the client object of connection %s" % (c, case["protocol"], cl), k)
        exp = case["lst"]["expect"]
        got = rec.get("registered") or []
        if exp and rec.get("called"):
            for (j, want), g in zip(exp, got + [None] * len(exp)):
                p = srvinfos[j]["protocol"]
                if g is None:
                    return ("registration", "the handler on connection %d did not get to call register_server(%s): %s" % (c, srvinfos[j]["class"], got), k)
                if want == "ok" and g[1] != "ok":
                    return ("registration-refused", "register_server(<new %s>, protocol %d) in a handler on connection %d raised %s although connection %d has no server for protocol %d "
                            "(other connections of the listener registered their own)" % (srvinfos[j]["class"], p, c, g[1], c, p), k)
                if want == "dup" and g[1] == "ok":
                    return ("registration-replaced", "register_server(<new %s>, protocol %d) on connection %d, which already has a server for protocol %d, did not raise" % (srvinfos[j]["class"], p, c, p), k)
    return None


def describe(events, upto=None):
    out = []
    for ev in (events if upto is None else events[:upto + 1]):
        c = ev["conn"]
        if ev["ev"] == "open": out.append("connection %d is accepted" % c)
        elif ev["ev"] == "close": out.append("peer %d closes" % c)
        else:
            case = ev["case"]
            regs = case["script"].get("register")
            out.append("peer %d requests %s.m%d (protocol %d)%s [%s]" % (c, case["class"], case["method"], case["protocol"],
                       " whose handler calls client.register_server(new object) for index %s" % regs if regs else "", case["kind"]))
    return " ; ".join(out)
