import NxProofs.Rmc
import NxProofs.RmcObj
/-!
# C09 — RMC message framing is lossless, strict and specification-conformant

Model: `NxModel/Nex/Rmc.lean` (`encode`/`decode` mirror `RMCMessage.encode/decode`;
`specEncode` is the independent reference framing). Statements only; proofs in `NxProofs/Rmc.lean`.
`Spec.WF` is exactly the property's quantifier: protocol ids 0..0xFFFF, call ids 0..2^32-1,
method ids < 2^32 (requests) / < 2^15 (responses), error codes with bit 31 set, any body that fits a u32 length.
-/
namespace Nx.C09
open Nx Nx.Rmc

/-- the bytes the library emits equal the reference framing, for every message -/
theorem rmc_encode_is_reference (s : Spec) (h : s.WF) : encode (ofSpec s) = .ok (specEncode s) :=
  encode_ofSpec s h

/-- encode then decode preserves mode, protocol id, method id, call id, error code and body -/
theorem rmc_roundtrip (s : Spec) (h : s.WF) (b : Bytes) (he : encode (ofSpec s) = .ok b) :
    decode b = .ok (ofSpec s) := by
  rw [encode_ofSpec s h] at he
  cases he
  exact decode_specEncode s h

/-- reference-framed bytes are accepted and decode to the same fields -/
theorem rmc_reference_accepted (s : Spec) (h : s.WF) : decode (specEncode s) = .ok (ofSpec s) :=
  decode_specEncode s h

/-- ids from 0x7F upwards use the extended form, smaller ones the short form -/
theorem rmc_extended_iff (isReq : Bool) (p : Nat) :
    (specProto isReq p).length = if p ≥ 0x7F then 3 else 1 :=
  specProto_length isReq p

/-- accepted ⇒ the length prefix equals the number of bytes that follow it -/
theorem rmc_length_strict {d : Bytes} {m : Msg} (h : decode d = .ok m) :
    ∃ l s, rdU32 d = .ok (l, s) ∧ l = s.length :=
  decode_ok_prefix h

/-- a length prefix that disagrees with the size is rejected (never misparsed) -/
theorem rmc_length_mismatch_rejected {d s : Bytes} {l : Nat} (h : rdU32 d = .ok (l, s)) (hne : l ≠ s.length) :
    decode d = .error .value :=
  decode_prefix_mismatch h hne

/-- every proper prefix (truncation) of every valid message is rejected -/
theorem rmc_truncation_rejected (s : Spec) (h : s.WF) (k : Nat) (hk : k < (specEncode s).length) :
    ∃ e, decode ((specEncode s).take k) = .error e := by
  cases s with
  | request p c m b =>
    have hlen : (specProto true p).length ≤ 3 := by rw [specProto_length]; split <;> omega
    exact decode_take_frame _ (by obtain ⟨_, _, _, hb⟩ := h; simp; omega) k hk
  | success p c m b =>
    have hlen : (specProto false p).length ≤ 3 := by rw [specProto_length]; split <;> omega
    exact decode_take_frame _ (by obtain ⟨_, _, _, hb⟩ := h; simp; omega) k hk
  | failure p c e =>
    have hlen : (specProto false p).length ≤ 3 := by rw [specProto_length]; split <;> omega
    exact decode_take_frame _ (by simp; omega) k hk

/-- a valid message followed by extra bytes is rejected -/
theorem rmc_extension_rejected (payload extra : Bytes) (hn : payload.length < 4294967296) (hx : extra ≠ []) :
    decode (specFrame payload ++ extra) = .error .value :=
  decode_frame_append payload extra hn hx

/-- an error response with trailing bytes is rejected even when the frame length is consistent -/
theorem rmc_error_no_trailing (p c e : Nat) (extra : Bytes) (hp : p < 65536) (hc : c < 4294967296)
    (he : e < 4294967296) (hx : extra ≠ []) (hl : extra.length < 4294967000) :
    decode (specFrame (specProto false p ++ [0] ++ u32le e ++ u32le c ++ extra)) = .error .value :=
  decode_error_trailing p c e extra hp hc he hx hl

/-! ### one message object over time
The model's `encode` is a function of the object's current field values (there is no other state), so "the bytes
follow the current fields" holds in the model by construction; what is worth stating is which reference framing a
response object has after its `error` attribute alone was assigned. The check ties the real object to this by
encoding ONE `RMCMessage` again after every single-field assignment (harness/c09_objects.py). -/

/-- a prepared response downgraded to an error (`msg.error = code`): the reference error framing of its protocol
    and call id, whatever method and body the object still holds -/
theorem rmc_error_assigned_is_reference (m : Msg) (hmode : m.mode = 1) (e : Nat)
    (h : (Spec.failure m.protocol m.callId e).WF) :
    encode { m with error := (e : Int) } = .ok (specEncode (.failure m.protocol m.callId e)) :=
  encode_error_set m hmode e h

/-- the error withdrawn again (`msg.error = -1`): the reference success framing of the method and body it holds -/
theorem rmc_error_withdrawn_is_reference (m : Msg) (hmode : m.mode = 1) (meth : Nat) (hmeth : m.method = some meth)
    (h : (Spec.success m.protocol m.callId meth m.body).WF) :
    encode { m with error := -1 } = .ok (specEncode (.success m.protocol m.callId meth m.body)) :=
  encode_error_withdrawn m hmode meth hmeth h

/-- a request object's bytes do not depend on its `error` attribute -/
theorem rmc_request_ignores_error (m : Msg) (hmode : m.mode = 0) (e : Int) :
    encode { m with error := e } = encode m :=
  encode_request_ignores_error m hmode e

/-! non-vacuity: the hypotheses are satisfiable at the interesting points -/
example : encode { ofSpec (.success 0x7F 9 5 [1, 2]) with error := 0x8001000B }
    = .ok (specEncode (.failure 0x7F 9 0x8001000B)) := by decide
example : encode { ofSpec (.success 0x7F 9 5 [1, 2]) with error := 0x8001000B }
    ≠ encode (ofSpec (.success 0x7F 9 5 [1, 2])) := by decide
example : (Spec.request 0x7F 9 5 [1, 2]).WF := by decide
example : (Spec.success 0xFFFF 4294967295 0x7FFF []).WF := by decide
example : (Spec.failure 0x80 1 0x80010002).WF := by decide
example : decode (specEncode (.request 0x7F 9 5 [1, 2])) = .ok (ofSpec (.request 0x7F 9 5 [1, 2])) := by decide
example : encode (ofSpec (.request 0x7E 9 5 [])) = .ok [9, 0, 0, 0, 0xFE, 9, 0, 0, 0, 5, 0, 0, 0] := by decide

end Nx.C09
