import NxModel.Crypto.Md5
/-!
# Back-end login — mirrors `nintendo/nex/backend.py` `BackEndClient.login*`

`plan cfg args script` is what `BackEndClient.login` does against an authentication server that answers as
`script` says: which authentication methods are invoked with which arguments, which Kerberos key decrypts the
ticket, whether `request_ticket` is issued, and either the secure connection that is opened (address, port,
stream id, credentials) or the exception that ends the attempt. Kerberos decryption is the real one
(`KerberosEncryption.decrypt` = HMAC-MD5 check, then RC4) on the real ticket bytes.
-/
namespace Nx.Backend
open Nx Nx.Crypto

/-! ## Kerberos pieces used by the client (kerberos.py) -/

/-- `KerberosEncryption(key).decrypt(buffer)`: `buffer[:-16]`, `buffer[-16:]` (Python slices never fail) -/
def kerbDecrypt (key buf : Bytes) : Except Err Bytes :=
  let data := buf.take (buf.length - 16)
  let mac := buf.drop (buf.length - 16)
  if mac = hmacMd5 key data then .ok (rc4 key data) else .error .value

/-- `KerberosEncryption(key).encrypt(buffer)` -/
def kerbEncrypt (key buf : Bytes) : Bytes :=
  let e := rc4 key buf
  e ++ hmacMd5 key e

structure ClientTicket where
  sessionKey : Bytes
  target : Nat
  internal : Bytes
  deriving DecidableEq, Repr

def rdPid (pidSize : Nat) (b : Bytes) : Except Err (Nat × Bytes) := if pidSize = 8 then rdU64 b else rdU32 b

/-- `ClientTicket.decrypt(data, key, settings)` -/
def clientTicketDecrypt (keySize pidSize : Nat) (data key : Bytes) : Except Err ClientTicket := do
  let dec ← kerbDecrypt key data
  let (sk, s) ← rd keySize dec
  let (target, s) ← rdPid pidSize s
  let (len, s) ← rdU32 s
  let (internal, _) ← rd len s
  pure ⟨sk, target, internal⟩

def md5Iter : Nat → Bytes → Bytes
  | 0, k => k
  | n + 1, k => md5Iter n (md5 k)

/-- `self.key_derivation.derive_key(password, pid)`: `KeyDerivationOld(65000, 1024)` when
    `kerberos.key_derivation == 0`, else `KeyDerivationNew(1, 1)` (`struct.pack("<Q", pid)`) -/
def deriveKey (keyDerivation : Nat) (password : Bytes) (pid : Nat) : Except Err Bytes :=
  if keyDerivation = 0 then .ok (md5Iter (65000 + pid % 1024) password)
  else if pid < 18446744073709551616 then .ok (md5 (md5 password ++ u64le pid))
  else .error .struct

/-! ## configuration, arguments, the server's script -/

structure Cfg where
  nexVersion : Nat
  clientVersion : Nat
  keyDerivation : Nat
  keySize : Nat
  pidSize : Nat
  authHost : String
  authPort : Nat
  deriving Repr

structure Args where
  username : String
  password : Option Bytes      -- `password.encode()`; `None` = not given
  authInfo : Bool              -- truthiness of `auth_info`
  deriving Repr

structure Station where
  address : String
  port : Nat
  pid : Nat
  cid : Nat
  sid : Nat
  deriving DecidableEq, Repr

/-- the response object of the first authentication call -/
structure AuthResp where
  result : Nat                 -- `Result` code (the `…_with_param` result structure has none: ignored there)
  pid : Nat
  ticket : Bytes
  sourceKey : String           -- hex text (`""` when the method has no such field)
  station : Station
  deriving Repr

structure TicketResp where
  result : Nat
  ticket : Bytes
  deriving Repr

/-- what a remote call yields: a decoded response, or `RMCError(code)` raised by the stub
    (the server answered with an RMC error) -/
inductive Reply (α : Type) where
  | resp (r : α)
  | fail (code : Nat)
  deriving Repr

structure Script where
  first : Reply AuthResp
  second : Reply TicketResp
  deriving Repr

inductive Call where
  | login (username : String)
  | loginEx (username : String)
  | validateAndRequestTicket (username : String)
  | validateAndRequestTicketWithCustomData (username : String)
  | validateAndRequestTicketWithParam (username : String) (hasData : Bool) (nexVersion clientVersion : Nat)
  | requestTicket (source target : Nat)
  deriving DecidableEq, Repr

inductive Fail where
  | rmc (code : Nat)           -- common.RMCError
  | exc (e : Err)              -- ValueError / OverflowError / struct.error
  deriving DecidableEq, Repr

structure Connect where
  host : String
  port : Nat
  streamId : Nat
  pid : Nat                    -- credentials.pid
  cid : Nat                    -- credentials.cid
  ticket : ClientTicket        -- credentials.ticket
  deriving DecidableEq, Repr

inductive KeyUse where
  | none
  | source (key : Bytes)
  | derived (keyDerivation : Nat) (pid : Nat) (key : Bytes)
  deriving DecidableEq, Repr

structure Plan where
  calls : List Call
  key : KeyUse
  outcome : Except Fail Connect
  deriving Repr

def isError (code : Nat) : Bool := (code / 2147483648) % 2 == 1      -- `error_code & 0x80000000`

/-- `bytes.fromhex(text)` for text without whitespace -/
def fromHexStrict (s : String) : Option Bytes := fromHexAux s.toList []

/-- which authentication method `login` invokes first -/
def firstCall (cfg : Cfg) (a : Args) : Call :=
  if cfg.nexVersion < 40000 then
    if a.authInfo then .loginEx a.username else .login a.username
  else if cfg.nexVersion < 40400 then
    if a.authInfo then .validateAndRequestTicketWithCustomData a.username else .validateAndRequestTicket a.username
  else .validateAndRequestTicketWithParam a.username a.authInfo cfg.nexVersion cfg.clientVersion

/-- does the login path look at the `source_key` of the response? -/
def readsSourceKey (cfg : Cfg) (a : Args) : Bool :=
  if cfg.nexVersion < 40000 then false
  else if cfg.nexVersion < 40400 then a.authInfo
  else true

/-- does the login path call `result.raise_if_error()` on the first response? -/
def checksResult (cfg : Cfg) : Bool := cfg.nexVersion < 40400

/-- the secure server's address: the advertised one, or the authentication server's for the placeholder -/
def target (cfg : Cfg) (st : Station) : String × Nat :=
  if st.address = "0.0.0.1" then (cfg.authHost, cfg.authPort) else (st.address, st.port)

/-- `LoginResult.source_key`, then `kerberos_key = result.source_key; if not kerberos_key: …derive…` -/
def chooseKey (cfg : Cfg) (a : Args) (r : AuthResp) : Except Fail (KeyUse × Bytes) :=
  let sk : Except Fail Bytes :=
    if readsSourceKey cfg a then
      match fromHexStrict r.sourceKey with
      | some b => .ok b
      | none => .error (.exc .value)          -- `bytes.fromhex` raises ValueError
    else .ok []
  match sk with
  | .error f => .error f
  | .ok skey =>
    if !skey.isEmpty then .ok (.source skey, skey)
    else match a.password with
      | none => .error (.exc .value)          -- "A password is required for this account"
      | some pw =>
        match deriveKey cfg.keyDerivation pw r.pid with
        | .ok k => .ok (.derived cfg.keyDerivation r.pid k, k)
        | .error e => .error (.exc e)

/-- credentials, address resolution and the connection itself -/
def finish (cfg : Cfg) (r : AuthResp) (ku : KeyUse) (calls : List Call) (t : ClientTicket) : Plan :=
  ⟨calls, ku, .ok ⟨(target cfg r.station).1, (target cfg r.station).2, r.station.sid, r.pid, r.station.cid, t⟩⟩

/-- after the first ticket is decrypted: ask for a second one iff it is not for the secure server -/
def afterTicket (cfg : Cfg) (r : AuthResp) (second : Reply TicketResp) (c1 : Call) (ku : KeyUse) (key : Bytes)
    (t : ClientTicket) : Plan :=
  if t.target ≠ r.station.pid then
    let c2 := Call.requestTicket r.pid r.station.pid
    match second with
    | .fail code => ⟨[c1, c2], ku, .error (.rmc code)⟩
    | .resp r2 =>
      if isError r2.result then ⟨[c1, c2], ku, .error (.rmc r2.result)⟩ else
      match clientTicketDecrypt cfg.keySize cfg.pidSize r2.ticket key with
      | .error e => ⟨[c1, c2], ku, .error (.exc e)⟩
      | .ok t2 => finish cfg r ku [c1, c2] t2
  else finish cfg r ku [c1] t

def afterKey (cfg : Cfg) (r : AuthResp) (second : Reply TicketResp) (c1 : Call) (ku : KeyUse) (key : Bytes) : Plan :=
  match clientTicketDecrypt cfg.keySize cfg.pidSize r.ticket key with
  | .error e => ⟨[c1], ku, .error (.exc e)⟩
  | .ok t => afterTicket cfg r second c1 ku key t

def plan (cfg : Cfg) (a : Args) (s : Script) : Plan :=
  let c1 := firstCall cfg a
  match s.first with
  | .fail code => ⟨[c1], .none, .error (.rmc code)⟩
  | .resp r =>
    if checksResult cfg && isError r.result then ⟨[c1], .none, .error (.rmc r.result)⟩ else
    match chooseKey cfg a r with
    | .error f => ⟨[c1], .none, .error f⟩
    | .ok (ku, key) => afterKey cfg r s.second c1 ku key

/-! ## sequences of logins through one `BackEndClient`

`BackEndClient.__init__` sets `settings`, `auth_client`, `auth_host`, `auth_port`, `auth_proto` and `key_derivation`;
`login` (and `login_old` / `login_switch` / `login_with_param` / `login_guest`) only *read* them: everything a login
computes — the response, the Kerberos key, the tickets, the credentials, the resolved address — lives in locals.
So the client object that the next login sees is the one the previous login saw. -/

/-- the state of a `BackEndClient` object between two logins: what `__init__` stored -/
structure Client where
  cfg : Cfg
  deriving Repr

/-- one login through a client: the arguments of the call and what the authentication server answers to it -/
structure Step where
  args : Args
  script : Script
  deriving Repr

/-- `client.login(...)`: the plan of this login and the client object afterwards -/
def Client.login (c : Client) (st : Step) : Client × Plan := (c, plan c.cfg st.args st.script)

/-- the logins of `steps` one after the other through the same client object -/
def session (c : Client) : List Step → List Plan
  | [] => []
  | st :: rest => (c.login st).2 :: session (c.login st).1 rest

/-- `login_guest()` is `login("guest", "MMQea3n!fsik")` -/
def guestArgs : Args := ⟨"guest", some "MMQea3n!fsik".toUTF8.toList, false⟩

end Nx.Backend
