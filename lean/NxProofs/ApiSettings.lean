import NxModel.Api.Effects
import NxModel.Api.Legacy
import NxModel.Switch.Clients
/-!
# Lemmas for C20: settings are typed, unknown keys rejected, copies independent; settings and setters take effect
-/
namespace Nx.Api
open Nx Nx.Http

theorem coerce_ty {t : Ty} {v : PyVal} {x : Val} (h : coerce t v = .ok x) : x.ty = t := by
  cases t <;> cases v <;> simp [coerce] at h <;> (try (subst h; rfl))
  all_goals (split at h <;> simp at h <;> subst h <;> rfl)

theorem setitem_ok {s s' : Settings} {name : List Char} {v : PyVal} (h : s.setitem name v = .ok s') :
    ∃ k x, Key.ofChars? name = some k ∧ coerce k.ty v = .ok x ∧ s' = s.set k x := by
  simp only [Settings.setitem] at h
  cases hk : Key.ofChars? name with
  | none => simp [hk] at h
  | some k =>
    simp only [hk] at h
    cases hc : coerce k.ty v with
    | error e => simp [hc, Except.map] at h
    | ok x => simp [hc, Except.map] at h; exact ⟨k, x, rfl, hc, h.symm⟩

/-- `__setitem__` stores a value of the declared type and touches no other key -/
theorem setitem_typed {s s' : Settings} {name : List Char} {v : PyVal} (h : s.setitem name v = .ok s') :
    ∃ k x, Key.ofChars? name = some k ∧ s' k = some x ∧ x.ty = k.ty ∧ ∀ k', k' ≠ k → s' k' = s k' := by
  obtain ⟨k, x, hk, hc, rfl⟩ := setitem_ok h
  refine ⟨k, x, hk, by simp [Settings.set], coerce_ty hc, ?_⟩
  intro k' hne
  simp [Settings.set, hne]

theorem setitem_unknown (s : Settings) (name : List Char) (v : PyVal) (h : Key.ofChars? name = none) :
    s.setitem name v = .error .key := by
  simp [Settings.setitem, h]

theorem getitem_unknown (s : Settings) (name : List Char) (h : Key.ofChars? name = none) :
    s.getitem name = .error .key := by
  simp [Settings.getitem, h]

/-- `ofChars?` finds exactly the 22 declared names -/
theorem ofChars_name (k : Key) : Key.ofChars? k.name.toList = some k := by
  cases k <;> decide

/-! ## copy -/

theorem heap_get_append_left (h : Heap) (s : Settings) (r : Nat) (hr : r < h.length) : Heap.get (h ++ [s]) r = Heap.get h r := by
  simp [Heap.get, List.getD, List.getElem?_append_left hr]

theorem heap_get_append_new (h : Heap) (s : Settings) : Heap.get (h ++ [s]) h.length = s := by
  simp [Heap.get, List.getD]

/-- the copy is a new object with the same contents -/
theorem copy_fresh (h : Heap) (r : Nat) (hr : r < h.length) :
    (h.copy r).2 ≠ r ∧ Heap.get (h.copy r).1 (h.copy r).2 = Heap.get h r ∧ Heap.get (h.copy r).1 r = Heap.get h r := by
  refine ⟨?_, ?_, ?_⟩
  · simp [Heap.copy]; omega
  · simp only [Heap.copy]; rw [heap_get_append_new]; rfl
  · simp only [Heap.copy]; exact heap_get_append_left _ _ _ hr

theorem heap_setitem_other {h h' : Heap} {r r' : Nat} {name : List Char} {v : PyVal} (hne : r' ≠ r)
    (hs : h.setitem r name v = .ok h') : Heap.get h' r' = Heap.get h r' := by
  simp only [Heap.setitem] at hs
  generalize (h.getD r Settings.empty).setitem name v = res at hs
  cases res with
  | error e => simp [Except.map] at hs
  | ok s =>
    simp [Except.map] at hs
    subst hs
    simp [Heap.get, List.getD, hne.symm]

/-- assigning through the copy leaves the original unchanged, and the other way round -/
theorem copy_independent (h : Heap) (r : Nat) (hr : r < h.length) (name : List Char) (v : PyVal) :
    (∀ h', (h.copy r).1.setitem (h.copy r).2 name v = .ok h' → Heap.get h' r = Heap.get h r) ∧
    (∀ h', (h.copy r).1.setitem r name v = .ok h' → Heap.get h' (h.copy r).2 = Heap.get h r) := by
  obtain ⟨hne, hc, ho⟩ := copy_fresh h r hr
  constructor
  · intro h' hs
    rw [heap_setitem_other (Ne.symm hne) hs, ho]
  · intro h' hs
    rw [heap_setitem_other hne hs, hc]

/-! ## settings take effect -/

theorem effective_all : (Key.all.filter fun k => !effective k) = [.prudpEncryption] := by decide

theorem key_mem_all (k : Key) : k ∈ Key.all := by cases k <;> decide

theorem setting_effect (k : Key) (hk : k ≠ .prudpEncryption) :
    observe (defaults.set k (witness k).1) ≠ observe (defaults.set k (witness k).2) := by
  have : effective k = true := by
    cases k <;> first | decide | exact absurd rfl hk
  simpa [effective] using this

/-- nothing the consumers compute depends on `prudp.encryption` -/
theorem encryption_no_effect (s : Settings) (v₁ v₂ : Val) :
    observe (s.set .prudpEncryption v₁) = observe (s.set .prudpEncryption v₂) := by
  simp [observe, Settings.set, Settings.int, Settings.chars, Settings.rat]

end Nx.Api
