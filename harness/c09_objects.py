"""C09 helper — ONE RMCMessage object over time.

The framing must be a function of the message's CURRENT fields. A scenario here is a history of one
message object (or of two objects alive at the same time): it is built by the library's constructors,
encoded, one single field is assigned a new value, it is encoded again, and so on. After every step
the bytes the object gives are recorded together with the field values it has at that moment; the
caller compares them with the Lean model's `enc` of those values (and with a fresh object).

A scenario is a list of ops, replayable by `play`:
    ("new", form, protocol, call_id, method_or_code, bodyhex)   build object via request()/response()/error()
    ("raw", mode, protocol, method, call_id, error, bodyhex)    build via RMCMessage(settings) + assignments
    ("set", obj_index, field, value)                            assign ONE attribute (body as hex)
    ("enc", obj_index)                                          encode -> observation
"""
from nintendo.nex import rmc

FIELDS = ("mode", "protocol", "method", "call_id", "error", "body")

PROTO_EDGE = [0, 1, 0x7D, 0x7E, 0x7F, 0x80, 0xFF, 0x100, 0x7FFF, 0xFFFF]
U32_EDGE = [0, 1, 0x7FFF, 0x8000, 0xFFFF, 0x10000, 0x7FFFFFFF, 0x80000000, 0xFFFFFFFF]
ERR_CODES = [0x80000000, 0x80010001, 0x80010002, 0x8001000B, 0x80030002, 0x80680001, 0xFFFFFFFF]


def _unhex(s): return bytes.fromhex(s) if s not in ("", "-") else b""


def play(S, ops, exc_name):
    """run a scenario on the real code; returns the observations: one (obj_index, fields, result) per "enc" op,
    where fields are the values assigned so far (the harness's own record, not read back from the object)."""
    objs, states, obs = [], [], []
    for op in ops:
        if op[0] == "new":
            _, form, p, c, m, bodyhex = op
            body = _unhex(bodyhex)
            if form == "req":
                objs.append(rmc.RMCMessage.request(S, p, m, c, body)); states.append([0, p, m, c, -1, body])
            elif form == "ok":
                objs.append(rmc.RMCMessage.response(S, p, m, c, body)); states.append([1, p, m, c, -1, body])
            else:
                objs.append(rmc.RMCMessage.error(S, p, None, c, m)); states.append([1, p, None, c, m, b""])
        elif op[0] == "raw":
            _, mode, p, meth, c, err, bodyhex = op
            o = rmc.RMCMessage(S)
            o.mode, o.protocol, o.method, o.call_id, o.error, o.body = mode, p, meth, c, err, _unhex(bodyhex)
            objs.append(o); states.append([mode, p, meth, c, err, _unhex(bodyhex)])
        elif op[0] == "set":
            _, i, field, value = op
            if field == "body": value = _unhex(value)
            setattr(objs[i], field, value)
            states[i][FIELDS.index(field)] = value
        elif op[0] == "enc":
            i = op[1]
            try:
                r = "ok " + (objs[i].encode().hex() or "-")
            except Exception as e:
                r = "err " + exc_name(e)
            obs.append((i, tuple(states[i]), r))
    return obs


def new_value(rng, field, state, gen_body):
    """a new in-range value for ONE field, different from the current one"""
    cur = state[FIELDS.index(field)]
    for _ in range(20):
        if field == "mode": v = 1 - cur if cur in (0, 1) else 0
        elif field == "protocol": v = rng.choice(PROTO_EDGE) if rng.random() < 0.6 else rng.randint(0, 0xFFFF)
        elif field == "method": v = rng.choice([0, 1, 5, 0x7FFE, 0x7FFF]) if rng.random() < 0.5 else rng.randint(0, 0x7FFF)
        elif field == "call_id": v = rng.choice(U32_EDGE) if rng.random() < 0.5 else rng.randint(0, 0xFFFFFFFF)
        elif field == "error":
            r = rng.random()
            if r < 0.3 and cur != -1: v = -1
            elif r < 0.8: v = rng.choice(ERR_CODES)
            elif r < 0.95: v = rng.randint(0x80000000, 0xFFFFFFFF)
            else: v = rng.choice([0, 0x10001, 0x7FFFFFFF])      # no error bit: the code frames a success response
        else: v = gen_body(rng)
        if v != cur: return v
    return v


def _start(rng, form, gen_body):
    p = rng.choice(PROTO_EDGE) if rng.random() < 0.6 else rng.randint(0, 0xFFFF)
    c = rng.choice(U32_EDGE) if rng.random() < 0.4 else rng.randint(0, 0xFFFFFFFF)
    if form == "err":
        return ("new", "err", p, c, rng.choice(ERR_CODES), "")
    m = rng.choice([0, 1, 0x7FFF]) if rng.random() < 0.4 else rng.randint(0, 0x7FFF)
    return ("new", form, p, c, m, gen_body(rng).hex())


def _state_of(op):
    _, form, p, c, m, bodyhex = op
    if form == "req": return [0, p, m, c, -1, _unhex(bodyhex)]
    if form == "ok": return [1, p, m, c, -1, _unhex(bodyhex)]
    return [1, p, None, c, m, b""]


def _set(state, field, v):
    state[FIELDS.index(field)] = v
    return ("set", 0, field, v.hex() if field == "body" else v)


def gen_scenarios(rng, gen_body, n_random):
    """-> list of (tag, ops)"""
    out = []
    # (a) exhaustive on the small axes: every form x every single field changed alone between two encodings
    #     (and changed back), the object having been encoded 1 or 2 times before the change
    for form in ("req", "ok", "err"):
        for field in FIELDS:
            for warm in (1, 2):
                for rep in range(2):
                    start = _start(rng, form, gen_body)
                    st = _state_of(start)
                    old = st[FIELDS.index(field)]
                    ops = [start] + [("enc", 0)] * warm
                    ops += [_set(st, field, new_value(rng, field, st, gen_body)), ("enc", 0)]
                    if rep:
                        ops += [_set(st, field, new_value(rng, field, st, gen_body)), ("enc", 0), ("enc", 0)]
                    if old is not None:
                        ops += [_set(st, field, old), ("enc", 0)]
                    out.append(("single:%s:%s" % (form, field), ops))
    # (b) the life of the `error` attribute alone: success -> error -> another code -> withdrawn -> error again,
    #     for responses built by response(), error() and for requests (where it must not matter)
    for form in ("ok", "err", "req"):
        for k in range(6):
            start = _start(rng, form, gen_body)
            st = _state_of(start)
            ops = [start, ("enc", 0)]
            codes = rng.sample(ERR_CODES, 3) + [rng.randint(0x80000000, 0xFFFFFFFF)]
            walk = [codes[0], codes[1], -1, codes[2], 0x10001, codes[3], -1] if k % 2 == 0 else [codes[3], -1, codes[0], codes[0] ^ 1, -1]
            if form == "err": walk = [c for c in walk if c not in (-1, 0x10001)] + [-1]   # error() leaves method None: keep -1 for the end
            for v in walk:
                if v == st[4]: continue
                ops += [_set(st, "error", v), ("enc", 0)]
            out.append(("error-walk:%s" % form, ops))
    # (c) random histories: single-field assignments interleaved with encodings
    for _ in range(n_random):
        form = rng.choice(["req", "ok", "ok", "err"])
        start = _start(rng, form, gen_body)
        st = _state_of(start)
        ops = [start]
        if rng.random() < 0.8: ops.append(("enc", 0))
        for _ in range(rng.randint(2, 7)):
            field = rng.choice(FIELDS + ("error", "error"))
            ops.append(_set(st, field, new_value(rng, field, st, gen_body)))
            ops += [("enc", 0)] * rng.choice([1, 1, 1, 2, 0])
        ops.append(("enc", 0))
        out.append(("random:%s" % form, ops))
    # (d) two objects alive at once that differ in exactly one field, encoded alternately
    for form in ("req", "ok", "err"):
        for field in FIELDS:
            start = _start(rng, form, gen_body)
            st = _state_of(start)
            other = list(st)
            other[FIELDS.index(field)] = new_value(rng, field, st, gen_body)
            ops = [start, ("raw", other[0], other[1], other[2], other[3], other[4], other[5].hex()),
                   ("enc", 0), ("enc", 1), ("enc", 0), ("enc", 1)]
            out.append(("pair:%s:%s" % (form, field), ops))
    return out


def well_formed(fields):
    """is the current state one of the property's three forms? -> ("req"|"ok"|"err", expected decode tuple) or None"""
    mode, p, meth, c, err, body = fields
    if not (isinstance(p, int) and 0 <= p <= 0xFFFF and isinstance(c, int) and 0 <= c <= 0xFFFFFFFF): return None
    if mode == 0:
        if err != -1 or meth is None or not 0 <= meth <= 0xFFFFFFFF: return None
        return "req", (0, p, meth, c, -1, body)
    if mode != 1: return None
    if err != -1 and 0 <= err <= 0xFFFFFFFF and err & 0x80000000:
        return "err", (1, p, None, c, err, b"")
    if err != -1: return None       # an error attribute without the error bit: not one of the three forms
    if meth is None or not 0 <= meth <= 0x7FFF: return None
    return "ok", (1, p, meth, c, -1, body)
