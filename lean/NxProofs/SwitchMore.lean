import NxProofs.Switch
/-!
# More C18 lemmas: atomicity of all seven `set_system_version`, that version's values in the
requests, argument validation other than the invitation checks
-/
namespace Nx.Switch
open Nx Nx.Http

/-- `set_system_version` of every client: an unknown version is refused with `ValueError` and the client is
    unchanged; a known one takes every dependent field from that version's row -/
theorem setVersion_atomic_all (T : Tables) (h : T.keys.sameSets = true) (v : Nat) :
    (dictHas T.fw v = false ∧
      (∀ s, Dauth.setVersion T s v = (s, some .value)) ∧ (∀ s, Aauth.setVersion T s v = (s, some .value)) ∧
      (∀ s, Baas.setVersion T s v = (s, some .value)) ∧ (∀ s, Five.setVersion T s v = (s, some .value)) ∧
      (∀ s, Dragons.setVersion T s v = (s, some .value)) ∧ (∀ s, Nim.setVersion T s v = (s, some .value))) ∨
    (dictHas T.fw v = true ∧
      (∀ s : Dauth, ∃ ua d k a, dictGet T.dauthUA v = some ua ∧ dictGet T.digest v = some d ∧ dictGet T.keygen v = some k ∧
        dictGet T.dauthApi v = some a ∧
        Dauth.setVersion T s v = ({ s with version := v, ua := ua, digest := d, keygen := k, api := a }, none)) ∧
      (∀ s : Aauth, ∃ ua a, dictGet T.aauthUA v = some ua ∧ dictGet T.aauthApi v = some a ∧
        Aauth.setVersion T s v = ({ s with version := v, ua := ua, api := a }, none)) ∧
      (∀ s : Baas, ∃ ua, dictGet T.baasUA v = some ua ∧ Baas.setVersion T s v = ({ s with version := v, ua := ua }, none)) ∧
      (∀ s : Five, ∃ ua, dictGet T.fiveUA v = some ua ∧ Five.setVersion T s v = ({ s with version := v, ua := ua }, none)) ∧
      (∀ s : Dragons, ∃ fw ua, dictGet T.fw v = some fw ∧ dictGet T.dauthUA v = some ua ∧
        Dragons.setVersion T s v =
          ({ s with version := v, uaNim := (match s.deviceId with | some d => some (nimUA fw d) | none => s.uaNim), uaDauth := ua }, none)) ∧
      (∀ s : Nim, ∃ fw, dictGet T.fw v = some fw ∧ Nim.setVersion T s v = ({ s with ua := nimUA fw s.deviceId }, none))) := by
  have K := keysAgree_of_sameSets T h
  cases hv : dictHas T.fw v with
  | false =>
    left
    refine ⟨rfl, ?_, ?_, ?_, ?_, ?_, ?_⟩
    · exact fun s => dauth_setVersion_unknown T s v (by rw [K.dauthUA, hv])
    · exact fun s => aauth_setVersion_unknown T s v (by rw [K.aauthUA, hv])
    · exact fun s => baas_setVersion_unknown T s v (by rw [K.baasUA, hv])
    · exact fun s => five_setVersion_unknown T s v (by rw [K.fiveUA, hv])
    · exact fun s => dragons_setVersion_unknown T s v hv
    · exact fun s => nim_setVersion_unknown T s v hv
  | true =>
    right
    exact ⟨rfl, fun s => dauth_setVersion_known T K s v hv, fun s => aauth_setVersion_known T K s v hv,
      fun s => baas_setVersion_known T K s v hv, fun s => five_setVersion_known T K s v hv,
      fun s => dragons_setVersion_known T K s v hv, fun s => nim_setVersion_known T s v hv⟩

/-- tables whose key sets differ (version 2 is in `USER_AGENT` only) -/
def raggedTables : Tables :=
  { fw := [(1, "1")], dauthUA := [(1, "ua1"), (2, "ua2")], digest := [(1, "d1")], keygen := [(1, 1)], dauthApi := [(1, 6)],
    aauthUA := [], aauthApi := [], baasUA := [], fiveUA := [], latestDauth := 1, latestAauth := 1, latestBaas := 1,
    latestDragons := 1, latestFive := 1, latestSun := 1, latestAtumn := 1, languages := [] }

def raggedStart : Dauth := { version := 1, ua := "ua1", digest := "d1", keygen := 1, api := 6 }

/-- without equal key sets atomicity fails: a version present in `USER_AGENT` but missing from a later table
    raises `KeyError` after `system_version` and `user_agent` were already overwritten -/
theorem setVersion_partial_update_example :
    Dauth.setVersion raggedTables raggedStart 2 = ({ raggedStart with version := 2, ua := "ua2" }, some .key) := by
  decide

/-! ## that version's values -/

def formFieldsOf (r : Req) : List (String × Option String) :=
  match r.body with
  | .form l => l
  | .rawform l => l
  | _ => []

theorem dauth_values (T : Tables) (h : T.keys.sameSets = true) (s₀ : Dauth) (v : Nat) (hv : dictHas T.fw v = true)
    (cid : Nat) (ch mac : String) :
    ∃ ua d k a, dictGet T.dauthUA v = some ua ∧ dictGet T.digest v = some d ∧ dictGet T.keygen v = some k ∧
      dictGet T.dauthApi v = some a ∧
      ∃ r₁ r₂, (Dauth.setVersion T s₀ v).1.call (.deviceToken cid ch mac) = .ok [r₁, r₂] ∧
        r₁.2.path = "/v" ++ dec a ++ "/challenge" ∧ formFieldsOf r₁.2 = [("key_generation", some (dec k))] ∧
        r₂.2.path = "/v" ++ dec a ++ "/device_auth_token" ∧
        ("key_generation", some (dec k)) ∈ formFieldsOf r₂.2 ∧ ("system_version", some d) ∈ formFieldsOf r₂.2 ∧
        (v < 1800 → ("User-Agent", ua) ∈ r₁.2.headers ∧ ("User-Agent", ua) ∈ r₂.2.headers) ∧
        (v ≥ 1800 → r₁.2.headers.map (·.1) = ["Host", "Accept", "Content-Type", "X-Nintendo-PowerState", "Content-Length"]) := by
  obtain ⟨ua, d, k, a, h1, h2, h3, h4, e⟩ := dauth_setVersion_known T (keysAgree_of_sameSets T h) s₀ v hv
  refine ⟨ua, d, k, a, h1, h2, h3, h4, ?_⟩
  rw [e]
  refine ⟨_, _, rfl, ?_⟩
  by_cases hlt : v < 1800 <;> simp [Dauth.challengeReq, Dauth.headers, Dauth.tokenForm, formFieldsOf, sv, hlt]

theorem aauth_values (T : Tables) (h : T.keys.sameSets = true) (s₀ : Aauth) (v : Nat) (hv : dictHas T.fw v = true)
    (title ver : Nat) (tok : String) :
    ∃ ua a, dictGet T.aauthUA v = some ua ∧ dictGet T.aauthApi v = some a ∧
      ∃ r, (Aauth.setVersion T s₀ v).1.call (.authSystem title ver tok) = .ok [r] ∧
        r.2.path = "/v" ++ dec a ++ "/application_auth_token" ∧
        ((if a < 5 then "media_type" else "auth_type"), some "SYSTEM") ∈ formFieldsOf r.2 ∧
        (v < 1800 → ("User-Agent", ua) ∈ r.2.headers) := by
  obtain ⟨ua, a, h1, h2, e⟩ := aauth_setVersion_known T (keysAgree_of_sameSets T h) s₀ v hv
  refine ⟨ua, a, h1, h2, ?_⟩
  rw [e]
  refine ⟨_, rfl, ?_⟩
  by_cases hlt : v < 1800 <;> simp [Aauth.authPath, Aauth.headers, Aauth.authBase, Aauth.authTypeKey, formFieldsOf, sv, hlt]

theorem five_values (T : Tables) (h : T.keys.sameSets = true) (s₀ : Five) (v : Nat) (hv : dictHas T.fw v = true) (c : FiveCall)
    (r : List Sent) (hr : Five.call T (Five.setVersion T s₀ v).1 c = .ok r) :
    ∃ ua, dictGet T.fiveUA v = some ua ∧ ∀ x ∈ r, ("User-Agent", ua) ∈ x.2.headers := by
  obtain ⟨ua, h1, e⟩ := five_setVersion_known T (keysAgree_of_sameSets T h) s₀ v hv
  refine ⟨ua, h1, ?_⟩
  rw [e] at hr
  cases c <;> simp [Five.call, Five.headers] at hr
  all_goals (try (split at hr <;> simp at hr))
  all_goals (subst hr; simp)

theorem nim_values (T : Tables) (s₀ : Nim) (v : Nat) (hv : dictHas T.fw v = true) :
    ∃ fw, dictGet T.fw v = some fw ∧
      (∀ c r, (Nim.setVersion T s₀ v).1.sunCall c = .ok r → ∀ x ∈ r, ("User-Agent", nimUA fw s₀.deviceId) ∈ x.2.headers) ∧
      (∀ c r, (Nim.setVersion T s₀ v).1.atumnCall c = .ok r → ∀ x ∈ r, ("User-Agent", nimUA fw s₀.deviceId) ∈ x.2.headers) := by
  obtain ⟨fw, h1, e⟩ := nim_setVersion_known T s₀ v hv
  refine ⟨fw, h1, ?_, ?_⟩ <;> rw [e] <;> intro c r hr <;> cases c <;> simp [Nim.sunCall, Nim.atumnCall, Nim.atumnHeaders] at hr <;> subst hr <;> simp

/-! ## validation other than invitations -/

theorem baas_login_country (v id : Nat) (pw acc : String) (app country : Option String) (skip : Bool) :
    (∃ p, Baas.plan v (.login id pw acc app country skip) = .ok p) ↔ (v < 1800 ∨ country.isSome) := by
  by_cases h : v ≥ 1800 <;> cases country <;> simp [Baas.plan, h] <;> omega

theorem digitalCert_ok_iff (api title : Nat) (cert : Cert) (ec ek : String) :
    (∃ r, digitalCert api title cert ec ek = .ok r) ↔
      (api = 3 ∧ ∃ b, cert = .bytes b ∧ ticketOk b title = true) ∨ (api ≥ 4 ∧ tokenOk cert = true) ∨ api < 3 := by
  by_cases h3 : api = 3
  · subst h3
    cases cert with
    | bytes b => by_cases ht : ticketOk b title = true <;> simp [digitalCert, ht]
    | str c => by_cases hl : c.length = 704 <;> simp [digitalCert, hl]
  · by_cases h4 : api ≥ 4
    · cases cert with
      | bytes b => simp [digitalCert, h3, h4, tokenOk]; omega
      | str c => by_cases ht : tokenOk (.str c) = true <;> simp [digitalCert, h3, h4, ht] <;> omega
    · simp [digitalCert, h3, h4]; omega

theorem dragons_needs_device_id (s : Dragons) (hn : s.uaNim = none) (c : DragonsCall) :
    (∃ tok eid na title, c = .contentsAuthorizationTokenForAauth tok eid na title) ∨ s.call c = .error .value := by
  cases c <;> simp [Dragons.call, Dragons.send, hn]

theorem dragons_contents_token_version (s : Dragons) (tok eid : String) (na title : Nat) :
    (∃ r, s.call (.contentsAuthorizationTokenForAauth tok eid na title) = .ok r) ↔ s.version ≥ 1500 := by
  by_cases h : s.version < 1500 <;> simp [Dragons.call, h] <;> omega

end Nx.Switch
