"""Worker side of the C13 tie: one generated module in a fresh process, real code vs the compiled
schema interpreter on schema-directed values. Imported by corr_C13 (and reused by corr_C14)."""
import os, random, struct, subprocess, sys, traceback

from schema_proto2lean import load_env, code, BASIC
import schema_values as SV

FUEL = 48


def exc_name(e):
    if isinstance(e, struct.error): return "StructError"
    if isinstance(e, UnicodeError): return "UnicodeError"
    if isinstance(e, OverflowError): return "OverflowError"
    if isinstance(e, ValueError): return "ValueError"
    if isinstance(e, TypeError): return "TypeError"
    if isinstance(e, IndexError): return "IndexError"
    if isinstance(e, KeyError): return "KeyError"
    return "Other"


def run_coro(coro):
    """generated client/server methods only await the fake client; drive them without an event loop"""
    try:
        coro.send(None)
    except StopIteration as s:
        return s.value
    coro.close()
    raise RuntimeError("coroutine suspended")


def module_configs(env, quick_limit=None):
    gates = set()
    def walk(items):
        for it in items:
            if "cond" in it:
                if it["cond"] == "nex": gates.add(it["value"])
                walk(it["items"])
    for s in env.order: walk(s["items"])
    nex = {0, 99999}
    for g in gates:
        nex.add(g)
        if g > 0: nex.add(g - 1)
    return [(n, h, p) for n in sorted(nex) for h in (0, 1) for p in (4, 8)]


def driver_batch(exe, lines):
    p = subprocess.run([exe], input="\n".join(lines) + "\n", stdout=subprocess.PIPE, stderr=subprocess.PIPE, text=True, timeout=3000)
    if p.returncode != 0:
        raise RuntimeError("driver exited %d: %s" % (p.returncode, p.stderr[-500:]))
    out = p.stdout.split("\n")
    if out and out[-1] == "": out.pop()
    if len(out) != len(lines):
        raise RuntimeError("driver returned %d lines for %d inputs" % (len(out), len(lines)))
    return out


class FakeClient:
    """what generated clients need from an RMC client: .settings and .request()"""
    def __init__(self, settings, server=None):
        self.settings = settings
        self.server = server
        self.calls = []
        self.response = None
        self.server_exc = None

    async def request(self, protocol, method, body, noresponse=False):
        self.calls.append((protocol, method, body, noresponse))
        if self.server is not None:
            from nintendo.nex import streams
            inp = streams.StreamIn(body, self.settings)
            out = streams.StreamOut(self.settings)
            try:
                await self.server.handle(self, method, inp, out)
            except Exception as e:
                self.server_exc = e
                raise
            self.response = out.get()
            return self.response
        return self.response


def task(args):
    """one (module, configs) slice. Returns a plain dict (counts, diffs, samples)."""
    repo, name, cfgs, seed, per_item, exe, malformed = args[:7]
    opts = args[7] if len(args) > 7 else {}
    res = {"module": name, "cases": 0, "lines": 0, "tags": {}, "diffs": [], "keys": [], "samples": [], "error": None,
           "structs": 0, "methods": 0, "unsupported_checked": 0}
    try:
        _task(repo, name, cfgs, seed, per_item, exe, malformed, res, opts)
    except Exception:
        res["error"] = traceback.format_exc()
    return res


def _task(repo, name, cfgs, seed, per_item, exe, malformed, res, opts=None):
    """opts (C13): {"marker": bool — one more value per (item, configuration) in which every attribute is set,
    non-default and distinguishable (schema_c13_focus.Marker); "focus": result of schema_c13_focus.reader_focus when the
    two readings of the definition disagree — items in its closure get "focus_reps" more random values; "shrink": bool}"""
    opts = opts or {}
    sys.path.insert(0, repo)
    import importlib, logging
    logging.disable(logging.CRITICAL)
    from nintendo.nex import common, streams, rmc, settings as nexsettings, notification
    mod = importlib.import_module("nintendo.nex." + name)
    if not os.path.abspath(mod.__file__).startswith(os.path.abspath(repo)):
        raise RuntimeError("module %s imported from %s, not from %s" % (name, mod.__file__, repo))
    env, problem = load_env(os.path.join(repo, "nintendo/files/proto"), repo, name)
    if env is None: raise RuntimeError(problem)
    rng = random.Random("%s/%s/%r" % (seed, name, cfgs[0]))
    gen = SV.Gen(env, rng)
    real = SV.Real(gen, mod, common, notification)
    tags = res["tags"]
    def tag(t): tags[t] = tags.get(t, 0) + 1

    lines = env.driver_lines()
    nsetup = len(lines)
    checks = []          # (kind, key, first line index, payload)

    def mk_settings(cfg):
        s = nexsettings.default()
        s["nex.version"] = cfg[0]; s["nex.struct_header"] = cfg[1]; s["nex.pid_size"] = cfg[2]
        return s

    def cfgs_str(cfg): return "%d %d %d %d" % (cfg[0], cfg[1], cfg[2], FUEL)

    struct_names = [s["name"] for s in env.order if s["name"] in env.structs]
    res["structs"] = len(struct_names)
    sdefs = {s["name"]: s for s in env.order}

    F = None
    focus_s, focus_m, focus_reps = set(), set(), 0
    if opts.get("marker") or opts.get("focus") or opts.get("shrink"):
        import schema_c13_focus as F
    if opts.get("focus"):
        focus_s, focus_m = F.affected(env, opts["focus"])
        focus_reps = opts.get("focus_reps", 6)
        res["focus"] = {"structs": sorted(focus_s), "methods": len(focus_m)}
    marker = bool(opts.get("marker"))

    for ci, cfg in enumerate(cfgs):
        st = mk_settings(cfg)
        cs = cfgs_str(cfg)
        # ---------------- structures
        for sname in struct_names:
            trees = [(rep, gen.obj(sname, cfg)) for rep in range(per_item + (focus_reps if sname in focus_s else 0))]
            if marker:
                trees.append(("m", F.Marker(gen, start=ci).obj(sname, cfg)))
            for rep, tree in trees:
                ty = "S %d" % code(sname)
                key = "%s:%s:%r:%s" % (name, sname, cfg, rep)
                try:
                    obj = real.build(tree)
                    out = streams.StreamOut(st)
                    out.add(obj)
                    rb = out.get()
                    renc = "ok " + SV.hx(rb)
                except Exception as e:
                    rb, renc = None, "err " + exc_name(e)
                i0 = len(lines)
                lines.append("enc %s %s %s" % (cs, ty, SV.to_val(tree)))
                lines.append("vis %s %s %s" % (cs, ty, SV.to_val(tree)))
                payload = {"tree": tree, "renc": renc, "cfg": cfg, "struct": sname}
                if rb is not None:
                    tail = rng.randbytes(rng.choice([0, 0, 1, 3]))
                    try:
                        sin = streams.StreamIn(rb + tail, st)
                        dobj = sin.extract(real.cls(sname))
                        payload["dec"] = (dobj, (rb + tail)[sin.tell():])
                    except Exception as e:
                        payload["dec"] = "err " + exc_name(e)
                    lines.append("dec %s %s %s" % (cs, ty, SV.hx(rb + tail)))
                    payload["tail"] = tail
                checks.append(("struct", key, i0, payload))
                if malformed and rb and rep == 0 and ci % 4 == 0:
                    # truncation: both must fail the same way (or agree on the shorter parse)
                    k = rng.randrange(len(rb))
                    try:
                        sin = streams.StreamIn(rb[:k], st)
                        dobj = sin.extract(real.cls(sname))
                        r = (dobj, rb[:k][sin.tell():])
                    except Exception as e:
                        r = "err " + exc_name(e)
                    checks.append(("trunc", key + ":trunc%d" % k, len(lines), {"dec": r, "cfg": cfg, "struct": sname, "hex": SV.hx(rb[:k])}))
                    lines.append("dec %s %s %s" % (cs, ty, SV.hx(rb[:k])))
                    # a required attribute left at None -> ValueError from check_required
                    flds = gen.fields(sname)
                    # (own attributes, or inherited string attributes: `self.check_required` dispatches on the instance,
                    #  so an inherited required attribute is never checked and a None string is encodable)
                    own0 = gen.own_start(sname)
                    reqs = [i for i, (v, rq) in enumerate(flds) if rq and (i >= own0 or v["type"]["name"] == "string")]
                    if reqs:
                        i = rng.choice(reqs)
                        t2 = ("obj", sname, [("none",) if j == i else x for j, x in enumerate(tree[2])])
                        try:
                            out = streams.StreamOut(st); out.add(real.build(t2)); r = "ok " + SV.hx(out.get())
                        except Exception as e:
                            r = "err " + exc_name(e)
                        checks.append(("badenc", key + ":none%d" % i, len(lines), {"renc": r, "cfg": cfg, "struct": sname, "val": SV.to_val(t2)}))
                        lines.append("enc %s %s %s" % (cs, ty, SV.to_val(t2)))
        # ---------------- methods
        for p in env.protos:
            pname = p["name"]
            cname = make_class_name(pname, "Client"); sname_ = make_class_name(pname, "Server")
            ccls, scls = getattr(mod, cname, None), getattr(mod, sname_, None)
            if ccls is None or scls is None:
                checks.append(("noclass", "%s:%s:classes" % (name, pname), len(lines), {"proto": pname, "cfg": cfg, "missing": [c for c, x in ((cname, ccls), (sname_, scls)) if x is None]}))
                continue
            for m in p["methods"]:
                res["methods"] += 1 if ci == 0 else 0
                if not m["supported"]:
                    if ci == 0:
                        srv = scls()
                        try:
                            run_coro(srv.handle(FakeClient(st), m["id"], streams.StreamIn(b"", st), streams.StreamOut(st)))
                            r = "returned"
                        except common.RMCError as e:
                            r = e.name()
                        except Exception as e:
                            r = "exc " + exc_name(e)
                        checks.append(("unsupported", "%s:%s.%s" % (name, pname, m["name"]), len(lines), {"r": r, "client_has": hasattr(ccls, m["name"])}))
                        res["unsupported_checked"] += 1
                    continue
                mreps = list(range(per_item + (focus_reps if (pname, m["name"]) in focus_m else 0)))
                if marker and (m["request"] or m["response"]): mreps.append("m")
                for rep in mreps:
                    key = "%s:%s.%s:%r:%s" % (name, pname, m["name"], cfg, rep)
                    if rep == "m":
                        mk = F.Marker(gen, start=ci + m["id"])
                        args = [mk.val(v["type"], cfg, 0) for v in m["request"]]
                        rets = [mk.val(v["type"], cfg, 0) for v in m["response"]]
                    else:
                        args = [gen.gen(v["type"], cfg, 0, False) for v in m["request"]]
                        # a single result is isinstance-checked by the generated server, so it cannot be None
                        rets = [gen.gen(v["type"], cfg, 0, len(m["response"]) == 1) for v in m["response"]]
                    rec = {}
                    try:
                        rargs = [real.build_typed(v["type"], t) for v, t in zip(m["request"], args)]
                        rrets = [real.build_typed(v["type"], t) for v, t in zip(m["response"], rets)]
                        if len(rrets) > 1:
                            robj = rmc.RMCResponse()
                            for v, x in zip(m["response"], rrets): setattr(robj, v["name"], x)
                        elif len(rrets) == 1: robj = rrets[0]
                        else: robj = None
                        async def impl(client, *a, _rec=rec, _robj=robj):
                            _rec["args"] = a
                            return _robj
                        srv = scls()
                        setattr(srv, m["name"], impl)
                        fc = FakeClient(st, srv)
                        cli = ccls(fc)
                        result = run_coro(getattr(cli, m["name"])(*rargs))
                        flow = "ok"
                    except Exception as e:
                        flow = "err " + exc_name(e)
                        result = None
                        fc = locals().get("fc")
                    mref = "%d %d" % (code(pname), code(m["name"]))
                    i0 = len(lines)
                    lines.append("req %s %s %s" % (cs, mref, SV.vals(args)))
                    lines.append("visreq %s %s %s" % (cs, mref, SV.vals(args)))
                    lines.append("sresp %s %s %s" % (cs, mref, SV.vals(rets)))
                    lines.append("visresp %s %s %s" % (cs, mref, SV.vals(rets)))
                    payload = {"flow": flow, "cfg": cfg, "proto": pname, "method": m, "args": args, "rets": rets, "noresponse": p["noresponse"]}
                    if flow == "ok":
                        pr, me, body, nr = fc.calls[0]
                        payload.update(call=(pr, me, body, nr), sargs=rec.get("args"), resp=fc.response, result=result)
                        lines.append("sreq %s %s %s" % (cs, mref, SV.hx(body)))
                        lines.append("cresp %s %s %s" % (cs, mref, SV.hx(fc.response)))
                    checks.append(("method", key, i0, payload))

    outs = driver_batch(exe, lines)
    res["lines"] = len(lines)
    for i in range(nsetup):
        if outs[i] != "ok":
            raise RuntimeError("driver rejected schema line %d: %r -> %r" % (i, lines[i][:200], outs[i]))

    kept = {}
    def diff(key, what, detail):
        # structure-level and method-level differences are capped separately (a wrong structure drags along every
        # method that carries it; the structure itself must not be crowded out)
        grp = "s" if "struct" in detail else "m"
        if kept.get(grp, 0) < 40:
            kept[grp] = kept.get(grp, 0) + 1
            d = {"key": key, "what": what}
            d.update(detail)
            if "_tree" in d and not (opts.get("shrink") and grp == "s"): del d["_tree"]
            res["diffs"].append(d)
        res["ndiffs"] = res.get("ndiffs", 0) + 1

    for kind, key, i0, pl in checks:
        res["cases"] += 1
        if kind == "noclass":
            diff(key, "generated module has no %s for protocol %s of the definition" % (" / ".join(pl["missing"]), pl["proto"]),
                 {"module": name, "protocol": pl["proto"], "method": "*", "cfg": list(pl["cfg"])})
        elif kind == "struct":
            sname = pl["struct"]
            menc, mvis = outs[i0], outs[i0 + 1]
            tag("struct:" + ("hdr" if pl["cfg"][1] else "nohdr") + ":" + menc.split(" ")[0])
            base = {"module": name, "struct": sname, "cfg": list(pl["cfg"]), "value": SV.to_val(pl["tree"])}
            if menc != pl["renc"]:
                diff(key, "bytes of generated %s.save differ from the interpreter of the definition" % sname,
                     dict(base, real=pl["renc"][:4000], model=menc[:4000], _tree=pl["tree"], save_diff=True))
                continue
            if "dec" in pl:
                mdec = outs[i0 + 2]
                want = "%s | %s" % (mvis, SV.hx(pl["tail"]))
                if mdec != want:
                    diff(key, "interpreter decode of the bytes is not the visible value (model-internal)", dict(base, model_dec=mdec[:2000], want=want[:2000]))
                    continue
                if isinstance(pl["dec"], str):
                    diff(key, "real %s.decode failed on its own encoding: %s" % (sname, pl["dec"]), dict(base, real=pl["dec"], model=mdec[:2000]))
                    continue
                dobj, rest = pl["dec"]
                mask = SV.parse_val(mvis[3:])
                got = "ok %s | %s" % (real.canon({"name": sname, "template": None}, dobj, mask), SV.hx(rest))
                if got != want:
                    diff(key, "value decoded by generated %s.load differs from the interpreter's" % sname, dict(base, real=got[:4000], model=want[:4000]))
                    continue
                if "a" in mvis.split(" "): tag("struct:erased-fields")
            if len(res["samples"]) < 2 and pl["cfg"][1] and len(menc) < 200:
                res["samples"].append({"module": name, "struct": sname, "cfg": list(pl["cfg"]), "value": SV.to_val(pl["tree"])[:160], "bytes": menc[:160]})
            res["keys"].append(key)
        elif kind == "trunc":
            m = outs[i0]
            r = pl["dec"]
            if isinstance(r, str):
                got = r
            else:
                got = None
            tag("trunc:" + m.split(" ")[0] + (":" + m.split(" ")[1] if m.startswith("err") else ""))
            if got is not None and got != m:
                diff(key, "truncated input: real %s, interpreter %s" % (got, m[:80]), {"module": name, "struct": pl["struct"], "cfg": list(pl["cfg"]), "hex": pl["hex"], "soft": True})
            elif got is None and m.startswith("err"):
                diff(key, "truncated input accepted by the real decoder, rejected by the interpreter (%s)" % m, {"module": name, "struct": pl["struct"], "cfg": list(pl["cfg"]), "hex": pl["hex"], "soft": True})
            else:
                res["keys"].append(key)
        elif kind == "badenc":
            m = outs[i0]
            tag("required-none:" + m)
            if m != pl["renc"]:
                diff(key, "required attribute None: real %s, interpreter %s" % (pl["renc"][:60], m[:60]),
                     {"module": name, "struct": pl["struct"], "cfg": list(pl["cfg"]), "value": pl["val"], "soft": not (pl["renc"].startswith("ok") or m.startswith("ok"))})
            else:
                res["keys"].append(key)
        elif kind == "unsupported":
            tag("unsupported:" + pl["r"])
            if pl["r"] != "Core::NotImplemented" or pl["client_has"]:
                diff(key, "method marked unsupported: server gave %s, client stub present=%s" % (pl["r"], pl["client_has"]), {"module": name})
            else:
                res["keys"].append(key)
        elif kind == "method":
            m = pl["method"]
            mreq, mvreq, msresp, mvresp = outs[i0:i0 + 4]
            base = {"module": name, "protocol": pl["proto"], "method": m["name"], "method_id": m["id"], "cfg": list(pl["cfg"]),
                    "args": SV.vals(pl["args"])[:4000], "returns": SV.vals(pl["rets"])[:4000]}
            tag("method:" + ("hdr" if pl["cfg"][1] else "nohdr") + ":" + mreq.split(" ")[0])
            if pl["flow"] != "ok":
                if mreq.startswith("ok") and msresp.startswith("ok"):
                    diff(key, "real client/server flow failed (%s) where the interpreter succeeds" % pl["flow"], base)
                else:
                    res["keys"].append(key)
                continue
            pr, me, body, nr = pl["call"]
            realreq = "ok %d %d %s" % (pr, me, SV.hx(body))
            if realreq != mreq:
                diff(key, "request of generated client differs from the definition (protocol id, method id or body)", dict(base, real=realreq[:4000], model=mreq[:4000]))
                continue
            if nr != pl["noresponse"]:
                diff(key, "noresponse flag differs", dict(base, real=nr))
                continue
            msreq = outs[i0 + 4]
            if msreq != "ok " + mvreq[3:]:
                diff(key, "interpreter: server-side decode is not the visible arguments (model-internal)", dict(base, model=msreq[:2000], want=mvreq[:2000]))
                continue
            mask = SV.parse_val(mvreq[3:])
            sargs = pl["sargs"]
            if sargs is None or len(sargs) != len(m["request"]):
                diff(key, "server implementation was not called with %d arguments" % len(m["request"]), base)
                continue
            got = "ok [" + "".join(" " + real.canon(v["type"], a, mk) for v, a, mk in zip(m["request"], sargs, mask)) + " ]"
            if got != mvreq:
                diff(key, "arguments decoded by the generated server differ from the interpreter's", dict(base, real=got[:4000], model=mvreq[:4000]))
                continue
            if pl["noresponse"]:
                res["keys"].append(key)
                continue
            realresp = "ok " + SV.hx(pl["resp"])
            if realresp != msresp:
                diff(key, "response body of generated server differs from the definition", dict(base, real=realresp[:4000], model=msresp[:4000]))
                continue
            mcresp = outs[i0 + 5]
            if mcresp != "ok " + mvresp[3:]:
                diff(key, "interpreter: client-side decode is not the visible result (model-internal)", dict(base, model=mcresp[:2000], want=mvresp[:2000]))
                continue
            mask = SV.parse_val(mvresp[3:])
            result = pl["result"]
            if len(m["response"]) > 1:
                vals = [getattr(result, v["name"], None) for v in m["response"]]
            elif len(m["response"]) == 1:
                vals = [result]
            else:
                vals = []
                if result is not None:
                    diff(key, "client returned %r for a method without results" % (result,), base)
                    continue
            got = "ok [" + "".join(" " + real.canon(v["type"], a, mk) for v, a, mk in zip(m["response"], vals, mask)) + " ]"
            if got != mvresp:
                diff(key, "result decoded by the generated client differs from the interpreter's", dict(base, real=got[:4000], model=mvresp[:4000]))
                continue
            if len(res["samples"]) < 3 and len(mreq) < 160 and len(m["request"]) > 0:
                res["samples"].append({"module": name, "method": pl["proto"] + "." + m["name"], "cfg": list(pl["cfg"]), "args": base["args"][:160], "request": mreq[:160]})
            res["keys"].append(key)

    # ---------------- shrink the structure-level differences to the attributes that matter (violation path only)
    if opts.get("shrink"):
        sd = [d for d in res["diffs"] if d.get("save_diff") and "_tree" in d]
        inner = F.innermost(env, {d["struct"] for d in sd})
        done = set()
        protodir = os.path.join(repo, "nintendo/files/proto")
        tenv = None
        if opts.get("focus") and opts["focus"].get("theirs"):
            tenv = F.theirs_env(protodir, name, opts["focus"]["theirs"])
        for d in sorted(sd, key=lambda d: (d["struct"] not in inner, d["cfg"])):
            if d["struct"] in done or len(done) >= 3: continue
            done.add(d["struct"])
            cfg = tuple(d["cfg"]); st = mk_settings(cfg); ty = "S %d" % code(d["struct"])
            def enc_real(tree):
                try:
                    out = streams.StreamOut(st); out.add(real.build(tree)); return "ok " + SV.hx(out.get())
                except Exception as e:
                    return "err " + exc_name(e)
            def enc_model(tree, e=env):
                return driver_batch(exe, e.driver_lines() + ["enc %s %s %s" % (cfgs_str(cfg), ty, SV.to_val(tree))])[-1]
            try:
                small, need = F.shrink_struct(gen, d["struct"], cfg, d["_tree"], lambda t: enc_real(t) != enc_model(t))
                r, m_ = enc_real(small), enc_model(small)
                d["shrunk"] = {"value": SV.to_val(small), "attributes_not_zero": need, "readable": render(gen, small, True),
                               "real": r[:2000], "definition": m_[:2000]}
                if r.startswith("ok ") and m_.startswith("ok "):
                    d["shrunk"]["first_differing_offset"] = F.first_diff_offset(r[3:], m_[3:])
                if tenv is not None:
                    try:
                        d["shrunk"]["generated_code_equals_repository_readers_layout"] = (enc_model(F.reorder(gen, SV.Gen(tenv, rng), small), tenv) == r)
                    except Exception:
                        pass        # the repository reader's result is not interpretable as a definition: no second opinion
                d["what"] += " (attributes that matter: %s)" % (", ".join(need) or "none: differs on the all-zero instance")
            except Exception as e:
                d["shrunk"] = {"error": repr(e)}
    for d in res["diffs"]:
        d.pop("_tree", None)


def render(gen, t, top=False):
    """readable form of a (small) value tree: attribute names instead of positions; zero attributes of the top object left out"""
    k = t[0]
    if k == "none": return None
    if k in ("int", "bool", "str", "url"): return t[1]
    if k == "bytes": return "hex:" + t[1].hex()
    if k in ("f32", "f64", "dbl"): return "ieee-bits:%d" % t[1]
    if k == "dt": return "datetime:%d" % t[1]
    if k == "list": return [render(gen, x) for x in t[1]]
    if k == "map": return [[render(gen, a), render(gen, b)] for a, b in t[1]]
    if k == "obj":
        flds = gen.fields(t[1])
        out = {"__class__": t[1]}
        import schema_c13_focus as F
        for (v, _), ft in zip(flds, t[2]):
            if top and ft == F.zero(gen, v["type"], (0, 0, 4)): continue
            out[v["name"]] = render(gen, ft)
        return out
    return repr(t)


def make_class_name(name, type):
    if "_" in name:
        name, ext = name.rsplit("_", 1)
        return "%s%s%s" % (name, type, ext)
    return "%s%s" % (name, type)
