"""NESTED framing of RMC request bodies (C11): malformed requests below the top level.

A request body is not flat: a structure parameter is (with structure headers, PRUDP minor version >= 3) a sequence of
frames `u8 version, u32 size, size bytes` — one per class of its hierarchy —, an `anydata` holder is a name followed by
two nested length-prefixed frames, lists and maps carry counts, strings / buffers carry lengths. The property's
"read past the end of a truncated request body" applies at every one of these levels: a frame that declares fewer bytes
than its fields need is an unreadable request — whatever follows the frame —, and must be answered with exactly one
error response without the handler being invoked.

This module
  * reads the *schema* of every request from the code under test with `ast`: the `input.<type>(...)` statements of the
    generated handler (translator field `req_exprs`) and the `load` bodies of the structure classes (`if version >= k:`
    gates kept, `nex.version` gates evaluated for the session's settings); rendered for the Lean driver
    (`NxModel/Nex/RmcRequest.lean`, driver lines `sdef` / `sreg` / `rq`, extract token `m<hdr>:<schema>`);
  * contains the REFERENCE READER (`Ref`): an independent implementation of "what reading these parameters from these
    bytes yields" — the argument values or the class of the exception — written against the wire format, not using
    the library's streams; it is the property's oracle for arbitrary bodies and the Lean model's twin (compared on
    every case). While reading a well-formed body it records every length / count / version / type-tag field (`marks`);
  * derives malformed bodies from a well-formed one by making ONE such field lie (`mutations`): a declared size smaller
    than needed (by 1 .. all; the bytes kept or really cut), larger than the content (padded inside the frame, or
    swallowing what follows, or reaching past the end of the body), exactly right but followed by surplus; list / map
    counts off by a few / zero / huge; other version bytes; unknown variant tags and holder names; each with and
    without trailing bytes after the body, with and without the enclosing frames being adjusted;
  * renders the arguments the real handler was invoked with in the shape of the reference result (`render_real`).
"""
import ast, importlib, inspect, os, struct, textwrap
from nintendo.nex import common

PRIMS = {"u8": "B", "u16": "H", "u32": "I", "u64": "Q", "s8": "b", "s16": "h", "s32": "i", "s64": "q",
         "float": "f", "double": "d", "bool": "o", "string": "s", "buffer": "u", "qbuffer": "k", "datetime": "t",
         "stationurl": "U", "result": "r", "variant": "v", "anydata": "a"}
INT_W = {"u8": 1, "u16": 2, "u32": 4, "u64": 8, "s8": 1, "s16": 2, "s32": 4, "s64": 8}


class Unknown(Exception):
    """the code does not have the shape the schema reader understands (the request is then left to the other generators)"""


class RefErr(Exception):
    def __init__(self, cls):
        self.cls = cls


class Skip(Exception):
    """the reference reader declines (work budget / nesting depth exceeded)"""


def hx(b): return b.hex() if b else "-"


_LOADED = False
def load_all():
    """import every module of nintendo.nex (in sorted order): `DataHolder.object_map` is then complete and stable"""
    global _LOADED
    if _LOADED: return
    import nintendo.nex as pkg
    d = os.path.dirname(pkg.__file__)
    for f in sorted(os.listdir(d)):
        if f.endswith(".py") and f != "__init__.py":
            try: importlib.import_module("nintendo.nex." + f[:-3])
            except Exception: pass
    _LOADED = True


def class_key(cls):
    return "%s.%s" % (cls.__module__.rsplit(".", 1)[-1], cls.__name__)


# ------------------------------------------------------------------ schema from the code under test
class _Stream:
    def __init__(self, settings): self.settings = settings


class Schema:
    """types of request parameters and structure layouts under one settings object (nex.version, pid size)"""

    def __init__(self, settings):
        self.settings = settings
        self.structs = {}       # key -> {"levels": [items], "dup": bool}   (None while being built / when Unknown)
        self.classes = {}       # key -> class
        self._methods = {}

    # ---- types
    def _is_stream(self, node):
        return isinstance(node, ast.Attribute) and isinstance(node.value, ast.Name) and node.value.id in ("input", "stream")

    def _prim(self, name):
        if name == "pid": return ["u64"] if self.settings["nex.pid_size"] == 8 else ["u32"]
        if name in PRIMS: return [name]
        raise Unknown("stream method " + name)

    def _elem(self, node, mod):
        if self._is_stream(node): return self._prim(node.attr)
        if isinstance(node, ast.Lambda) and not node.args.args: return self.ty(node.body, mod)
        return ["struct", self.struct(self._resolve(node, mod))]

    def _resolve(self, node, mod):
        try: cls = eval(compile(ast.Expression(node), "<cls>", "eval"), mod.__dict__)
        except Exception as e: raise Unknown("class reference %s: %r" % (ast.unparse(node), e))
        if not (isinstance(cls, type) and issubclass(cls, common.Structure)): raise Unknown("not a structure: %r" % (cls,))
        return cls

    def ty(self, call, mod):
        """type of an extraction expression `<stream>.<meth>(args)`"""
        if not (isinstance(call, ast.Call) and self._is_stream(call.func) and not call.keywords): raise Unknown(ast.unparse(call))
        meth, args = call.func.attr, call.args
        if meth == "extract" and len(args) == 1: return ["struct", self.struct(self._resolve(args[0], mod))]
        if meth == "list" and len(args) == 1: return ["list", self._elem(args[0], mod)]
        if meth == "map" and len(args) == 2: return ["map", self._elem(args[0], mod), self._elem(args[1], mod)]
        if not args: return self._prim(meth)
        raise Unknown(ast.unparse(call))

    # ---- structures
    def struct(self, cls):
        key = class_key(cls)
        if key in self.structs:
            if self.structs[key] is None: raise Unknown("recursive / unreadable structure " + key)
            return key
        self.structs[key] = None
        self.classes[key] = cls
        hier, c = [], cls
        while c is not common.Structure:
            hier.append(c)
            if not c.__bases__ or not issubclass(c.__bases__[0], common.Structure): raise Unknown("hierarchy of " + key)
            c = c.__bases__[0]
        levels, names = [], []
        for c in hier[::-1]:
            levels.append(self._load_items(c, names))
        self.structs[key] = {"levels": levels, "dup": len(names) != len(set(names))}
        return key

    def _load_items(self, c, names):
        try:
            fn = ast.parse(textwrap.dedent(inspect.getsource(c.load))).body[0]
        except (OSError, TypeError, SyntaxError) as e:
            raise Unknown("no source for %s.load: %r" % (c.__name__, e))
        if [a.arg for a in fn.args.args] != ["self", "stream", "version"]: raise Unknown("signature of %s.load" % c.__name__)
        mod = inspect.getmodule(c)
        env = {"stream": _Stream(self.settings), "settings": self.settings}
        def walk(body):
            out = []
            for st in body:
                if isinstance(st, ast.Pass): continue
                if isinstance(st, ast.Expr) and isinstance(st.value, ast.Constant): continue      # docstring
                if isinstance(st, ast.If):
                    t = st.test
                    if isinstance(t, ast.Compare) and isinstance(t.left, ast.Name) and t.left.id == "version" and len(t.ops) == 1 \
                            and isinstance(t.ops[0], ast.GtE) and isinstance(t.comparators[0], ast.Constant) \
                            and isinstance(t.comparators[0].value, int) and not st.orelse:
                        out.append(["r", t.comparators[0].value, walk(st.body)])
                        continue
                    if any(isinstance(n, ast.Name) and n.id == "version" for n in ast.walk(t)): raise Unknown("gate " + ast.unparse(t))
                    try: taken = bool(eval(compile(ast.Expression(t), "<gate>", "eval"), mod.__dict__, env))
                    except Exception as e: raise Unknown("gate %s: %r" % (ast.unparse(t), e))
                    out += walk(st.body if taken else st.orelse)
                    continue
                if isinstance(st, ast.Assign) and len(st.targets) == 1 and isinstance(st.targets[0], ast.Attribute) \
                        and isinstance(st.targets[0].value, ast.Name) and st.targets[0].value.id == "self":
                    names.append(st.targets[0].attr)
                    out.append(["f", st.targets[0].attr, self.ty(st.value, mod)])
                    continue
                raise Unknown("%s.load: %s" % (c.__name__, ast.unparse(st)))
            return out
        return walk(fn.body)

    # ---- methods
    def method_tys(self, si, m):
        """types of the parameters of a supported generated method (translator records `si`, `m`), or None"""
        modname = si["module"]
        k = (modname, si["class"], m["user"])
        if k not in self._methods:
            try:
                mod = importlib.import_module("nintendo.nex." + modname)
                self._methods[k] = [self.ty(ast.parse(src, mode="eval").body, mod) for src in m["req_exprs"]]
            except Unknown:
                self._methods[k] = None
        return self._methods[k]

    def registered(self, name):
        """`DataHolder.object_map[name]` as a structure key; KeyError if not registered, None if its layout cannot be read
        (a request naming such a class is declined by the reference reader)"""
        cls = common.DataHolder.object_map[name]
        try: return self.struct(cls)
        except Unknown: return None

    def closure(self, tys):
        """keys of all structures reachable from these types"""
        seen = []
        def t(ty):
            if ty[0] in ("list",): t(ty[1])
            elif ty[0] == "map": t(ty[1]); t(ty[2])
            elif ty[0] == "struct": s(ty[1])
        def items(its):
            for it in its:
                if it[0] == "f": t(it[2])
                else: items(it[2])
        def s(key):
            if key in seen: return
            seen.append(key)
            for lv in self.structs[key]["levels"]: items(lv)
        for ty in tys: t(ty)
        return seen


_SCHEMAS = {}
def schema_for(settings):
    """the (cached) schema reader for these settings; only nex.version and the pid size matter"""
    load_all()
    k = (settings["nex.version"], settings["nex.pid_size"])
    if k not in _SCHEMAS: _SCHEMAS[k] = Schema(settings.copy())
    return _SCHEMAS[k]


# ---- rendering for the Lean driver (ids: key -> int, assigned by the caller)
def ty_token(ty, ids):
    k = ty[0]
    if k == "list": return "L" + ty_token(ty[1], ids)
    if k == "map": return "M" + ty_token(ty[1], ids) + ty_token(ty[2], ids)
    if k == "struct": return "S%d;" % ids(ty[1])
    return PRIMS[k]


def schema_token(tys, ids):
    return "".join(ty_token(t, ids) for t in tys) or "-"


def items_token(items, ids):
    return "".join("F" + ty_token(it[2], ids) if it[0] == "f" else "R%d[%s]" % (it[1], items_token(it[2], ids)) for it in items)


def levels_token(levels, ids):
    return "=" + "/".join(items_token(lv, ids) for lv in levels)


# ------------------------------------------------------------------ the reference reader
SIZE_KINDS = ("struct-size", "any-outer", "any-inner", "buffer", "qbuffer", "string")
COUNT_KINDS = ("list-count", "map-count")


class Ref:
    """reads the parameters `tys` from `data` the way the wire format says; raises RefErr(class) where the format is
    violated: "other" (past the end of a frame / of the body, invalid UTF-8, unknown variant tag, unparsable station
    URL), "key" (holder name not registered), "type" (station URL parameter named scheme / self)"""
    BUDGET = 20000
    DEPTH = 40

    def __init__(self, schema, hdr, data, trace=False):
        self.sc, self.hdr, self.data = schema, hdr, data
        self.names = {}          # holder names looked up successfully: name -> structure key
        self.marks = [] if trace else None
        self.work = 0
        self.nocheck = False     # a structure assigns one attribute twice: its arguments are not compared

    def mark(self, **kw):
        if self.marks is not None: self.marks.append(kw)

    def read(self, r, n):
        if r[0] + n > r[1]: raise RefErr("other")
        b = self.data[r[0]:r[0] + n]; r[0] += n
        return b

    def uint(self, r, w): return int.from_bytes(self.read(r, w), "little")

    def frame(self, r, w, kind):
        off = r[0]
        n = self.uint(r, w)
        if r[0] + n > r[1]: raise RefErr("other")
        sub = [r[0], r[0] + n]
        r[0] += n
        self.mark(kind=kind, off=off, w=w, val=n, cs=sub[0], ce=sub[1])
        return sub

    def string(self, r):
        off = r[0]
        n = self.uint(r, 2)
        if n == 0:
            self.mark(kind="string", off=off, w=2, val=0, cs=r[0], ce=r[0])
            return None
        raw = self.read(r, n)
        self.mark(kind="string", off=off, w=2, val=n, cs=r[0] - n, ce=r[0])
        try: s = raw.decode("utf8")
        except UnicodeDecodeError: raise RefErr("other")
        return s[:-1]

    def ty(self, ty, r, depth):
        self.work += 1
        if self.work > self.BUDGET or depth > self.DEPTH: raise Skip()
        k = ty[0]
        if k in INT_W:
            v = self.uint(r, INT_W[k])
            if k[0] == "s" and v >= 1 << (8 * INT_W[k] - 1): v -= 1 << (8 * INT_W[k])
            return ["i", v]
        if k == "float": return ["f", fbits(self.uint(r, 4), 4)]
        if k == "double": return ["d", fbits(self.uint(r, 8), 8)]
        if k == "bool": return ["T"] if self.uint(r, 1) else ["F"]
        if k == "string":
            s = self.string(r)
            return ["N"] if s is None else ["s", hx(s.encode("utf8"))]
        if k == "buffer":
            f = self.frame(r, 4, "buffer"); return ["y", hx(self.data[f[0]:f[1]])]
        if k == "qbuffer":
            f = self.frame(r, 2, "qbuffer"); return ["y", hx(self.data[f[0]:f[1]])]
        if k == "datetime": return ["t", self.uint(r, 8)]
        if k == "result": return ["r", self.uint(r, 4)]
        if k == "stationurl":
            check_url(self.string(r)); return ["U"]
        if k == "variant":
            off = r[0]
            t = self.uint(r, 1)
            self.mark(kind="variant-tag", off=off, w=1, val=t)
            if t == 0: return ["N"]
            if t == 1: return self.ty(["s64"], r, depth)
            if t == 2: return self.ty(["double"], r, depth)
            if t == 3: return self.ty(["bool"], r, depth)
            if t == 4: return self.ty(["string"], r, depth)
            if t == 5: return self.ty(["datetime"], r, depth)
            if t == 6: return self.ty(["u64"], r, depth)
            raise RefErr("other")
        if k == "list":
            off = r[0]
            n = self.uint(r, 4)
            self.mark(kind="list-count", off=off, w=4, val=n)
            return ["l", [self.ty(ty[1], r, depth + 1) for _ in range(n)]]
        if k == "map":
            off = r[0]
            n = self.uint(r, 4)
            self.mark(kind="map-count", off=off, w=4, val=n)
            d = {}
            for _ in range(n):
                kk = self.ty(ty[1], r, depth + 1)
                vv = self.ty(ty[2], r, depth + 1)
                d[canon(kk)] = [kk, vv]          # an existing key keeps its place and gets the new value
            return ["m", list(d.values())]
        if k == "struct":
            names, kids = self.struct(ty[1], r, depth + 1)
            return ["o", names, kids, ty[1]]
        if k == "anydata":
            off = r[0]
            name = self.string(r)
            if self.marks is not None and self.marks and self.marks[-1]["off"] == off: self.marks[-1]["kind"] = "any-name"
            outer = self.frame(r, 4, "any-outer")
            inner = self.frame(outer, 4, "any-inner")
            if name is None or name not in common.DataHolder.object_map: raise RefErr("key")
            key = self.sc.registered(name)
            if key is None: raise Skip()
            self.names[name] = key
            names, kids = self.struct(key, inner, depth + 1)
            return ["a", hx(name.encode("utf8")), names, kids]
        raise Skip()

    def items(self, items, r, ver, depth, names, kids):
        for it in items:
            if it[0] == "f":
                kids.append(self.ty(it[2], r, depth)); names.append(it[1])
            elif ver >= it[1]:
                self.items(it[2], r, ver, depth, names, kids)

    def struct(self, key, r, depth):
        self.work += 1
        if self.work > self.BUDGET or depth > self.DEPTH: raise Skip()
        sd = self.sc.structs.get(key)
        if sd is None: raise Skip()
        if sd["dup"]: self.nocheck = True
        names, kids = [], []
        for lv in sd["levels"]:
            if self.hdr:
                off = r[0]
                ver = self.uint(r, 1)
                self.mark(kind="struct-version", off=off, w=1, val=ver)
                sub = self.frame(r, 4, "struct-size")
                mk = self.marks[-1] if self.marks is not None else None
                self.items(lv, sub, ver, depth, names, kids)
                if mk is not None: mk["full"] = sub[0] == sub[1]       # the fields fill the frame exactly
            else:
                self.items(lv, r, 0, depth, names, kids)
        return names, kids

    def args(self, tys):
        r = [0, len(self.data)]
        return [self.ty(t, r, 0) for t in tys]


def fbits(n, w):
    if w == 4: return "nan" if (n >> 23) & 0xFF == 0xFF and n & 0x7FFFFF else n
    return "nan" if (n >> 52) & 0x7FF == 0x7FF and n & ((1 << 52) - 1) else n


def check_url(s):
    """`StationURL.parse`: exactly one ":/"; every ;-separated parameter exactly one "="; no parameter named scheme / self"""
    if not s: return
    parts = s.split(":/")
    if len(parts) != 2: raise RefErr("other")
    if not parts[1]: return
    kvs = [f.split("=") for f in parts[1].split(";")]
    if any(len(kv) != 2 for kv in kvs): raise RefErr("other")
    if any(kv[0] in ("scheme", "self") for kv in kvs): raise RefErr("type")


def canon(t):
    """the value syntax shared with the Lean driver (`Rq.showV`)"""
    k = t[0]
    if k in ("T", "F", "N", "U"): return k
    if k in ("i", "t", "r"): return "%s%d" % (k, t[1])
    if k in ("f", "d"): return k + ("nan" if t[1] == "nan" else "%d" % t[1])
    if k in ("s", "y"): return k + t[1]
    if k == "l": return "[" + ",".join(canon(x) for x in t[1]) + "]"
    if k == "m": return "{" + ",".join(canon(a) + ":" + canon(b) for a, b in t[1]) + "}"
    if k == "o": return "(" + ",".join(canon(x) for x in t[2]) + ")"
    if k == "a": return "A" + t[1] + "(" + ",".join(canon(x) for x in t[3]) + ")"
    raise ValueError(k)


def reference(schema, hdr, tys, data, trace=False):
    """-> dict(out="ok", canon, tree, nocheck, names[, marks]) | dict(out="err", cls, names) | None (declined)"""
    ref = Ref(schema, hdr, data, trace)
    try:
        trees = ref.args(tys)
    except RefErr as e:
        return {"out": "err", "cls": e.cls, "names": ref.names}
    except Skip:
        return None
    out = {"out": "ok", "canon": ",".join(canon(t) for t in trees), "tree": trees, "nocheck": ref.nocheck, "names": ref.names}
    if trace: out["marks"] = ref.marks
    return out


# ------------------------------------------------------------------ what the real handler was invoked with
_MISSING = object()


def render_real(args, trees, schema):
    """the arguments of the user method in the value syntax, in the shape of the reference result"""
    if len(args) != len(trees): return "?argc:%d" % len(args)
    try: return ",".join(_rr(a, t, schema) for a, t in zip(args, trees))
    except Exception as e: return "?exc:%r" % (e,)


def _rr(v, t, schema):
    k = t[0] if t else None
    if v is _MISSING: return "?missing"
    if v is None: return "N"
    if isinstance(v, bool): return "T" if v else "F"
    if isinstance(v, int): return "i%d" % v
    if isinstance(v, float):
        if k == "f": n = struct.unpack("<I", struct.pack("<f", v))[0]; return "f" + ("nan" if fbits(n, 4) == "nan" else "%d" % n)
        n = struct.unpack("<Q", struct.pack("<d", v))[0]; return "d" + ("nan" if fbits(n, 8) == "nan" else "%d" % n)
    if isinstance(v, str): return "s" + hx(v.encode("utf8", "surrogatepass"))
    if isinstance(v, (bytes, bytearray)): return "y" + hx(bytes(v))
    if isinstance(v, common.DateTime): return "t%d" % v.value()
    if isinstance(v, common.Result): return "r%d" % v.code()
    if isinstance(v, common.StationURL): return "U"
    if isinstance(v, list):
        kids = t[1] if k == "l" and len(t[1]) == len(v) else [None] * len(v)
        return "[" + ",".join(_rr(x, c, schema) for x, c in zip(v, kids)) + "]"
    if isinstance(v, dict):
        items = list(v.items())
        kids = t[1] if k == "m" and len(t[1]) == len(items) else [[None, None]] * len(items)
        return "{" + ",".join(_rr(a, c[0], schema) + ":" + _rr(b, c[1], schema) for (a, b), c in zip(items, kids)) + "}"
    if isinstance(v, common.Structure):
        if k == "o":
            if type(v) is not schema.classes.get(t[3]): return "?class:" + type(v).__name__
            return "(" + ",".join(_rr(getattr(v, n, _MISSING), c, schema) for n, c in zip(t[1], t[2])) + ")"
        if k == "a":
            name = bytes.fromhex(t[1]).decode("utf8") if t[1] != "-" else ""
            if type(v) is not common.DataHolder.object_map.get(name): return "?class:" + type(v).__name__
            return "A" + t[1] + "(" + ",".join(_rr(getattr(v, n, _MISSING), c, schema) for n, c in zip(t[2], t[3])) + ")"
        return "?obj:" + type(v).__name__
    return "?%s" % type(v).__name__


def describe(v, depth=0):
    """free-form rendering of handler arguments (for messages only)"""
    try:
        if isinstance(v, (tuple, list)): return "[" + ", ".join(describe(x, depth + 1) for x in v) + "]"
        if isinstance(v, dict): return "{" + ", ".join(describe(a, depth + 1) + ": " + describe(b, depth + 1) for a, b in v.items()) + "}"
        if isinstance(v, common.Structure):
            if depth > 4: return type(v).__name__ + "(...)"
            return type(v).__name__ + "(" + ", ".join("%s=%s" % (k, describe(x, depth + 1)) for k, x in vars(v).items()) + ")"
        if isinstance(v, common.DateTime): return "DateTime(%d)" % v.value()
        if isinstance(v, common.Result): return "Result(%#x)" % v.code()
        if isinstance(v, int) and not isinstance(v, bool) and abs(v) > 9: return hex(v)
        return repr(v)
    except Exception as e:
        return "?%r" % (e,)


# ------------------------------------------------------------------ one field lies
SHORT, LONG = ("short-keep", "short-cut"), ("long-pad", "long-eat")


def candidates(marks, body_len):
    """every (mark index, mutation, amount) this well-formed body admits"""
    out = []
    for i, mk in enumerate(marks):
        k, n = mk["kind"], mk["val"]
        top = (1 << (8 * mk["w"])) - 1
        if k in SIZE_KINDS:
            for d in sorted({1, 2, n // 2, n - 1, n} & set(range(1, n + 1))):
                out += [(i, "short-keep", d), (i, "short-cut", d)]
            for d in (1, 2, 5, 64):
                if n + d <= top: out += [(i, "long-pad", d), (i, "long-eat", d), (i, "keep-pad", d)]
            if n != top: out.append((i, "huge", 0))
            if body_len - mk["cs"] + 1 <= top: out.append((i, "past-end", 0))
        elif k in COUNT_KINDS:
            for v in sorted({n + 1, n + 2, n - 1, 0, n + 1000, top} - {n}):
                if 0 <= v <= top: out.append((i, "count", v))
        elif k == "struct-version":
            for v in (0, 1, 2, 3, 4, 255):
                if v != n: out.append((i, "version", v))
        elif k == "variant-tag":
            for v in (0, 1, 2, 3, 4, 5, 6, 7, 255):
                if v != n: out.append((i, "tag", v))
        elif k == "any-name":
            out += [(i, "name-none", 0)]
            if n >= 2: out += [(i, "name-char", 0)]
    return out


def mutate(body, marks, cand, fix_outer, tail, rng):
    """the body with the one field lying; -> (bytes, description) or None"""
    i, mut, x = cand
    mk = marks[i]
    b = bytearray(body)
    w, off = mk["w"], mk["off"]
    top = (1 << (8 * w)) - 1
    delta, cut_at = 0, None
    def put(o, ww, v):
        if not (0 <= v < 1 << (8 * ww)): raise OverflowError
        b[o:o + ww] = v.to_bytes(ww, "little")
    try:
        if mut == "short-keep": put(off, w, mk["val"] - x)
        elif mut == "short-cut":
            put(off, w, mk["val"] - x); del b[mk["ce"] - x:mk["ce"]]; delta, cut_at = -x, mk["ce"]
        elif mut == "long-pad":
            put(off, w, mk["val"] + x); b[mk["ce"]:mk["ce"]] = rng.randbytes(x); delta, cut_at = x, mk["ce"]
        elif mut == "keep-pad":
            b[mk["ce"]:mk["ce"]] = rng.randbytes(x); delta, cut_at = x, mk["ce"]
        elif mut == "long-eat": put(off, w, mk["val"] + x)
        elif mut == "huge": put(off, w, top)
        elif mut == "past-end": put(off, w, len(body) - mk["cs"] + 1)
        elif mut in ("count", "version", "tag"): put(off, w, x)
        elif mut == "name-none":
            put(off, w, 0); del b[mk["cs"]:mk["ce"]]; delta, cut_at = -(mk["ce"] - mk["cs"]), mk["ce"]
        elif mut == "name-char":
            b[mk["cs"]] = (b[mk["cs"]] ^ 0x01) & 0x7F or 0x41
        else: return None
        fixed = 0
        if fix_outer and delta:
            for e in marks:
                if e is not mk and e["kind"] in SIZE_KINDS and e["cs"] <= off and e["ce"] >= cut_at and e["off"] < off:
                    put(e["off"], e["w"], e["val"] + delta); fixed += 1
    except OverflowError:
        return None
    if tail: b += rng.randbytes(tail)
    what = "%s field at offset %d (%d) %s%s%s%s" % (
        mk["kind"], off, mk["val"],
        {"short-keep": "declares %d bytes less, all bytes kept" % x, "short-cut": "declares %d bytes less and the frame is cut by them" % x,
         "long-pad": "declares %d bytes more, %d surplus bytes inside the frame" % (x, x), "long-eat": "declares %d bytes more than the frame holds" % x,
         "keep-pad": "is right, %d surplus bytes follow the frame" % x, "huge": "set to %d" % top,
         "past-end": "reaches one byte past the end of the body", "count": "set to %d" % x, "version": "set to %d" % x, "tag": "set to %d" % x,
         "name-none": "removed (holder name None)", "name-char": "names an unregistered class"}[mut],
        ", %d enclosing frame size(s) adjusted" % fixed if fixed else (", enclosing frames not adjusted" if delta and not fix_outer else ""),
        ", %d byte(s) appended to the body" % tail if tail else "", "")
    return bytes(b), what
