import NxProofs.SwitchMore
/-!
# C18: `AAuthClient.verify_ticket` byte by byte

`ticketOk` (NxModel/Switch/Clients.lean) mirrors the code: a length test and three integer comparisons
(`struct.unpack_from`).  Here the same predicate is characterised by the individual bytes it covers, which gives
"accepts exactly the well-formed values": changing any single covered byte of an accepted ticket makes it refused,
and the only joint change of two covered bytes that stays accepted is the consistent one (revision byte and last
byte of the rights id).
-/
namespace Nx.Switch
open Nx Nx.Http

theorem take8_drop (t : Bytes) (off : Nat) (h : off + 8 ≤ t.length) :
    (t.drop off).take 8 = [t.getD off 0, t.getD (off+1) 0, t.getD (off+2) 0, t.getD (off+3) 0,
                           t.getD (off+4) 0, t.getD (off+5) 0, t.getD (off+6) 0, t.getD (off+7) 0] := by
  apply List.ext_getElem?
  intro n
  match n with
  | 0 | 1 | 2 | 3 | 4 | 5 | 6 | 7 =>
    simp [List.getElem?_drop, List.getD_eq_getElem?_getD]
    rw [List.getElem?_eq_getElem (by omega)]; simp
  | n+8 => simp [List.getElem?_take]; omega

theorem take4 (t : Bytes) (h : 4 ≤ t.length) :
    (t.drop 0).take 4 = [t.getD 0 0, t.getD 1 0, t.getD 2 0, t.getD 3 0] := by
  apply List.ext_getElem?
  intro n
  match n with
  | 0 | 1 | 2 | 3 =>
    simp [List.getD_eq_getElem?_getD]
    rw [List.getElem?_eq_getElem (by omega)]; simp
  | n+4 => simp [List.getElem?_take]; omega

/-- the big-endian 64-bit number at `off`, by bytes -/
theorem be64_bytes (t : Bytes) (off : Nat) (h : off + 8 ≤ t.length) :
    be64 t off = (t.getD off 0).toNat * 256^7 + (t.getD (off+1) 0).toNat * 256^6 + (t.getD (off+2) 0).toNat * 256^5 +
      (t.getD (off+3) 0).toNat * 256^4 + (t.getD (off+4) 0).toNat * 256^3 + (t.getD (off+5) 0).toNat * 256^2 +
      (t.getD (off+6) 0).toNat * 256 + (t.getD (off+7) 0).toNat := by
  simp only [be64, take8_drop t off h, List.foldl]
  omega

theorem le32_bytes (t : Bytes) (h : 4 ≤ t.length) :
    le32 t 0 = (t.getD 0 0).toNat + (t.getD 1 0).toNat * 256 + (t.getD 2 0).toNat * 256^2 + (t.getD 3 0).toNat * 256^3 := by
  simp only [le32, take4 t h, List.foldr]
  omega

/-- the bytes `verify_ticket` covers -/
def ticketBytesOk (t : Bytes) (titleId : Nat) : Prop :=
  t.length = 0x2C0 ∧
  -- signature type 0x10004, little endian
  t.getD 0 0 = 4 ∧ t.getD 1 0 = 0 ∧ t.getD 2 0 = 1 ∧ t.getD 3 0 = 0 ∧
  -- title id, big endian
  (∀ k, k < 8 → (t.getD (0x2A0 + k) 0).toNat = titleId / 256^(7-k) % 256) ∧ titleId < 2^64 ∧
  -- lower half of the rights id = master key revision as a 64-bit big-endian number
  (∀ k, k < 7 → t.getD (0x2A8 + k) 0 = 0) ∧ t.getD 0x2AF 0 = t.getD 0x285 0

theorem ticketOk_iff_bytes (t : Bytes) (titleId : Nat) : ticketOk t titleId = true ↔ ticketBytesOk t titleId := by
  unfold ticketOk ticketBytesOk
  by_cases hl : t.length = 0x2C0
  · have b0 := (t.getD 0 0).toNat_lt; have b1 := (t.getD 1 0).toNat_lt; have b2 := (t.getD 2 0).toNat_lt; have b3 := (t.getD 3 0).toNat_lt
    have c0 := (t.getD 0x2A0 0).toNat_lt; have c1 := (t.getD (0x2A0+1) 0).toNat_lt; have c2 := (t.getD (0x2A0+2) 0).toNat_lt
    have c3 := (t.getD (0x2A0+3) 0).toNat_lt; have c4 := (t.getD (0x2A0+4) 0).toNat_lt; have c5 := (t.getD (0x2A0+5) 0).toNat_lt
    have c6 := (t.getD (0x2A0+6) 0).toNat_lt; have c7 := (t.getD (0x2A0+7) 0).toNat_lt
    have d0 := (t.getD 0x2A8 0).toNat_lt; have d1 := (t.getD (0x2A8+1) 0).toNat_lt; have d2 := (t.getD (0x2A8+2) 0).toNat_lt
    have d3 := (t.getD (0x2A8+3) 0).toNat_lt; have d4 := (t.getD (0x2A8+4) 0).toNat_lt; have d5 := (t.getD (0x2A8+5) 0).toNat_lt
    have d6 := (t.getD (0x2A8+6) 0).toNat_lt; have d7 := (t.getD (0x2A8+7) 0).toNat_lt
    have r := (t.getD 0x285 0).toNat_lt
    rw [le32_bytes t (by omega), be64_bytes t 0x2A0 (by omega), be64_bytes t 0x2A8 (by omega)]
    simp only [hl, Bool.and_eq_true, beq_iff_eq, true_and, Nat.reducePow, Nat.reduceAdd] at *
    constructor
    · rintro ⟨⟨hs, ht⟩, hr⟩
      refine ⟨?_, ?_, ?_, ?_, ?_, ?_, ?_, ?_⟩
      · apply UInt8.toNat_inj.mp; show _ = 4; omega
      · apply UInt8.toNat_inj.mp; show _ = 0; omega
      · apply UInt8.toNat_inj.mp; show _ = 1; omega
      · apply UInt8.toNat_inj.mp; show _ = 0; omega
      · intro k hk
        match k with
        | 0 | 1 | 2 | 3 | 4 | 5 | 6 | 7 => simp only [Nat.reduceAdd, Nat.add_zero, Nat.reduceSub, Nat.reducePow, Nat.pow_zero, Nat.pow_one]; omega
        | k+8 => omega
      · omega
      · intro k hk
        match k with
        | 0 | 1 | 2 | 3 | 4 | 5 | 6 => simp only [Nat.reduceAdd, Nat.add_zero]; apply UInt8.toNat_inj.mp; show _ = 0; omega
        | k+7 => omega
      · apply UInt8.toNat_inj.mp; omega
    · rintro ⟨h0, h1, h2, h3, ht, hlt, hz, hr⟩
      have t0 := ht 0 (by omega); have t1 := ht 1 (by omega); have t2 := ht 2 (by omega); have t3 := ht 3 (by omega)
      have t4 := ht 4 (by omega); have t5 := ht 5 (by omega); have t6 := ht 6 (by omega); have t7 := ht 7 (by omega)
      have z0 := hz 0 (by omega); have z1 := hz 1 (by omega); have z2 := hz 2 (by omega); have z3 := hz 3 (by omega)
      have z4 := hz 4 (by omega); have z5 := hz 5 (by omega); have z6 := hz 6 (by omega)
      simp only [Nat.reduceAdd, Nat.reduceSub, Nat.reducePow, Nat.pow_zero, Nat.pow_one] at *
      simp only [h0, h1, h2, h3, z0, z1, z2, z3, z4, z5, z6, hr]
      refine ⟨⟨by decide, ?_⟩, by simp⟩
      omega
  · simp [hl]

/-- a ticket that differs from an accepted one in exactly one byte the check covers is refused -/
theorem ticket_mutation_refused (t t' : Bytes) (titleId i : Nat)
    (hi : i < 4 ∨ i = 0x285 ∨ (0x2A0 ≤ i ∧ i < 0x2B0))
    (hok : ticketOk t titleId = true)
    (hdiff : t'.getD i 0 ≠ t.getD i 0) (hsame : ∀ j, j ≠ i → t'.getD j 0 = t.getD j 0) :
    ticketOk t' titleId = false := by
  cases h' : ticketOk t' titleId with
  | false => rfl
  | true =>
    exfalso
    obtain ⟨_, a0, a1, a2, a3, at_, _, az, ar⟩ := (ticketOk_iff_bytes t titleId).mp hok
    obtain ⟨_, b0, b1, b2, b3, bt, _, bz, br⟩ := (ticketOk_iff_bytes t' titleId).mp h'
    rcases hi with hi | hi | ⟨hi1, hi2⟩
    · match i, hi with
      | 0, _ => exact hdiff (b0.trans a0.symm)
      | 1, _ => exact hdiff (b1.trans a1.symm)
      | 2, _ => exact hdiff (b2.trans a2.symm)
      | 3, _ => exact hdiff (b3.trans a3.symm)
    · subst hi
      have := hsame 0x2AF (by omega)
      exact hdiff (br.symm.trans (this.trans ar))
    · by_cases h8 : i < 0x2A8
      · obtain ⟨k, rfl⟩ : ∃ k, i = 0x2A0 + k := ⟨i - 0x2A0, by omega⟩
        exact hdiff (UInt8.toNat_inj.mp ((bt k (by omega)).trans (at_ k (by omega)).symm))
      · by_cases h9 : i < 0x2AF
        · obtain ⟨k, rfl⟩ : ∃ k, i = 0x2A8 + k := ⟨i - 0x2A8, by omega⟩
          exact hdiff ((bz k (by omega)).trans (az k (by omega)).symm)
        · have hi : i = 0x2AF := by omega
          subst hi
          have := hsame 0x285 (by omega)
          exact hdiff (br.trans (this.trans ar.symm))

/-- …while changing the revision byte and the last byte of the rights id together to one value keeps it accepted
    (the pair of covered bytes whose joint change is well-formed) -/
theorem ticket_consistent_revision_accepted (t t' : Bytes) (titleId : Nat) (x : UInt8)
    (hok : ticketOk t titleId = true) (hlen : t'.length = t.length)
    (h1 : t'.getD 0x285 0 = x) (h2 : t'.getD 0x2AF 0 = x)
    (hsame : ∀ j, j ≠ 0x285 → j ≠ 0x2AF → t'.getD j 0 = t.getD j 0) :
    ticketOk t' titleId = true := by
  obtain ⟨al, a0, a1, a2, a3, at_, alt, az, _⟩ := (ticketOk_iff_bytes t titleId).mp hok
  refine (ticketOk_iff_bytes t' titleId).mpr ⟨hlen.trans al, ?_, ?_, ?_, ?_, ?_, alt, ?_, h2.trans h1.symm⟩
  · rw [hsame 0 (by omega) (by omega)]; exact a0
  · rw [hsame 1 (by omega) (by omega)]; exact a1
  · rw [hsame 2 (by omega) (by omega)]; exact a2
  · rw [hsame 3 (by omega) (by omega)]; exact a3
  · intro k hk; rw [hsame _ (by omega) (by omega)]; exact at_ k hk
  · intro k hk; rw [hsame _ (by omega) (by omega)]; exact az k hk

/-- a concrete accepted ticket (title id 0x0100ABCD12345000, revision 5) and the seed-class malformation of it -/
def sampleTicket (b2a8 : UInt8) : Bytes :=
  [4, 0, 1, 0] ++ List.replicate 0x281 7 ++ [5] ++ List.replicate 0x1A 9 ++ [0x01, 0x00, 0xAB, 0xCD, 0x12, 0x34, 0x50, 0x00] ++
  [b2a8, 0, 0, 0, 0, 0, 0, 5] ++ List.replicate 0x10 0xFF

example : ticketOk (sampleTicket 0) 0x0100ABCD12345000 = true := by decide +kernel
example : ticketOk (sampleTicket 1) 0x0100ABCD12345000 = false := by decide +kernel
end Nx.Switch
