import NxModel.Crypto.Sha256
/-!
# RSAES-OAEP encryption (PKCS#1 v2.2, RFC 8017 §7.1.1) with SHA-256 / MGF1-SHA-256, empty label
Executable reference for the correspondence; the seed is an input (the harness pins the RNG).
-/
namespace Nx.Crypto
open Nx

def modPow (b e m : Nat) : Nat :=
  if m = 1 then 0 else
  let rec go (fuel : Nat) (b e acc : Nat) : Nat :=
    match fuel with
    | 0 => acc
    | fuel + 1 =>
      if e = 0 then acc
      else go fuel (b * b % m) (e / 2) (if e % 2 = 1 then acc * b % m else acc)
  go (e.log2 + 2) (b % m) e 1

def natToBytesBE (len n : Nat) : Bytes :=
  (List.range len).map fun i => UInt8.ofNat (n / 256 ^ (len - 1 - i) % 256)

def natFromBytesBE (b : Bytes) : Nat := b.foldl (fun a x => a * 256 + x.toNat) 0

/-- MGF1 with SHA-256 -/
def mgf1 (seed : Bytes) (len : Nat) : Bytes :=
  let n := (len + 31) / 32
  ((List.range n).flatMap fun c => sha256 (seed ++ u32be c)).take len

def xorBytes' (a b : Bytes) : Bytes := List.zipWith (· ^^^ ·) a b

/-- `PKCS1_OAEP.new(RSA.construct((n, e)), SHA256).encrypt(msg)` with the 32 random bytes `seed`;
    ValueError "Plaintext is too long" when the message does not fit -/
def oaepEncrypt (n e : Nat) (seed msg : Bytes) : Except Err Bytes :=
  let k := (n.log2 + 8) / 8          -- modulus size in bytes (ceil(bits/8))
  let hLen := 32
  if msg.length + 2 * hLen + 2 > k then .error .value else
  let lHash := sha256 []
  let ps := List.replicate (k - msg.length - 2 * hLen - 2) (0 : UInt8)
  let db := lHash ++ ps ++ [1] ++ msg
  let dbMask := mgf1 seed (k - hLen - 1)
  let maskedDB := xorBytes' db dbMask
  let seedMask := mgf1 maskedDB hLen
  let maskedSeed := xorBytes' seed seedMask
  let em := [0] ++ maskedSeed ++ maskedDB
  .ok (natToBytesBE k (modPow (natFromBytesBE em) e n))

end Nx.Crypto
