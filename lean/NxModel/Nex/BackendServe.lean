import NxModel.Nex.Backend
import NxModel.Prudp.L1Crypto
/-!
# The secure server's side of a back-end login, over time

`Backend.plan` ends in the connection the client asks `rmc.connect` for. What the secure server then decides is
`PRUDPServerStream.process_login_request` (prudp.py) on the CONNECT payload that `PRUDPClient.build_connection_request`
made of those credentials. Both are mirrored here on top of the L1 admission function (`L1.loginRequestFn`: real
HMAC-MD5 / RC4 on the real bytes, the ticket's `DateTime` converted as CPython does, the comparison
`timestamp < time.time() - 120` on the simulation's clock in ticks of 2^-30 s).

The server OBJECT lives for a long time and is shown many tickets — the same ticket several times, too, because an
authentication server may hand out again what it issued (or somebody replays it). `SecureServer` is what the object
holds between two CONNECTs that `process_login_request` reads: its key and its settings — nothing about the tickets it
has seen. `serve` threads the object through a list of presentations at their instants.
-/
namespace Nx.Backend
open Nx

/-- `PRUDPClient.build_connection_request()` with `credentials = (c.ticket, c.pid, c.cid)` and the endpoint's
    `connection_check`: `buffer(ticket.internal) ‖ buffer(KerberosEncryption(session_key).encrypt(pid ‖ u32 cid ‖ u32 check))` -/
def connectRequest (pidSize : Nat) (c : Connect) (check : Nat) : Except Err Bytes := do
  let a ← Nex.wBuffer c.ticket.internal
  let p ← Nex.wPid pidSize c.pid
  let ci ← Nex.wU32 c.cid
  let ch ← Nex.wU32 check
  let e ← Nex.Kerberos.encrypt c.ticket.sessionKey (p ++ ci ++ ch)
  let b ← Nex.wBuffer e
  pure (a ++ b)

/-- what a keyed `PRUDPServerStream` holds that `process_login_request` reads (`self.key`, `self.settings`; the clock's
    epoch and the process time zone belong to the environment) -/
structure SecureServer where
  kc : Nex.Kerberos.Cfg
  epoch : Nat
  tz : Int
  key : Bytes
  deriving Repr

/-- one CONNECT payload reaching the server at instant `now` (ticks of 2^-30 s since the clock's epoch) -/
structure Presentation where
  data : Bytes
  now : Nat
  deriving Repr

inductive Verdict where
  | accepted (pid cid : Nat) (sessionKey response : Bytes)      -- `client.login(pid, cid, session_key)`, the CONNECT ack's payload
  | refuse (e : Err)                                         -- the exception `process_login_request` raises: no connection
  deriving DecidableEq, Repr

def verdictOf : Except Err (Nat × Nat × Bytes × Bytes) → Verdict
  | .ok (pid, cid, sk, resp) => .accepted pid cid sk resp
  | .error e => .refuse e

/-- `server.process_login_request(data, client)` at instant `now`: the verdict and the server object afterwards -/
def SecureServer.present (s : SecureServer) (p : Presentation) : SecureServer × Verdict :=
  (s, verdictOf (L1.loginRequestFn s.kc s.epoch s.tz p.data s.key p.now))

/-- the presentations of `ps` one after the other at one server object -/
def serve (s : SecureServer) : List Presentation → List Verdict
  | [] => []
  | p :: rest => (s.present p).2 :: serve (s.present p).1 rest

end Nx.Backend
