"""C10 — scenario families over LONG histories of one connection (helpers of corr_C10.py).

F14 `gen_long`: one call (or several) stays outstanding while N further call ids are consumed on the same connection by
short-lived traffic of other tasks — calls the peer answers at once (success / error), one-way `noresponse` requests, one-way
requests the peer answers all the same — `batch` requests at a time, answered in the order sent or the reverse; N from 1 to
beyond 2^16 (quick: ..., 1024, 4096, 70000; thorough: also around 2^13..2^17 and 140000). Then the response of every
long-outstanding call arrives (any order, by addressee or by call id, success / error), or the connection is closed by the peer /
locally (every kind), or some are answered and then it closes; then further calls are made (which complete with their own answers,
or raise `closed` at entry). Counter starts: 1, values for which the 32-bit counter wraps inside the history, 16-bit / 31-bit
borders. The scenario is compact (`["churn", n, pattern, batch, order]`, see rmc_client_sim.Conn.churn): the replay file names the
whole history in a few steps.

F15 `gen_bursts`: B consecutive responses nobody waits for — ids of calls that completed long ago (duplicates), of one-way
requests, ids never issued (the next ids the counter will hand out, far ids, 0, 2^32-1, one id repeated), success / empty
success / error / error without bit 31 — B from 1 to 1025 (thorough: 4096, 70000) around the powers of two, as one burst sitting
in the transport, spaced out (the loop idles between two of them), or cut into runs by the genuine responses and by short calls of
other tasks; on a connection that never made a call, on one whose calls have all completed, and with 1..3 calls outstanding;
followed by the genuine responses (any order), by further calls (which take the ids the "never issued" strays carried), by a
second burst and another call, sometimes by a closure with a call still outstanding.

Both families are judged by corr_C10.oracle (by call id, by addressee, hangs, spurious `closed`, a receive loop that is gone) and
replayed line by line through the compiled Lean model like every other family.
"""
import random

M32 = 0xFFFFFFFF
CLOSE_KINDS = ["eof", "close", "disconnect", "cleanup"]
PATTERNS = ["c", "c", "o", "co", "ce", "ceoO", "cO", "ccco", "oc", "eO", "cceo"]


def total_churn(sc):
    return sum(st[1] for st in sc["steps"] if st[0] == "churn") + sum(
        (st[1][2] if st[1] and st[1][0] == "range" else len(st[1])) for st in sc["steps"] if st[0] == "strays")


def long_history(rng, n, pattern="c", batch=1, order="fifo", offsets=(0,), ending=("answer",), start_id=1, after=2, byid=False,
                 mid_strays=0, send_yields=0, fam="long"):
    """offsets[k] = how many of the n ids have been consumed when the k-th long-outstanding call is made (offsets[0] = 0:
    the first one sees all n of them); ending = ("answer",) | ("close", kind) | ("partial", how many answered, kind)."""
    steps, consumed, tasks, ids = [], 0, [], []
    def churn(k):
        nonlocal consumed
        if k <= 0: return
        if mid_strays and k > 4:
            # a few responses nobody waits for in the middle of the traffic: a duplicate of a short call long gone, a far id
            h = k // 2
            steps.append(["churn", h, pattern, batch, order])
            base = (start_id + consumed + len(tasks)) & M32
            steps.append(["strays", [(base + rng.choice([0, 1, h - 1])) & M32 for _ in range(mid_strays)] + [(base + 0x40000000) & M32], "ke", rng.choice([0, 1])])
            steps.append(["yield", 2])
            steps.append(["churn", k - h, pattern, batch, order])
        else:
            steps.append(["churn", k, pattern, batch, order])
        consumed += k
    for j, off in enumerate(sorted(offsets)):
        churn(off - consumed)
        tasks.append(consumed + j)
        ids.append((start_id + consumed + j) & M32)
        steps.append(["start", 0, send_yields]); steps.append(["yield", 1 + send_yields])
    churn(n - consumed)
    nl = len(tasks)
    perm = list(range(nl)); rng.shuffle(perm)
    def answer(j):
        kind = rng.choice(["ok", "ok", "err", "err-nobit"])
        if byid:
            steps.append(["resp", ids[j], kind, 3 + j])
        else:
            steps.append(["ans", tasks[j], kind, 3 + j])
        y = rng.choice([0, 1, 2])
        if y: steps.append(["yield", y])
    closed = False
    if ending[0] == "answer":
        for j in perm: answer(j)
    elif ending[0] == "close":
        steps.append([ending[1]]); closed = True
    else:
        for j in perm[:ending[1]]: answer(j)
        steps.append(["yield", 2])
        steps.append([ending[2]]); closed = True
        for j in perm[ending[1]:ending[1] + 1]: answer(j)        # a response that comes after the closure
    steps.append(["yield", 3])
    nxt_task = n + nl
    for i in range(after):
        steps.append(["start", 1 if (i == 1 and rng.random() < 0.3) else 0, 0]); steps.append(["yield", 1])
        if not closed:
            steps.append(["ans", nxt_task + i, rng.choice(["ok", "err"]), 7]); steps.append(["yield", 2])
    steps.append(["yield", 3])
    return {"start_id": start_id, "steps": steps, "fam": fam, "addressed": 1, "spawn_close": int(rng.random() < 0.3), "long": n}


def rand_offsets(rng, n):
    r = rng.random()
    if r < 0.35 or n < 2: return (0,)
    if r < 0.5: return (0, 0)
    if r < 0.65: return (0, 1)
    if r < 0.8: return (0, n // 2)
    if r < 0.9: return (0, 1, rng.randrange(n), n - 1)
    k = rng.choice([3, 5, 8])
    return tuple([0] + sorted(rng.randrange(n) for _ in range(k - 1)))


def rand_start(rng, n):
    return rng.choice([1, 1, 1, 1, (M32 + 1 - n // 2 - 1) & M32, (M32 - n) & M32, max(1, 0x10000 - n // 2), 0xFFF0, 0x7FFFFFF0, 0x80000000 - n // 2, 0])


def rand_ending(rng, nl):
    r = rng.random()
    if r < 0.5: return ("answer",)
    if r < 0.85 or nl < 2: return ("close", rng.choice(CLOSE_KINDS))
    return ("partial", rng.randint(1, nl - 1), rng.choice(CLOSE_KINDS))


def gen_long(ctx):
    rng = random.Random((ctx.seed << 8) ^ 0xC10A)
    quick = ctx.tier == "quick"
    out = []
    small = [1, 2, 5, 17, 100, 255, 256, 257, 511, 513]
    medium = [1000, 1023, 1024, 1025, 2048, 4095, 4096, 4097, 5000]
    def variant(n, ending=None, **kw):
        offs = kw.pop("offsets", None) or rand_offsets(rng, n)
        out.append(long_history(rng, n, pattern=kw.pop("pattern", None) or rng.choice(PATTERNS), batch=kw.pop("batch", None) or rng.choice([1, 1, 2, 4, 7, 16]),
                                order=rng.choice(["fifo", "lifo"]), offsets=offs, ending=ending or rand_ending(rng, len(offs)),
                                start_id=kw.pop("start_id", None) if "start_id" in kw else rand_start(rng, n), after=rng.choice([1, 2, 2, 3]),
                                byid=rng.random() < 0.4, mid_strays=rng.choice([0, 0, 0, 1, 3]), send_yields=rng.choice([0, 0, 0, 1]),
                                fam="long%s:%s" % ("" if n < 1000 else "-1k" if n < 60000 else "-64k", (ending or ("mixed",))[0]), **kw))
    for n in small + medium:
        reps = (3 if n < 1000 else 1) if quick else (12 if n < 1000 else 5)
        for _ in range(reps):
            variant(n, ("answer",))
            variant(n, ("close", rng.choice(CLOSE_KINDS)))
        variant(n)
        # the plainest history of that length: one call, short calls only, one at a time, counter from 1
        if n in (256, 1024, 4096) or not quick:
            variant(n, ("answer",), offsets=(0,), pattern="c", batch=1, start_id=1)
            variant(n, ("answer",), offsets=(0,), pattern="o", batch=1, start_id=1)
    # beyond 2^16 ids
    big = [70000] if quick else [8193, 32769, 65535, 65536, 65537, 70000, 140000]
    for n in big:
        # (quick: two histories of this length per run - several long-outstanding calls answered at the end / a closure)
        variant(n, ("answer",), offsets=(0, 1, rng.randrange(n)), pattern=rng.choice(["c", "cco", "co", "ceoO"]), batch=16, start_id=1)
        variant(n, ("close", rng.choice(CLOSE_KINDS)) if rng.random() < 0.6 else ("partial", 1, rng.choice(CLOSE_KINDS)), offsets=(0, n // 2),
                pattern=rng.choice(["o", "co", "oc", "oO"]), batch=16)
        if not quick:
            variant(n, ("answer",), offsets=(0,), pattern="c", batch=1, start_id=1)
    return out


# ---------------------------------------------------------------- bursts of responses nobody waits for
def burst(rng, B, idsel, kinds, gap, n_done, n_oneway, n_out, layout, after, second=0, close=None, start_id=1, fam="burst"):
    """prior traffic: n_done calls that completed, n_oneway one-way requests; n_out calls outstanding; B strays (ids chosen by
    `idsel`) laid out `first` (all before the genuine responses) | `last` (all after them) | `split` (cut into runs by the
    genuine responses) | `calls` (cut into runs by short calls of other tasks); then `after` further calls; `second` more
    strays and one more call; close = closure kind with the last outstanding call left unanswered."""
    steps, nt = [], 0
    def idof(t): return (start_id + t) & M32
    done_ids, ow_ids = [], []
    for _ in range(n_done):
        steps.append(["start", 0, 0]); steps.append(["yield", 1]); steps.append(["ans", nt, rng.choice(["ok", "err"]), 0]); steps.append(["yield", 2])
        done_ids.append(idof(nt)); nt += 1
    for _ in range(n_oneway):
        steps.append(["start", 1, 0]); steps.append(["yield", 1])
        ow_ids.append(idof(nt)); nt += 1
    outs = []
    for _ in range(n_out):
        steps.append(["start", 0, 0]); outs.append(nt); nt += 1
    if n_out: steps.append(["yield", 1])
    ncalls_between = B if layout == "calls" else 0
    nxt = idof(nt)
    def pick(sel, j):
        if sel == "dup" and done_ids: return done_ids[j % len(done_ids)]
        if sel == "oneway" and ow_ids: return ow_ids[j % len(ow_ids)]
        if sel == "future": return (nxt + ncalls_between + j) & M32      # never issued so far; later calls will be given these ids
        if sel == "same": return (nxt + 5000) & M32
        if sel == "edge": return [0 if start_id > 8 else M32, M32, 0x80000000, 0x7FFFFFFF][j % 4]
        return (nxt + 100000 + 7 * j) & M32     # far
    sels = ["dup", "oneway", "future", "far", "same", "edge"]
    ids = [pick(rng.choice(sels) if idsel == "mix" else idsel, j) for j in range(B)]
    compact = ["range", ids[0], B, (ids[1] - ids[0]) & M32] if B > 8 and idsel in ("future", "far") else None
    def strays(part, lo):
        if not part: return
        if compact and len(part) == B: steps.append(["strays", compact, kinds, gap])
        else: steps.append(["strays", part, kinds[lo % len(kinds):] + kinds[:lo % len(kinds)], gap])
        if gap == 0 and rng.random() < 0.5: steps.append(["yield", 1])
    perm = outs[:]; rng.shuffle(perm)
    unanswered = []
    if close and perm: unanswered = [perm.pop()]
    def genuine(t):
        steps.append(["ans", t, rng.choice(["ok", "ok", "err", "err-nobit"]), 1]); steps.append(["yield", rng.choice([0, 1, 2])])
    if layout == "first":
        strays(ids, 0)
        for t in perm: genuine(t)
    elif layout == "last":
        for t in perm: genuine(t)
        strays(ids, 0)
    elif layout == "split":
        cuts = sorted(rng.randint(0, B) for _ in range(len(perm)))
        lo = 0
        for t, c in zip(perm, cuts):
            strays(ids[lo:c], lo); lo = c
            genuine(t)
        strays(ids[lo:], lo)
    else:   # runs of strays separated by short calls of other tasks (each consumes an id and is answered)
        lo = 0
        while lo < B:
            r = rng.randint(1, max(1, B // 3))
            strays(ids[lo:lo + r], lo); lo += r
            k = 1
            steps.append(["churn", k, rng.choice(["c", "e", "o"]), 1, "fifo"]); nt += k
        for t in perm: genuine(t)
    steps.append(["yield", 3])
    if close:
        steps.append([close]); steps.append(["yield", 2])
    for i in range(after):
        steps.append(["start", 1 if (i and rng.random() < 0.2) else 0, 0]); steps.append(["yield", 1])
        if not close:
            steps.append(["ans", nt, rng.choice(["ok", "err"]), 2]); steps.append(["yield", 2])
        nt += 1
    if second and not close:
        steps.append(["strays", [pick(rng.choice(sels), j) for j in range(second)], kinds, gap]); steps.append(["yield", 2])
        steps.append(["start", 0, 0]); steps.append(["yield", 1]); steps.append(["ans", nt, "ok", 2]); steps.append(["yield", 2]); nt += 1
    steps.append(["yield", 3 + min(B, 40) // 8])
    return {"start_id": start_id, "steps": steps, "fam": fam, "addressed": 1, "final_yields": 4 + (B + second) // 16, "burst": B}


def gen_bursts(ctx):
    rng = random.Random((ctx.seed << 8) ^ 0xC10B)
    quick = ctx.tier == "quick"
    out = []
    sizes = [1, 2, 3, 7, 8, 9, 10, 15, 16, 17, 31, 32, 33, 63, 64, 65, 100, 127, 128, 129, 255, 256, 257, 1000, 1024, 1025]
    if not quick: sizes += [4096, 4097, 70000]
    KINDS = ["k", "e", "ke", "kzen", "n", "z", "ek", "kkke"]
    def one(B, idsel, gap, n_done, n_oneway, n_out, layout, name, **kw):
        out.append(burst(rng, B, idsel, kw.pop("kinds", None) or rng.choice(KINDS), gap, n_done, n_oneway, n_out, layout, kw.pop("after", None) or rng.choice([1, 2, 3]),
                         start_id=kw.pop("start_id", None) or rng.choice([1, 1, 1, 0xFFFFFFFA, 0xFFF8]), fam="burst:" + name, **kw))
    for B in sizes:
        if B > (1000 if quick else 4097):
            # (the full set of layouts up to 1000 (thorough: 4097); beyond, a sample)
            for n_out in (0, 2):
                one(B, rng.choice(["future", "far", "same"]), 0, 0, 0, n_out, "first", "idle-fresh" if not n_out else "outstanding:first")
                one(B, rng.choice(["dup", "oneway", "mix"]), rng.choice([0, 1]), 2, 1, n_out, rng.choice(["first", "split"]), "idle-used" if not n_out else "outstanding:split")
            continue
        # a connection that never made a call
        for idsel in ("future", "far", "same", "edge"):
            one(B, idsel, 0, 0, 0, 0, "first", "idle-fresh", kinds=rng.choice(["k", "e", "ke"]))
        one(B, "future", 1, 0, 0, 0, "first", "idle-fresh:spaced")
        # all calls completed
        for idsel in ("dup", "oneway", "mix"):
            one(B, idsel, rng.choice([0, 0, 1]), rng.choice([1, 2, 3]), rng.choice([1, 2]), 0, "first", "idle-used")
        # calls outstanding: the whole burst before / after the genuine responses, as a burst and spaced out
        for n_out in (1, 2, 3):
            for layout in ("first", "last"):
                one(B, rng.choice(["dup", "future", "far", "mix", "same", "oneway"]), 0, rng.choice([1, 2]), rng.choice([0, 1]), n_out, layout, "outstanding:" + layout)
            one(B, rng.choice(["dup", "future", "far", "mix"]), rng.choice([1, 2]), rng.choice([1, 2]), rng.choice([0, 1]), n_out, "first", "outstanding:spaced")
            one(B, rng.choice(["dup", "future", "far", "mix"]), rng.choice([0, 0, 1]), rng.choice([1, 2]), rng.choice([0, 1]), n_out, "split", "outstanding:split")
        if B <= 300:
            one(B, rng.choice(["dup", "future", "far", "mix"]), rng.choice([0, 1]), 1, 1, rng.choice([1, 2]), "calls", "outstanding:between-calls")
        one(B, "mix", 0, 2, 1, rng.choice([1, 2, 3]), "first", "then-second-burst", second=rng.choice([8, 9, B]))
        one(B, rng.choice(["dup", "mix", "far"]), rng.choice([0, 1]), 1, 0, rng.choice([1, 2, 3]), rng.choice(["first", "split"]), "then-close", close=rng.choice(CLOSE_KINDS))
        for _ in range(2 if quick else (20 if B < 4000 else 4)):
            one(B, rng.choice(["dup", "oneway", "future", "far", "same", "edge", "mix"]), rng.choice([0, 0, 1, 2]), rng.randint(0, 3), rng.randint(0, 2), rng.randint(0, 3),
                rng.choice(["first", "last", "split"]), "mixed", second=rng.choice([0, 0, 9]))
    return out
