import NxModel.Prudp.Select
/-!
# C03 — PRUDP packet codecs are lossless and independent of framing (statements; proofs in NxProofs/Prudp*.lean)
-/
namespace Nx.C03
open Nx Nx.Prudp

/-- with `prudp.version = 2` on UDP, datagrams starting `EA D0 01` go to v1 and everything else to v0 -/
theorem select_by_magic (s : SelCfg) (data : Bytes) (ht : s.transport = TRANSPORT_UDP) (hv : s.version = 2) :
    analyze s data = if data.take 3 = [0xEA, 0xD0, 0x01] then .v1 else .v0 := by
  simp [analyze, ht, hv]

end Nx.C03
