"""C15 — polymorphic data holders over EVERY registered class, and registered class hierarchies.

`DataHolder.encode` announces a type name, `DataHolder.decode` looks the name up in the registry
`DataHolder.object_map`.  The round-trip law read(write(x)) = x for a holder is quantified over the
registry: every class that is registered (by any module of the library, or by the application) and every
shape the registry can have around it (a registered class deriving from another registered class, base
registered before or after the derived one, three levels, unregistered classes in between, siblings).
This module

  * discovers the registrations of EVERY module of `nintendo.nex` (import one module at a time, diff
    `object_map`), and for each module puts the registry in the state that module leaves it in (through
    the public `DataHolder.register`) before using its classes;
  * builds VALUES of the registered classes without knowing their fields: a `GenStream` (a StreamIn whose
    primitive readers invent a typed value instead of consuming bytes) is handed to the class's own
    `load` methods, level by level, the way `Structure.decode` walks the hierarchy; nested structures,
    lists, maps and nested holders (of any registered class) are filled the same way;
  * writes them with the real `StreamOut.anydata`, alone, in lists of mixed holders and nested in holder
    fields, reads them back with the real `StreamIn.anydata` and demands: the announced name is the
    object's own class name, the decoded object has exactly the class that was written, all fields are
    equal (deep, typed), exactly the written bytes are consumed, and re-encoding gives the same bytes;
  * generates application-defined hierarchies (random trees of classes, random subset registered, random
    registration order) and runs them on the real code and on the Lean model
    (`NxModel/Nex/HolderPoly.lean`, driver ops `poly.w` / `poly.r`).
"""
import importlib, pkgutil, struct
from nintendo.nex import common, streams
import nexval_gen as G

MAX_REPORTS = 4
NEX_VERSIONS = [0, 29999, 30000, 30499, 30500, 30600, 30700, 30799, 30800, 39999, 40000, 40399, 40400, 99999]


# ================================================================== discovery of the registry
def discover():
    """[(module name, [(registered name, class)] in registration order)] for every module of nintendo.nex that
    registers something, by importing the modules one at a time and looking at what changed in the registry."""
    import nintendo.nex as pkg
    per_module, failed = [], []
    base = [(n, c) for n, c in common.DataHolder.object_map.items() if c.__module__ == common.__name__]
    if base: per_module.append((common.__name__, base))
    seen = {id(c) for _, c in base}
    for name in sorted(m.name for m in pkgutil.iter_modules(pkg.__path__)):
        full = pkg.__name__ + "." + name
        before = dict(common.DataHolder.object_map)
        try: mod = importlib.import_module(full)
        except Exception as e:
            failed.append((full, repr(e))); continue
        new = [(n, c) for n, c in common.DataHolder.object_map.items() if before.get(n) is not c and id(c) not in seen]
        # a module imported earlier (as a dependency of another one) has its registrations attributed to itself
        for n, c in list(vars(mod).items()):
            if isinstance(c, type) and issubclass(c, common.Structure) and c.__module__ == full and id(c) not in seen \
                    and common.DataHolder.object_map.get(c.__name__) is c and (c.__name__, c) not in new:
                new.append((c.__name__, c))
        by_mod = {}
        for n, c in new:
            seen.add(id(c)); by_mod.setdefault(c.__module__, []).append((n, c))
        for m, lst in by_mod.items(): per_module.append((m, lst))
    return per_module, failed


def install(regs):
    """the registry as the module (or application) leaves it: its classes registered, in its order, through the public API"""
    for n, c in regs: common.DataHolder.register(c, n)


# ================================================================== values of arbitrary Structure classes
class GenStream(streams.StreamIn):
    """a StreamIn that invents typed values: handed to `cls.load`, it fills an object with a value of every field's type"""
    def __init__(self, settings, rng, depth=0):
        super().__init__(b"", settings)
        self.rng, self.depth = rng, depth
    def _g(self, t): return G.gen_val(self.rng, (t,), self.settings["nex.pid_size"])
    def u8(self): return self._g("u8")
    def u16(self): return self._g("u16")
    def u32(self): return self._g("u32")
    def u64(self): return self._g("u64")
    def s8(self): return self._g("s8")
    def s16(self): return self._g("s16")
    def s32(self): return self._g("s32")
    def s64(self): return self._g("s64")
    def bool(self): return self._g("bool")
    def double(self): return self._g("double")
    def float(self): return self._g("float")
    def pid(self): return self._g("pid")
    # None in a field of a generated structure means "not assigned" (save refuses it): fields get present values
    def string(self): return G.gen_string(self.rng, allow_none=False)
    def buffer(self): return self._g("buffer")
    def qbuffer(self): return self._g("qbuffer")
    def datetime(self): return self._g("datetime")
    def result(self): return self._g("result")
    def variant(self):
        v = None
        while v is None: v = self._g("variant")
        return v
    def stationurl(self):
        r = self.rng
        u = common.StationURL(r.choice(["prudp", "prudps", "udp"]))
        for k in r.sample(["address", "port", "PID", "sid", "type", "natm", "Rsa"], r.randint(0, 4)):
            u[k] = "10.0.0.%d" % r.randint(0, 255) if k in ("address", "Rsa") else r.randint(0, 65535)
        return common.StationURL.parse(str(u))
    def list(self, func): return self.repeat(func, 0 if self.depth > 3 else self.rng.choice([0, 1, 1, 2, 3]))
    def map(self, keyfunc, valuefunc):
        d = {}
        for _ in range(0 if self.depth > 3 else self.rng.choice([0, 1, 2, 3])):
            k = self.callback(keyfunc); d[k] = self.callback(valuefunc)
        return d
    def extract(self, cls):
        if cls is common.DataHolder:
            h = common.DataHolder(); h.data = self.anydata(); return h
        return gen_instance(cls, self.settings, self.rng, self.depth + 1)
    def anydata(self):
        # a nested holder: any class that is registered right now under its own name
        cands = [c for n, c in common.DataHolder.object_map.items() if c.__name__ == n]
        if self.depth >= 2: cands = [common.NullData]
        return gen_instance(self.rng.choice(cands), self.settings, self.rng, self.depth + 1)
    # byte-level readers have no type to invent a value for
    def read(self, num): raise Untyped("read")
    def readall(self): raise Untyped("readall")
    def peek(self, num): raise Untyped("peek")
    def substream(self): raise Untyped("substream")


class Untyped(Exception): pass


def gen_instance(cls, settings, rng, depth=0):
    """an object of `cls` holding a value of the right type in every field that `cls` (and its bases) load under
    `settings`: the hierarchy is walked as Structure.decode does, with the version Structure.encode will announce"""
    obj = cls()
    for c in obj.get_hierarchy():
        version = c.max_version(obj, settings) if settings["nex.struct_header"] else 0
        c.load(obj, GenStream(settings, rng, depth), version)
    return obj


def canon(v):
    """a plain, typed, comparable rendering of a field value (floats by bit pattern, objects by class + fields)"""
    if v is None or isinstance(v, (bool, int, str, bytes)): return (type(v).__name__, v)
    if isinstance(v, float): return ("float", G.dbits(v))
    if isinstance(v, common.DateTime): return ("DateTime", v.value())
    if isinstance(v, common.Result): return ("Result", v.code())
    if isinstance(v, common.StationURL): return ("StationURL", v.urlscheme, tuple(sorted((k, str(x)) for k, x in v.params.items())))
    if isinstance(v, (list, tuple)): return ("list", tuple(canon(x) for x in v))
    if isinstance(v, dict): return ("dict", tuple((canon(k), canon(x)) for k, x in v.items()))
    if isinstance(v, common.DataHolder): return ("DataHolder", canon(v.data))
    if isinstance(v, common.Structure):
        return ("object", type(v).__module__, type(v).__qualname__, tuple((k, canon(x)) for k, x in sorted(vars(v).items())))
    return ("other", repr(v))


def describe(v, limit=1500):
    """readable text of a value for the replay file"""
    def go(v):
        if isinstance(v, common.Structure): return "%s(%s)" % (type(v).__name__, ", ".join("%s=%s" % (k, go(x)) for k, x in vars(v).items()))
        if isinstance(v, common.DateTime): return "DateTime(%d)" % v.value()
        if isinstance(v, common.Result): return "Result(0x%08X)" % v.code()
        if isinstance(v, common.DataHolder): return "DataHolder(%s)" % go(v.data)
        if isinstance(v, list): return "[%s]" % ", ".join(go(x) for x in v)
        if isinstance(v, dict): return "{%s}" % ", ".join("%s: %s" % (go(k), go(x)) for k, x in v.items())
        return repr(v)
    return go(v)[:limit]


def class_names(v):
    """class names of a value and of every holder nested in it, in writing order"""
    out = []
    def go(v, held):
        if isinstance(v, common.DataHolder): go(v.data, True)
        elif isinstance(v, common.Structure):
            if held: out.append(type(v).__name__)
            for x in vars(v).values(): go(x, False)
        elif isinstance(v, (list, tuple)):
            for x in v: go(x, held)
        elif isinstance(v, dict):
            for x in v.values(): go(x, False)
    go(v, True)
    return out


# ================================================================== the round-trip oracle of a holder
def holder_problems(objs, S, how):
    """writes the objects with the real StreamOut (how = 'alone' | 'list' | 'sequence'), reads them back, returns
    (list of problems, written bytes).  Nothing here knows the classes' fields."""
    tail = b"\xca\xfe\xf0\x0d"
    out = streams.StreamOut(S)
    try:
        if how == "list": out.list(objs, out.anydata)
        else:
            for o in objs: out.anydata(o)
    except Exception as e:
        return ["writing raised %r" % (e,)], None
    data = out.get()
    problems = []
    # the announced type name of the first holder (the frame starts with it; in a list after the count)
    try:
        inp = streams.StreamIn(data, S)
        if how == "list": inp.u32()
        if objs:
            name = inp.string()
            if name != type(objs[0]).__name__:
                problems.append("the holder of a %s object announces the type name %r" % (type(objs[0]).__name__, name))
    except Exception as e:
        problems.append("reading the type name raised %r" % (e,))
    try:
        inp = streams.StreamIn(data + tail, S)
        back = inp.list(inp.anydata) if how == "list" else [inp.anydata() for _ in objs]
        left = (data + tail)[inp.tell():]
    except Exception as e:
        return problems + ["reading the holder(s) back raised %r" % (e,)], data
    if left != tail: problems.append("the reader consumed %d bytes, %d were written" % (len(data) + len(tail) - len(left), len(data)))
    if len(back) != len(objs): problems.append("%d holders written, %d read" % (len(objs), len(back)))
    for i, (o, b) in enumerate(zip(objs, back)):
        where = "" if len(objs) == 1 else "element %d: " % i
        if type(b) is not type(o):
            problems.append("%swrote a %s.%s, read back a %s.%s" % (where, type(o).__module__, type(o).__name__, type(b).__module__, type(b).__name__))
        if class_names(b) != class_names(o):
            problems.append("%sclasses of the holder and the holders nested in it: wrote %r, read %r" % (where, class_names(o), class_names(b)))
        if canon(b) != canon(o):
            lost = sorted(set(vars(o)) - set(vars(b))) if hasattr(b, "__dict__") else []
            problems.append("%sfields differ%s: wrote %s, read %s" % (where, " (lost: %s)" % ", ".join(lost) if lost else "", describe(o, 400), describe(b, 400)))
    if not problems:
        try:
            again = streams.StreamOut(S)
            if how == "list": again.list(back, again.anydata)
            else:
                for b in back: again.anydata(b)
            if again.get() != data: problems.append("re-encoding what was read gives different bytes")
        except Exception as e:
            problems.append("re-encoding what was read raised %r" % (e,))
    return problems, data


def settings_of(pid_size, hdr, version):
    S = G.make_settings(pid_size=pid_size, struct_header=hdr)
    S["nex.version"] = version
    return S


def conf_text(pid_size, hdr, version): return "nex.pid_size=%d nex.struct_header=%d nex.version=%d" % (pid_size, 1 if hdr else 0, version)


# ================================================================== every registered class of the library
def library_cases(ctx, B, quick):
    rng = ctx.rng
    per_module, failed = discover()
    saved = dict(common.DataHolder.object_map)
    reported = set()
    n_classes = n_values = n_untyped = 0
    covered, skipped = [], []
    ctx.extra["holder_modules_not_importable"] = failed
    for modname, regs in per_module:
        install(regs)
        for name, cls in regs:
            n_classes += 1
            ok_any = False
            confs = [(p, h, v) for p in (4, 8) for h in (True, False) for v in ([0, 30500, 40000, 99999] if quick else NEX_VERSIONS)]
            if quick: confs = confs + [(rng.choice([4, 8]), rng.random() < 0.5, rng.choice(NEX_VERSIONS)) for _ in range(4)]
            for pid_size, hdr, version in confs:
                S = settings_of(pid_size, hdr, version)
                for rep in range(1 if quick else 4):
                    try: obj = gen_instance(cls, S, rng)
                    except Untyped:
                        n_untyped += 1; continue
                    ok_any = True
                    n_values += 1
                    ctx.case(key=("holder-lib", modname, name, pid_size, hdr, version, rep, rng.random()), nontrivial=True,
                             tag="holder-lib:" + ("derived-from-registered" if any(c is not cls and c in [x for _, x in regs] for c in cls.__mro__) else "plain"))
                    problems, data = holder_problems([obj], S, "alone")
                    if data is not None and not problems:
                        # the frame itself, on the model: name + payload as the object's own encoding
                        sub = streams.StreamOut(S); sub.add(obj)
                        if len(data) < 4000:
                            B.add("any.w %s %s" % (G.show_str(cls.__name__), G.show_bytes(sub.get())), "ok " + G.hx(data), ("any.w-lib", name))
                    if cls.__name__ != name:
                        continue      # registered under another name than the class's: the encoder cannot announce it (no such class in the library)
                    key = "dataholder-registered:%s.%s" % (modname.split(".")[-1], name)
                    if problems and key not in reported and len(reported) < MAX_REPORTS:
                        reported.add(key)
                        ctx.violation(key,
                                      "anydata round trip of a registered class fails on the real code: %s %s: %s" % (modname, name, problems[0]),
                                      {"module": modname, "class": name, "settings": conf_text(pid_size, hdr, version), "value": describe(obj),
                                       "written": data.hex()[:3000] if data else None, "problems": problems[:6],
                                       "registry": "DataHolder.object_map after importing %s" % modname,
                                       "how": "import %s; obj = %s() with the fields above; out = StreamOut(settings); out.anydata(obj); StreamIn(out.get() + b'\\xca\\xfe\\xf0\\x0d', settings).anydata()" % (modname, name)})
            (covered if ok_any else skipped).append("%s.%s" % (modname.split(".")[-1], name))
        # mixed lists and sequences of holders of this module's classes (and NullData)
        pool = [c for n, c in regs if c.__name__ == n] + [common.NullData]
        for _ in range(6 if quick else 60):
            pid_size, hdr, version = rng.choice([4, 8]), rng.random() < 0.6, rng.choice(NEX_VERSIONS)
            S = settings_of(pid_size, hdr, version)
            how = rng.choice(["list", "list", "sequence"])
            try: objs = [gen_instance(rng.choice(pool), S, rng) for _ in range(rng.randint(2, 5))]
            except Untyped: continue
            n_values += len(objs)
            ctx.case(key=("holder-lib-" + how, modname, rng.random()), nontrivial=True, tag="holder-lib:" + how)
            problems, data = holder_problems(objs, S, how)
            key = "dataholder-registered-%s:%s" % (how, modname.split(".")[-1])
            if problems and key not in reported and len(reported) < MAX_REPORTS:
                reported.add(key)
                ctx.violation(key,
                              "a %s of holders of mixed registered classes does not round-trip on the real code (%s): %s" % (how, modname, problems[0]),
                              {"module": modname, "classes": [type(o).__name__ for o in objs], "settings": conf_text(pid_size, hdr, version),
                               "values": [describe(o, 600) for o in objs], "written": data.hex()[:3000] if data else None, "problems": problems[:6],
                               "how": "StreamOut.list(objs, out.anydata) / out.anydata(o) for each; StreamIn.list(inp.anydata) / inp.anydata() for each"})
    # the registry as it was (later sections of the check look at it)
    common.DataHolder.object_map.clear(); common.DataHolder.object_map.update(saved)
    ctx.extra["holder_registered_classes_all_modules"] = n_classes
    ctx.extra["holder_registered_classes_with_values"] = len(covered)
    ctx.extra["holder_registered_classes_without_typed_loader"] = skipped
    ctx.extra["holder_library_values"] = n_values


# ================================================================== application-defined hierarchies
def make_class(name, base, size, version, hold=False):
    """a Structure class whose own level is `size` raw bytes (and, with `hold`, a nested holder after them).
    Fields: f_<name> the bytes, v_<name> the version its `load` was handed (set by whoever fills the object to the
    version that must be seen), h_<name> the nested object."""
    F, V, H = "f_" + name, "v_" + name, "h_" + name
    def __init__(self):
        if base is not common.Structure: base.__init__(self)
        setattr(self, F, bytes(size)); setattr(self, V, 0)
        if hold: setattr(self, H, common.NullData())
    def max_version(self, settings): return version
    def save(self, stream, ver):
        stream.write(getattr(self, F))
        if hold: stream.anydata(getattr(self, H))
    def load(self, stream, ver):
        setattr(self, V, ver)
        setattr(self, F, stream.read(size))
        if hold: setattr(self, H, stream.anydata())
    return type(name, (base,), {"__init__": __init__, "max_version": max_version, "save": save, "load": load, "__module__": __name__})


def gen_world(rng, serial):
    """a random forest of classes below common.Structure (each with its own level of 0..4 bytes and a version), a random
    subset of them registered under their own names in a random order.  Returns (classes, registration order)
    with classes = [(name, parent index or None, size, version, class object)]."""
    n = rng.choice([2, 3, 3, 4, 5, 6])
    classes = []
    for i in range(n):
        parent = None if i == 0 or rng.random() < 0.15 else rng.randrange(i)
        if i >= 2 and rng.random() < 0.4: parent = i - 1          # chains of three and more
        name = "P%d_%d%s" % (serial, i, rng.choice(["", "", "\u00e9", "Shape"]))
        size, version = rng.choice([0, 1, 2, 4]), rng.choice([0, 0, 1, 3, 255])
        base = common.Structure if parent is None else classes[parent][4]
        classes.append((name, parent, size, version, make_class(name, base, size, version)))
    idx = list(range(n))
    r = rng.random()
    if r < 0.5: reg = idx[:]                                    # everything, in definition order (base before derived)
    elif r < 0.7: reg = idx[::-1]                               # derived before base
    else: reg = rng.sample(idx, rng.randint(1, n))              # a subset in any order
    return classes, reg


FIXED_ORDERS = [[0, 1, 2], [2, 1, 0], [1, 0, 2], [0, 2], [2, 0, 1], [1, 2, 0], [0, 1], [1, 2]]


def fixed_world(serial):
    """Shape <- Circle <- Disc: base before derived, derived before base, three levels, an unregistered class in between"""
    a = make_class("F%d_Shape" % serial, common.Structure, 2, 1); b = make_class("F%d_Circle" % serial, a, 3, 0); c = make_class("F%d_Disc" % serial, b, 1, 2)
    return [(a.__name__, None, 2, 1, a), (b.__name__, 0, 3, 0, b), (c.__name__, 1, 1, 2, c)], FIXED_ORDERS[serial]


def hierarchy(classes, i):
    out = []
    while i is not None:
        out.append(i); i = classes[i][1]
    return out[::-1]


def world_line(classes, reg, hdr):
    """reg: class indices (registered under their own names) or (name, class index) pairs, in registration order"""
    pairs = [(classes[p][0], p) if isinstance(p, int) else p for p in reg]
    return " ".join([G.show_bool(hdr), "%d" % len(classes)] + ["%s %s %d" % (G.show_str(c[0]), "-" if c[1] is None else "%d" % c[1], c[2]) for c in classes] +
                    ["%d" % len(pairs)] + ["%s %d" % (G.show_str(n), i) for n, i in pairs])


def read_back(classes, S, frame):
    """the real StreamIn.anydata on a frame, rendered like the model's poly.r"""
    try:
        inp = streams.StreamIn(frame, S); got = inp.anydata()
        gi = [k for k, c in enumerate(classes) if c[4] is type(got)]
        gl = [(getattr(got, "v_" + classes[j][0]), getattr(got, "f_" + classes[j][0])) for j in hierarchy(classes, gi[0])] if gi else []
        return "ok %s %s | %s" % ("%d" % gi[0] if gi else "?" + type(got).__name__, show_levels(gl), G.hx(frame[inp.tell():]))
    except Exception as e:
        return "err " + G.exc_name(e)


def fill(classes, i, hdr, rng):
    """(object of class i with random bytes in every level, [(version that must be seen, bytes)] base first)"""
    obj = classes[i][4]()
    levels = []
    for j in hierarchy(classes, i):
        body = rng.randbytes(classes[j][2])
        setattr(obj, "f_" + classes[j][0], body); setattr(obj, "v_" + classes[j][0], classes[j][3] if hdr else 0)
        levels.append((classes[j][3], body))
    return obj, levels


def show_levels(levels): return " ".join("%d %s" % (v, G.show_bytes(b)) for v, b in levels)


def world_replay(classes, reg):
    return {"classes": [{"name": c[0], "base": "common.Structure" if c[1] is None else classes[c[1]][0], "own_level_bytes": c[2], "max_version": c[3]} for c in classes],
            "registration_order": [classes[j][0] for j in reg]}


def user_cases(ctx, B, quick):
    rng = ctx.rng
    saved = dict(common.DataHolder.object_map)
    reported = set()
    n_worlds = 250 if quick else 4000
    for serial in range(n_worlds):
        classes, reg = fixed_world(serial) if serial < len(FIXED_ORDERS) else gen_world(rng, serial)
        common.DataHolder.object_map.clear(); common.DataHolder.object_map.update(saved)
        install([(classes[i][0], classes[i][4]) for i in reg])
        for i in reg:
            hdr = rng.random() < 0.6
            S = G.make_settings(struct_header=hdr, pid_size=rng.choice([4, 8]))
            name = classes[i][0]
            hier = hierarchy(classes, i)
            obj, levels = fill(classes, i, hdr, rng)
            wl = world_line(classes, reg, hdr)
            try:
                out = streams.StreamOut(S); out.anydata(obj); real = "ok " + G.hx(out.get())
            except Exception as e:
                real = "err " + G.exc_name(e)
            B.add("poly.w %s | %d %s" % (wl, i, show_levels(levels)), real, ("poly.w", len(hier)))
            tag = "depth%d:%s" % (len(hier), "registered-ancestor" if any(j in reg for j in hier[:-1]) else "no-registered-ancestor")
            ctx.case(key="holder-user:%d:%d" % (serial, i), nontrivial=True, tag="holder-user:" + tag)
            problems = []
            if not real.startswith("ok "): problems.append("writing raised: " + real)
            else:
                data = G.unhx(real[3:]); rest = rng.randbytes(rng.choice([0, 2]))
                real_r = read_back(classes, S, data + rest)
                B.add("poly.r %s | %s" % (wl, G.hx(data + rest)), real_r, ("poly.r", len(hier)))
                want = "ok %d %s | %s" % (i, show_levels([(v if hdr else 0, b) for v, b in levels]), G.hx(rest))
                if real_r != want:
                    problems.append("wrote an object of class %s, levels (version, bytes) base first %s; read back [class index, levels | rest] %s, expected %s" % (
                        name, [(v, b.hex()) for v, b in levels], real_r, want))
                problems += holder_problems([obj], S, "alone")[0]
            key = "dataholder-hierarchy:%s:%s" % (tag, "base-registered-first" if reg == sorted(reg) else "other-order")
            if problems and key not in reported and len(reported) < MAX_REPORTS:
                reported.add(key)
                r = world_replay(classes, reg)
                r.update({"object_class": name, "levels_base_first": [{"version": v, "bytes": b.hex()} for v, b in levels], "struct_header": hdr, "problems": problems[:6],
                          "how": "define the classes (each level: save = stream.write(own bytes), load = stream.read(n)); DataHolder.register(cls, cls.__name__) in the given order; "
                                 "StreamOut.anydata(obj); StreamIn.anydata()   (harness/nexval_holder.make_class / user_cases)"})
                ctx.violation(key,
                              "a registered class in an application-defined hierarchy does not round-trip through its holder on the real code: " + problems[0], r)
        # ---- the reader outside the round-trip domain (correspondence only): names registered again for another class (the
        # registry keeps the last one), frames of unregistered classes, frames announcing another class's name, an absent
        # or unknown name, truncated frames
        if serial % 3 == 0:
            pairs = [(classes[i][0], i) for i in reg]
            for _ in range(rng.choice([0, 1, 2])):
                pairs.insert(rng.randrange(len(pairs) + 1), (classes[rng.choice(reg)][0], rng.randrange(len(classes))))
            common.DataHolder.object_map.clear(); common.DataHolder.object_map.update(saved)
            install([(n, classes[i][4]) for n, i in pairs])
            hdr = rng.random() < 0.6
            S = G.make_settings(struct_header=hdr)
            wl = world_line(classes, pairs, hdr)
            for _ in range(4):
                j = rng.randrange(len(classes))
                obj, levels = fill(classes, j, hdr, rng)
                sub = streams.StreamOut(S); sub.add(obj); payload = sub.get()
                nm = rng.choice([classes[j][0], classes[j][0], classes[rng.randrange(len(classes))][0], "Nope", None])
                out = streams.StreamOut(S); out.string(nm); out.u32(len(payload) + 4); out.buffer(payload)
                frame = out.get()
                if rng.random() < 0.25: frame = frame[:rng.randrange(len(frame) + 1)]
                frame += rng.randbytes(rng.choice([0, 0, 3]))
                B.add("poly.r %s | %s" % (wl, G.hx(frame)), read_back(classes, S, frame), ("poly.r-raw", len(pairs) - len(reg)))
            common.DataHolder.object_map.clear(); common.DataHolder.object_map.update(saved)
            install([(classes[i][0], classes[i][4]) for i in reg])
        # ---- holders nested in holders and lists of mixed holders over this world (plus a class holding a holder)
        if serial % 2 == 0:
            hdr = rng.random() < 0.6
            S = G.make_settings(struct_header=hdr, pid_size=rng.choice([4, 8]))
            env = make_class("Env%d" % serial, common.Structure, 1, 0, True)
            common.DataHolder.register(env, env.__name__)
            objs = []
            for _ in range(rng.randint(2, 5)):
                o = fill(classes, rng.choice(reg), hdr, rng)[0] if rng.random() < 0.8 else common.NullData()
                for _ in range(rng.choice([0, 0, 1, 2])):
                    e = env(); setattr(e, "f_" + env.__name__, rng.randbytes(1)); setattr(e, "h_" + env.__name__, o); o = e
                objs.append(o)
            how = rng.choice(["list", "sequence"])
            ctx.case(key="holder-user-%s:%d" % (how, serial), nontrivial=True, tag="holder-user:" + how + "+nested")
            problems, data = holder_problems(objs, S, how)
            key = "dataholder-hierarchy-%s" % how
            if problems and key not in reported and len(reported) < MAX_REPORTS:
                reported.add(key)
                r = world_replay(classes, reg)
                r["classes"].append({"name": env.__name__, "base": "common.Structure", "own_level_bytes": 1, "then": "a nested holder (stream.anydata)"})
                r["registration_order"].append(env.__name__)
                r.update({"values": [describe(o, 500) for o in objs], "struct_header": hdr, "written": data.hex()[:2000] if data else None, "problems": problems[:6],
                          "how": "StreamOut.list(objs, out.anydata) / out.anydata(o) for each, read back with StreamIn.list(inp.anydata) / inp.anydata()"})
                ctx.violation(key,
                              "a %s of (nested) holders over an application-defined hierarchy does not round-trip on the real code: %s" % (how, problems[0]), r)
    common.DataHolder.object_map.clear(); common.DataHolder.object_map.update(saved)
    ctx.extra["holder_user_worlds"] = n_worlds


def run(ctx, B, quick):
    import time
    t0, n0 = time.time(), len(B.lines)
    library_cases(ctx, B, quick)
    user_cases(ctx, B, quick)
    ctx.extra["holder_correspondence_lines"] = len(B.lines) - n0
    ctx.extra["holder_wall_s"] = round(time.time() - t0, 2)
