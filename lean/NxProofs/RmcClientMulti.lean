import NxModel.Nex.RmcClientMulti
import NxProofs.RmcClientX
/-!
# Several connections in one process: each connection behaves as if it were alone

`mrun_conn`: in any interleaving of the atomic sections of any number of connections, the state and the outputs of
connection `c` are those of the extended single-connection machine run on `c`'s own sections — what the other
connections do (register calls under the same ids, receive responses / strays / requests with those ids, get closed
locally or by their peers, run hooks and handlers) and when they do it is irrelevant.
-/
namespace Nx.RmcClient
open Nx Nx.Rmc

theorem lift_length {σ α β : Type} (f : σ → α → σ × β) (ss : List σ) (c : Nat) (a : α) :
    (lift f ss c a).1.length = ss.length := by
  unfold lift; split <;> simp

theorem lift_other {σ α β : Type} (f : σ → α → σ × β) (ss : List σ) (c : Nat) (a : α) (c' : Nat) (h : c ≠ c') :
    (lift f ss c a).1[c']? = ss[c']? := by
  unfold lift; split
  · rfl
  · simp [List.getElem?_set_ne h]

theorem lift_self {σ α β : Type} (f : σ → α → σ × β) (ss : List σ) (c : Nat) (a : α) (s : σ) (h : ss[c]? = some s) :
    (lift f ss c a).1[c]? = some (f s a).1 ∧ (lift f ss c a).2 = some (f s a).2 := by
  have hlt : c < ss.length := by
    rcases Nat.lt_or_ge c ss.length with h' | h'
    · exact h'
    · rw [List.getElem?_eq_none h'] at h; cases h
  unfold lift
  rw [h]
  simp [List.getElem?_set_self hlt]

theorem lift_none {σ α β : Type} (f : σ → α → σ × β) (ss : List σ) (c : Nat) (a : α) (h : ss[c]? = none) :
    lift f ss c a = (ss, none) := by
  unfold lift; rw [h]

theorem outsOf_append (c : Nat) (a b : List (Nat × XOut)) : outsOf c (a ++ b) = outsOf c a ++ outsOf c b := by
  induction a with
  | nil => rfl
  | cons x r ih =>
    obtain ⟨c', x⟩ := x
    by_cases e : c' = c <;> simp [outsOf, e, ih]

theorem outsOf_tag_self (c : Nat) (l : List XOut) : outsOf c (l.map fun x => (c, x)) = l := by
  induction l with
  | nil => rfl
  | cons x r ih => simp [outsOf, ih]

theorem outsOf_tag_other (c c' : Nat) (h : c' ≠ c) (l : List XOut) : outsOf c (l.map fun x => (c', x)) = [] := by
  induction l with
  | nil => rfl
  | cons x r ih => simp [outsOf, h, ih]

theorem opsOf_append (c : Nat) (a b : List MOp) : opsOf c (a ++ b) = opsOf c a ++ opsOf c b := by
  induction a with
  | nil => rfl
  | cons o r ih => by_cases e : o.conn = c <;> simp [opsOf, e, ih]

theorem mstep_length (ms : List XState) (o : MOp) : (mstep ms o).1.length = ms.length := by
  have h := lift_length xstep ms o.conn o.op
  unfold mstep
  split <;> (rename_i e; rw [e] at h; exact h)

/-- an atomic section of another connection neither reads nor writes connection `c` and produces no output on it -/
theorem mstep_other (ms : List XState) (o : MOp) (c : Nat) (h : o.conn ≠ c) :
    (mstep ms o).1[c]? = ms[c]? ∧ outsOf c (mstep ms o).2 = [] := by
  have h1 := lift_other xstep ms o.conn o.op c h
  unfold mstep
  split <;> (rename_i e; rw [e] at h1)
  · exact ⟨h1, outsOf_tag_other c o.conn h _⟩
  · exact ⟨h1, rfl⟩

/-- an atomic section of connection `c` is `xstep` on `c`'s own state -/
theorem mstep_self (ms : List XState) (o : MOp) (x : XState) (h : ms[o.conn]? = some x) :
    (mstep ms o).1[o.conn]? = some (xstep x o.op).1 ∧ outsOf o.conn (mstep ms o).2 = (xstep x o.op).2 := by
  have h1 := lift_self xstep ms o.conn o.op x h
  unfold mstep
  split <;> (rename_i e; rw [e] at h1)
  · obtain ⟨a, b⟩ := h1
    simp only [Option.some.injEq] at b
    exact ⟨a, by rw [b]; exact outsOf_tag_self _ _⟩
  · cases h1.2

/-- every connection of a process runs as if it were alone -/
theorem mrun_conn (ms : List XState) (ops : List MOp) (c : Nat) (x : XState) (h : ms[c]? = some x) :
    (mrun ms ops).1[c]? = some (xrun x (opsOf c ops)).1 ∧ outsOf c (mrun ms ops).2 = (xrun x (opsOf c ops)).2 := by
  induction ops generalizing ms x with
  | nil => exact ⟨h, rfl⟩
  | cons o r ih =>
    simp only [mrun, opsOf]
    by_cases e : o.conn = c
    · subst e
      obtain ⟨s1, s2⟩ := mstep_self ms o x h
      obtain ⟨i1, i2⟩ := ih (mstep ms o).1 (xstep x o.op).1 s1
      simp only [outsOf_append, s2, i2]
      exact ⟨i1, rfl⟩
    · obtain ⟨s1, s2⟩ := mstep_other ms o c e
      obtain ⟨i1, i2⟩ := ih (mstep ms o).1 x (s1.trans h)
      simp only [if_neg e, outsOf_append, s2, i2]
      exact ⟨i1, rfl⟩

theorem mrun_length (ms : List XState) (ops : List MOp) : (mrun ms ops).1.length = ms.length := by
  induction ops generalizing ms with
  | nil => rfl
  | cons o r ih => simp only [mrun]; rw [ih, mstep_length]

theorem minit_get (n : Nat) (ks : List Nat) (c : Nat) (hc : c < ks.length) :
    (minit n ks)[c]? = some (xinit n ks[c]) := by
  simp [minit, hc]

theorem xrun_append (x : XState) (a b : List XOp) :
    xrun x (a ++ b) = ((xrun (xrun x a).1 b).1, (xrun x a).2 ++ (xrun (xrun x a).1 b).2) := by
  induction a generalizing x with
  | nil => simp [xrun]
  | cons o r ih => simp only [List.cons_append, xrun, ih]; simp

theorem mem_outsOf {c : Nat} {x : XOut} {l : List (Nat × XOut)} : x ∈ outsOf c l ↔ (c, x) ∈ l := by
  induction l with
  | nil => simp [outsOf]
  | cons y r ih =>
    obtain ⟨c', y⟩ := y
    by_cases e : c' = c
    · subst e; simp [outsOf, ih]
    · have e' : ¬ c = c' := fun h => e h.symm
      simp [outsOf, e, e', ih]

theorem mem_coreOuts {o : Out} {l : List XOut} : o ∈ coreOuts l ↔ XOut.core o ∈ l := by
  induction l with
  | nil => simp [coreOuts]
  | cons y r ih => cases y <;> simp [coreOuts, ih]

theorem mem_coreOps_recvResponse (l : List XOp) (m : Msg) (h : Op.recvResponse m ∈ coreOps l) :
    XOp.core (.recvResponse m) ∈ l := by
  induction l with
  | nil => simp [coreOps] at h
  | cons y r ih =>
    cases y with
    | core op =>
      simp only [coreOps, List.mem_cons] at h
      rcases h with h | h
      · subst h; simp
      · exact List.mem_cons_of_mem _ (ih h)
    | peerRequest q =>
      simp only [coreOps, List.mem_cons] at h
      rcases h with h | h
      · cases h
      · exact List.mem_cons_of_mem _ (ih h)
    | hookReturn => exact List.mem_cons_of_mem _ (ih (by simpa [coreOps] using h))
    | hookRaise => exact List.mem_cons_of_mem _ (ih (by simpa [coreOps] using h))
    | handlerEnd ok => exact List.mem_cons_of_mem _ (ih (by simpa [coreOps] using h))

theorem mem_opsOf {c : Nat} {x : XOp} {l : List MOp} : x ∈ opsOf c l ↔ (⟨c, x⟩ : MOp) ∈ l := by
  induction l with
  | nil => simp [opsOf]
  | cons y r ih =>
    obtain ⟨c', y⟩ := y
    by_cases e : c' = c
    · subst e; simp [opsOf, ih]
    · have e' : ¬ c = c' := fun h => e h.symm
      simp [opsOf, e, e', ih]

/-- a response among the core ops of connection `c` was received on connection `c` -/
theorem mem_opsOf_recvResponse (c : Nat) (ops : List MOp) (m : Msg) (h : Op.recvResponse m ∈ coreOps (opsOf c ops)) :
    (⟨c, .core (.recvResponse m)⟩ : MOp) ∈ ops :=
  mem_opsOf.mp (mem_coreOps_recvResponse _ m h)

end Nx.RmcClient
