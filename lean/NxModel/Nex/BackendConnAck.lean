import NxModel.Bytes
/-!
# The client's verdict on the answer to its CONNECT (the last gate of a back-end login)

`Backend.plan` ends in the connection the client asks `rmc.connect` for, `Backend.connectRequest` is the CONNECT payload
built from those credentials. Whoever listens at the advertised station answers with a CONNECT/ACK whose payload
`PRUDPClient.check_connection_response` (prudp.py) judges: with credentials it must be exactly 8 bytes,
`struct.unpack("<II")` = (4, (connection_check + 1) & 0xFFFFFFFF); without credentials it must be empty. Every other
payload raises `ValueError` — the handshake does not complete on it.
-/
namespace Nx.Backend
open Nx

/-- `PRUDPClient.check_connection_response(data)` of an endpoint with (`hasCred`) or without credentials whose
    `connection_check` is `check`: `.ok ()` = returns, `.error .value` = raises ValueError. `n32le` is only applied to
    slices of exactly four bytes (the length test comes first, as in the code). -/
def checkResponse (hasCred : Bool) (check : Nat) (data : Bytes) : Except Err Unit :=
  if hasCred then
    if data.length ≠ 8 then .error .value                                   -- "Connection response has wrong size"
    else if n32le (data.take 4) ≠ 4 then .error .value                      -- "Invalid connection response size"
    else if n32le ((data.drop 4).take 4) ≠ (check + 1) % 4294967296 then .error .value   -- "Connection response check failed"
    else .ok ()
  else if data = [] then .ok () else .error .value                         -- "Expected empty connection response"

end Nx.Backend
