import NxModel.Bytes
/-! driver stub for C02 (replaced when the property's model lands) -/
def main : IO Unit := IO.println "stub C02"
