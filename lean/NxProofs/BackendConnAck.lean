import NxModel.Nex.BackendConnAck
import NxProofs.Bytes
/-! the only CONNECT/ACK payload a client with credentials accepts is `u32le 4 ++ u32le (check + 1 mod 2^32)` -/
namespace Nx.Backend
open Nx

theorem n32le_u32le (n : Nat) : n32le (u32le n) = n % 4294967296 := by
  simp [n32le, u32le]; omega

theorem u8_eq_of_toNat {a : UInt8} {n : Nat} (h : a.toNat = n % 256) : b8 n = a := by
  apply UInt8.toNat_inj.mp
  simp [h]

/-- four bytes are the little-endian writing of the number they read as -/
theorem u32le_n32le (a c d e : UInt8) : u32le (n32le [a, c, d, e]) = [a, c, d, e] := by
  have ha := a.toNat_lt; have hc := c.toNat_lt; have hd := d.toNat_lt; have he := e.toNat_lt
  simp only [n32le, u32le]
  rw [u8_eq_of_toNat (a := a) (by omega), u8_eq_of_toNat (a := c) (by omega),
      u8_eq_of_toNat (a := d) (by omega), u8_eq_of_toNat (a := e) (by omega)]

theorem checkResponse_right (check : Nat) :
    checkResponse true check (u32le 4 ++ u32le ((check + 1) % 4294967296)) = .ok () := by
  have h1 : (u32le 4 ++ u32le ((check + 1) % 4294967296)).take 4 = u32le 4 := by simp [u32le]
  have h2 : ((u32le 4 ++ u32le ((check + 1) % 4294967296)).drop 4).take 4 = u32le ((check + 1) % 4294967296) := by simp [u32le]
  simp only [checkResponse, if_true, h1, h2, n32le_u32le]
  simp

theorem checkResponse_ok_inv (check : Nat) (data : Bytes) (h : checkResponse true check data = .ok ()) :
    data = u32le 4 ++ u32le ((check + 1) % 4294967296) := by
  simp only [checkResponse, if_true] at h
  split at h
  · cases h
  · rename_i hlen
    split at h
    · cases h
    · rename_i hl
      split at h
      · cases h
      · rename_i hv
        have hlen : data.length = 8 := by simpa using hlen
        match data, hlen with
        | [a, b, c, d, e, f, g, i], _ =>
          have hl : n32le [a, b, c, d] = 4 := by simpa using hl
          have hv : n32le [e, f, g, i] = (check + 1) % 4294967296 := by simpa using hv
          rw [← hl, ← hv, u32le_n32le, u32le_n32le]
          rfl

/-- **the client's last gate**: a client holding credentials lets its handshake complete on a CONNECT/ACK payload iff the
    payload is the 8 bytes (4, check + 1 mod 2^32) -/
theorem checkResponse_ok_iff (check : Nat) (data : Bytes) :
    checkResponse true check data = .ok () ↔ data = u32le 4 ++ u32le ((check + 1) % 4294967296) :=
  ⟨checkResponse_ok_inv check data, fun h => h ▸ checkResponse_right check⟩

/-- every other payload raises ValueError (no other exception, no silent acceptance) -/
theorem checkResponse_wrong (check : Nat) (data : Bytes) (h : data ≠ u32le 4 ++ u32le ((check + 1) % 4294967296)) :
    checkResponse true check data = .error .value := by
  have hne : checkResponse true check data ≠ .ok () := fun hok => h (checkResponse_ok_inv check data hok)
  simp only [checkResponse, if_true] at hne ⊢
  split
  · rfl
  · split
    · rfl
    · split
      · rfl
      · rename_i h1 h2 h3
        simp [h1, h2, h3] at hne

/-- without credentials only the empty payload passes -/
theorem checkResponse_nocred (check : Nat) (data : Bytes) : checkResponse false check data = .ok () ↔ data = [] := by
  simp only [checkResponse]
  by_cases h : data = [] <;> simp [h]

end Nx.Backend
