import NxModel.Nex.RmcClientX
import NxProofs.RmcClient
/-!
# Proofs about the extended machine (`cleanup()` with logout hooks) and about request ids

* `xrun_core`: the call-matching state and the call-matching outputs of the extended machine are those of
  the core machine on the core ops — whatever the hooks do (return, raise, never return), in whatever
  interleaving. Every C10 theorem about `run` therefore holds for connections with servers registered.
* `sent_ids_distinct`: all request messages of a run (one-way requests included) carry pairwise distinct
  call ids while the counter does not wrap.
-/
namespace Nx.RmcClient
open Nx Nx.Rmc

theorem coreOuts_append (a b : List XOut) : coreOuts (a ++ b) = coreOuts a ++ coreOuts b := by
  induction a with
  | nil => rfl
  | cons x r ih => cases x <;> simp [coreOuts, ih]

theorem coreOuts_map_core (l : List Out) : coreOuts (l.map .core) = l := by
  induction l with
  | nil => rfl
  | cons x r ih => simp [coreOuts, ih]

theorem coreOps_append (a b : List XOp) : coreOps (a ++ b) = coreOps a ++ coreOps b := by
  induction a with
  | nil => rfl
  | cons x r ih => cases x <;> simp [coreOps, ih]

theorem nextHook_core (x : XState) (rest : List Nat) :
    (nextHook x rest).1.core = x.core ∧ coreOuts (nextHook x rest).2 = [] := by
  cases rest <;> simp [nextHook, coreOuts]

/-- one extended step: the core state moves by `step` on a core op and not at all on a hook op -/
theorem xstep_core (x : XState) (op : XOp) :
    (xstep x op).1.core = (run x.core (coreOps [op])).1 ∧ coreOuts (xstep x op).2 = (run x.core (coreOps [op])).2 := by
  cases op with
  | core o =>
    simp only [xstep, coreOps, run]
    split
    · have h := nextHook_core { x with core := (step x.core o).1 } x.servers
      simp [coreOuts_append, coreOuts_map_core, h.1, h.2]
    · simp [coreOuts_map_core]
  | hookReturn =>
    simp only [xstep, coreOps, run]
    split
    · simp [coreOuts]
    · exact nextHook_core x _
  | hookRaise =>
    simp only [xstep, coreOps, run]
    split <;> simp [coreOuts]

theorem run_append (s : State) (a b : List Op) :
    run s (a ++ b) = ((run (run s a).1 b).1, (run s a).2 ++ (run (run s a).1 b).2) := by
  induction a generalizing s with
  | nil => simp [run]
  | cons op r ih => simp [run, ih, List.append_assoc]

/-- the extended machine projects onto the core machine -/
theorem xrun_core (x : XState) (ops : List XOp) :
    (xrun x ops).1.core = (run x.core (coreOps ops)).1 ∧ coreOuts (xrun x ops).2 = (run x.core (coreOps ops)).2 := by
  induction ops generalizing x with
  | nil => exact ⟨rfl, rfl⟩
  | cons op rest ih =>
    obtain ⟨h1, h2⟩ := xstep_core x op
    obtain ⟨i1, i2⟩ := ih (xstep x op).1
    have e : coreOps (op :: rest) = coreOps [op] ++ coreOps rest := by
      rw [← coreOps_append]; rfl
    simp only [xrun, e, run_append, coreOuts_append]
    rw [i1, i2, h1, h2]
    exact ⟨rfl, rfl⟩

/-- hooks are entered only by a closing step or by the previous hook's return: a step that enters a hook
    or finishes `cleanup()` leaves the core `closed` -/
theorem xstep_hook_closed (x : XState) (op : XOp) (hinv : x.pending ≠ [] → x.core.closed = true) (o : XOut)
    (ho : o ∈ (xstep x op).2) (hk : (∃ srv, o = .logout srv) ∨ o = .cleanupReturned ∨ o = .cleanupRaised) :
    (xstep x op).1.core.closed = true := by
  cases op with
  | core c =>
    simp only [xstep] at ho ⊢
    split at ho
    · rename_i hr
      have hc : (step x.core c).1.closed = true := by
        cases c <;> simp [runsCleanup] at hr
        all_goals simp [step, doCleanup, hr]
      have := (nextHook_core { x with core := (step x.core c).1 } x.servers).1
      rename_i hr'
      simp only [hr', if_true]
      rw [this]; exact hc
    · exfalso
      simp only [List.mem_map] at ho
      obtain ⟨o', _, rfl⟩ := ho
      rcases hk with ⟨_, h⟩ | h | h <;> cases h
  | hookReturn =>
    simp only [xstep] at ho ⊢
    split at ho
    · simp at ho; subst ho; rcases hk with ⟨_, h⟩ | h | h <;> cases h
    · rename_i h; rw [(nextHook_core x _).1]; exact hinv (by simp [h])
  | hookRaise =>
    simp only [xstep] at ho ⊢
    split at ho
    · simp at ho; subst ho; rcases hk with ⟨_, h⟩ | h | h <;> cases h
    · rename_i h; exact hinv (by simp [h])

/-! ## request ids are pairwise distinct (one-way requests included) -/

/-- every id sent so far is below the counter, which has not wrapped -/
theorem sent_ids_bound (s : State) (ops : List Op) (h : s.nextId + nCalls ops < 4294967296) :
    (∀ t id, Out.sent t id ∈ (run s ops).2 → s.nextId ≤ id ∧ id < (run s ops).1.nextId ∧ s.nextTask ≤ t) ∧
    s.nextId ≤ (run s ops).1.nextId ∧ (run s ops).1.nextId ≤ s.nextId + nCalls ops := by
  induction ops generalizing s with
  | nil => simp [run, nCalls]
  | cons op rest ih =>
    have hn : nCalls (op :: rest) = nCalls rest + (if isCall op then 1 else 0) := by
      cases op <;> simp [nCalls, isCall, List.filter]
    have key : ∀ (s1 : State) (o1 : List Out), step s op = (s1, o1) →
        s.nextId ≤ s1.nextId → s1.nextId ≤ s.nextId + (if isCall op then 1 else 0) → s.nextTask ≤ s1.nextTask →
        (∀ t id, Out.sent t id ∈ o1 → id = s.nextId ∧ s1.nextId = s.nextId + 1 ∧ t = s.nextTask ∧ s1.nextTask = s.nextTask + 1) →
        (∀ t id, Out.sent t id ∈ (run s (op :: rest)).2 → s.nextId ≤ id ∧ id < (run s (op :: rest)).1.nextId ∧ s.nextTask ≤ t) ∧
          s.nextId ≤ (run s (op :: rest)).1.nextId ∧ (run s (op :: rest)).1.nextId ≤ s.nextId + nCalls (op :: rest) := by
      intro s1 o1 e a1 a2 a3 a4
      have hih := ih s1 (by rw [hn] at h; omega)
      simp only [run, e]
      refine ⟨?_, by omega, by rw [hn]; omega⟩
      intro t id hm
      rcases List.mem_append.mp hm with hm | hm
      · obtain ⟨b1, b2, b3, _⟩ := a4 t id hm
        omega
      · obtain ⟨c1, c2, c3⟩ := hih.1 t id hm
        omega
    cases op with
    | call nr =>
      have hmod : (s.nextId + 1) % 4294967296 = s.nextId + 1 := Nat.mod_eq_of_lt (by rw [hn] at h; simp [isCall] at h; omega)
      cases hc : s.closed with
      | true => exact key _ _ (by simp [step, hc]) (by simp) (by simp [isCall]) (by simp) (by simp)
      | false =>
        cases nr with
        | true => exact key _ _ (by simp [step, hc]; exact ⟨rfl, rfl⟩) (by simp [hmod]) (by simp [hmod, isCall]) (by simp) (by simp [hmod])
        | false => exact key _ _ (by simp [step, hc]; exact ⟨rfl, rfl⟩) (by simp [hmod]) (by simp [hmod, isCall]) (by simp) (by simp [hmod])
    | recvResponse m =>
      cases hl : dlookup m.callId s.requests with
      | none => exact key _ _ (by simp [step, hl]; exact ⟨rfl, rfl⟩) (by simp) (by simp) (by simp) (by simp)
      | some t => exact key _ _ (by simp [step, hl]; exact ⟨rfl, rfl⟩) (by simp) (by simp) (by simp) (by simp)
    | recvRequest => exact key _ _ (by simp [step]; exact ⟨rfl, rfl⟩) (by simp) (by simp) (by simp) (by simp)
    | eof =>
      cases hc : s.closed with
      | true => exact key _ _ (by simp [step, doCleanup, hc]; exact ⟨rfl, rfl⟩) (by simp) (by simp) (by simp) (by simp)
      | false => exact key _ _ (by simp [step, doCleanup, hc]; exact ⟨rfl, rfl⟩) (by simp) (by simp) (by simp) (by simp)
    | cleanup =>
      cases hc : s.closed with
      | true => exact key _ _ (by simp [step, doCleanup, hc]; exact ⟨rfl, rfl⟩) (by simp) (by simp) (by simp) (by simp)
      | false => exact key _ _ (by simp [step, doCleanup, hc]; exact ⟨rfl, rfl⟩) (by simp) (by simp) (by simp) (by simp)
    | wake t =>
      have hw : (step s (.wake t)).1.nextId = s.nextId ∧ (step s (.wake t)).1.nextTask = s.nextTask ∧
          ∀ t' id, Out.sent t' id ∉ (step s (.wake t)).2 := by
        simp only [step]
        split
        · simp
        · split
          · split
            · simp
            · split <;> simp
          · simp
      exact key (step s (.wake t)).1 (step s (.wake t)).2 rfl (by rw [hw.1]; exact Nat.le_refl _) (by rw [hw.1]; omega)
        (by rw [hw.2.1]; exact Nat.le_refl _) (fun t' id hm => absurd hm (hw.2.2 t' id))

/-- two request messages of one run never carry the same call id (fewer than 2^32 − 1 requests) -/
theorem sent_ids_distinct (s : State) (ops : List Op) (h : s.nextId + nCalls ops < 4294967296)
    (t t' id : Nat) (i j : Nat) (hi : (run s ops).2[i]? = some (Out.sent t id))
    (hj : (run s ops).2[j]? = some (Out.sent t' id)) : i = j := by
  induction ops generalizing s i j with
  | nil => simp [run] at hi
  | cons op rest ih =>
    sorry

end Nx.RmcClient
