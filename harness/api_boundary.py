"""C20 — every setter of every HTTP client x the BOUNDARY values of each parameter's type.

The two-value witnesses of corr_C20 show that a setter has *an* effect.  The property says more: each setter changes the
*corresponding* request field — for every value of the documented type.  0, the empty string, empty bytes, None where it is a
documented value, the largest value of the field's width and the first value beyond it are values like any other: after
`set_x(v)` every request must carry v in the documented place (and so differ from the request of a client on which `set_x`
was never called, whenever the default is "omitted").

For each setter the arguments are varied one parameter at a time over the boundary values of its type (and all at once), then
  * every public call of the client is made on that object and the captured request is examined:
      - `carried` : the request has, exactly once, each field the reference attaches to the setter, with the configured value.
                    The table of documented places is `NnasSet.fields` / `NascSet.fields` / `hdrFields` of the Lean model
                    (Nx.C20.nnas_setter_argument_carried, nasc_setter_argument_carried hold for all values); the driver prints it.
      - `shape`   : the header names / form keys are those of the same call after the setter was used with ordinary values
                    (same None-pattern): whether a field is present must not depend on the value's truthiness.
      - `accepted`: a call the model performs is not refused by the real client (`set_user(0, …)`; `rom_id=""`).
      - byte-for-byte comparison with the model (correspondence).
  * the same on ONE object across a sequence: ordinary value, call, boundary value, call (the boundary value must replace the
    ordinary one, not be ignored), and boundary value followed by a setter of another attribute group.
Switch clients (request callback): set_host / set_hosts / set_power_state / set_platform_region / set_context with "", "0", 0,
None: host handed to the callback and Host header, X-Nintendo-PowerState wherever the unconfigured client sends one, context
identity (None included), shape as unconfigured; byte-exact against the C18 model.  The constructor's device id of
dragons / sun / atumn with the value 0: the request is that of another device id with the id substituted.
"""
import base64, re, urllib.parse
import anyio
from anynet import http
import vf
import switch_cases as sc


def hx(b):
    if isinstance(b, str): b = b.encode()
    return b.hex() if b else "-"


def unhx(h):
    return b"" if h == "-" else bytes.fromhex(h)


def enc_set(name, args):
    def one(a):
        if a is None: return "none"
        if isinstance(a, bool): raise ValueError(a)
        if isinstance(a, int): return "n:%d" % a
        if isinstance(a, bytes): return "b:" + hx(a)
        return "s:" + hx(a)
    return "%s(%s)" % (name, ";".join(one(a) for a in args))


def show_call(name, args):
    return "%s(%s)" % (name, ", ".join(("0x%X" % a if isinstance(a, int) and not isinstance(a, bool) and a > 9 else repr(a)) for a in args))


# ------------------------------------------------------------------------------------------------ boundary values
def boundaries(ty):
    kind = ty[0]
    if kind == "int":       # formatted with a minimum width of ty[1] bits: smallest, one, largest of the width, first beyond it
        w = ty[1]
        return [0, 1, (1 << w) - 1, 1 << w]
    if kind == "str": return ["", "0"]
    if kind == "optstr": return [None, "", "0"]
    if kind == "bytes": return [b"", b"\x00"]
    if kind == "enum": return list(ty[1])
    raise ValueError(ty)


def sweep(types, ordinary, rng, extra):
    """argument tuples: `ordinary` with one parameter at a time at each of its boundary values, every parameter at its
    first / second boundary value at once, and `extra` seeded random combinations"""
    out = []
    for i, ty in enumerate(types):
        for b in boundaries(ty):
            t = tuple(b if j == i else v for j, v in enumerate(ordinary))
            if t not in out: out.append(t)
    for k in (0, 1):
        t = tuple(boundaries(ty)[min(k, len(boundaries(ty)) - 1)] for ty in types)
        if t not in out: out.append(t)
    for _ in range(extra):
        t = tuple(rng.choice(boundaries(ty) + [o]) for ty, o in zip(types, ordinary))
        if t not in out: out.append(t)
    return out


# parameter types (docs/reference/nnas.md, nasc.md) and an ordinary argument tuple
NNAS = {
    "set_url": ([("str",)], ("b.example",)),
    "set_client_id": ([("str",)], ("idb",)),
    "set_client_secret": ([("str",)], ("sb",)),
    "set_platform_id": ([("int", 32)], (3,)),
    "set_device_type": ([("int", 32)], (3,)),
    "set_device": ([("int", 64), ("str",), ("int", 16), ("optstr",)], (2, "SER2", 0x270, "cert")),
    "set_locale": ([("int", 8), ("str",), ("str",)], (2, "JP", "ja")),
    "set_fpd_version": ([("int", 16)], (16,)),
    "set_environment": ([("str",)], ("D1",)),
    "set_title": ([("int", 64), ("int", 16)], (0x0005000010102000, 2)),
}
NASC = {
    "set_url": ([("str",)], ("b.example",)),
    "set_sdk_version": ([("int", 8), ("int", 8)], (11, 4)),
    "set_title": ([("int", 64), ("int", 16), ("str",), ("str",), ("enum", (0, 1, 2)), ("optstr",)], (0x0004000000030900, 2, "AMKE", "01", 2, "rom")),
    "set_device": ([("str",), ("str",), ("bytes",), ("str",), ("str",)], ("SER2", "001122334455", b"\x03\xff", "My 3DS", "1")),
    "set_network": ([("str",), ("str",)], ("ddeeff", "02:1111111111")),
    "set_locale": ([("int", 8), ("int", 8)], (1, 5)),
    "set_user": ([("int", 32), ("str",)], (5678, "hmac2")),
    "set_password": ([("str",)], ("pw2",)),
    "set_fpd_version": ([("int", 16)], (15,)),
    "set_environment": ([("str",)], ("D1",)),
}
NNAS_CALLS = [("login", ("user name", "p&w", None)), ("login", ("", "", "")), ("get_nex_token", ("tok", 0x1010EB00)), ("get_nex_token", ("", 0)),
              ("get_service_token", ("tok", "cid")), ("get_profile", ("tok",)), ("get_miis", ([1, 2],)), ("get_miis", ([],)),
              ("get_pids", (["ab", "c d"],)), ("get_nnids", ([1234],)), ("get_nnids", ([0],))]
NASC_CALLS = [("login", (0x00030800, "nick é")), ("login", (0, ""))]
NASC_BASE = [("set_title", (0x0004000000030800, 1, "----", "00", 0, None)), ("set_device", ("SER0", "000000000000", b"\x00", "", "2")), ("set_user", (1, "h0")),
             ("set_network", ("0011223344ff", "01:0000000000"))]
DEVTIME = "240506070809"


def nnas_call_tok(call, args):
    s = lambda v: "none" if v is None else "s:" + hx(v)
    if call == "login": return "login %s %s %s" % (s(args[0]), s(args[1]), s(args[2]))
    if call == "get_nex_token": return "token %s n:%d" % (s(args[0]), args[1])
    if call == "get_service_token": return "svctoken %s %s" % (s(args[0]), s(args[1]))
    if call == "get_profile": return "profile " + s(args[0])
    if call == "get_miis": return "miis ln:" + (",".join(str(x) for x in args[0]) or "-")
    if call == "get_pids": return "pids ls:" + (",".join(hx(x) for x in args[0]) or "-")
    if call == "get_nnids": return "nnids ln:" + (",".join(str(x) for x in args[0]) or "-")
    raise ValueError(call)


def none_pattern(val, ordinary):
    return tuple(None if v is None else o for v, o in zip(val, ordinary))


def headers_of(data):
    method, path, query, headers, body = sc.split_request(data)
    return headers


def nasc_form(data):
    """the LOGIN form with Nintendo's base64 undone: [(key, bytes)]"""
    method, path, query, headers, body = sc.split_request(data)
    out = []
    for k, v in sc.form_pairs(body.decode()):
        v = urllib.parse.unquote(v or "").replace(".", "+").replace("-", "/").replace("*", "=")
        out.append((urllib.parse.unquote(k), base64.b64decode(v)))
    return out


def parse_fields(line):
    """driver output of nnasfields / nascfields -> {tag: [(name, value bytes)]}"""
    out = {"h": [], "l": [], "f": []}
    if line in ("-", "bad-op"): return out
    for tok in line.split(" "):
        tag, _, rest = tok.partition(":")
        k, _, v = rest.partition("=")
        out[tag].append((unhx(k).decode(), unhx(v)))
    return out


def check_carried(pairs, wanted, ci):
    """each wanted (name, value) occurs exactly once among `pairs`; -> list of (name, wanted, found values)"""
    bad = []
    for name, value in wanted:
        got = [v for k, v in pairs if (k.lower() == name.lower() if ci else k == name)]
        if got != [value]:
            bad.append((name, value, got))
    return bad


def describe(bad, what):
    name, value, got = bad
    v = value.decode("utf-8", "replace") if isinstance(value, bytes) else value
    if not got: return "the %s %s is absent (documented: %s = %r)" % (what, name, name, v)
    return "the %s %s is %r, documented: %r" % (what, name, [g.decode("utf-8", "replace") if isinstance(g, bytes) else g for g in got] if len(got) > 1 else
                                                (got[0].decode("utf-8", "replace") if isinstance(got[0], bytes) else got[0]), v)


_reported = set()


def violation_once(ctx, key, what, replay):
    """one report per (client, setter): corr_C20 allows a few reports per client, counted per call"""
    if key in _reported: return
    _reported.add(key)
    ctx.violation(key, what, replay)


# ------------------------------------------------------------------------------------------------ nnas / nasc / hpp
def legacy_boundary(ctx, drv):
    import datetime as _dt
    from nintendo import nnas, nasc
    real_request = http.request
    cap = []
    lines, reals, meta = [], [], []
    quick = ctx.tier == "quick"

    async def fake(url, req, context=None, **kw):
        cap.append((url, req.encode(), context))
        raise StopAsyncIteration

    class FixedDT(_dt.datetime):
        @classmethod
        def now(cls, tz=None): return cls(2024, 5, 6, 7, 8, 9)

    async def do(c, call, args):
        """-> ('ok', url, data) | ('err', exception)"""
        cap.clear()
        try:
            await getattr(c, call)(*args)
        except StopAsyncIteration:
            pass
        except Exception as e:
            return ("err", e)
        if not cap: return ("err", RuntimeError("no request was sent"))
        return ("ok", cap[-1][0], cap[-1][1])

    def real_str(r, prefix=""):
        return (prefix + hx(r[1]) + "|" + hx(r[2])) if r[0] == "ok" else "err " + sc.exc_name(r[1])

    # the documented places, from the model
    fq = [("nnas", s, v) for s, (ty, o) in NNAS.items() for v in sweep(ty, o, ctx.rng, 2 if quick else 40)]
    fq += [("nasc", s, v) for s, (ty, o) in NASC.items() for v in sweep(ty, o, ctx.rng, 2 if quick else 40)]
    fout = drv.batch(["%sfields %s" % (c, enc_set(s, v)) for c, s, v in fq])
    fields = {(c, s, v): parse_fields(o) for (c, s, v), o in zip(fq, fout)}

    def report(client, cls, setter, val, call, args, why, r, sequence, extra=None):
        rep = {"client": client, "setter": setter, "value": repr(val), "call": show_call(call, args), "sequence": sequence,
               "request": r[2].decode("utf-8", "replace")[:1500] if r[0] == "ok" else repr(r[1]),
               "how": "harness/api_boundary.py: anynet.http.request replaced by a capturing stub; run the sequence on one %s()" % cls}
        if extra: rep.update(extra)
        violation_once(ctx, "setter-boundary:%s.%s" % (client, setter),
                      "after %s.%s the %s request %s" % (cls, show_call(setter, val), show_call(call, args), why), rep)

    async def main():
        http.request = fake
        try:
            # ---------------- nnas
            unconf = {}
            c0 = nnas.NNASClient()
            for call, args in NNAS_CALLS:
                unconf[(call, repr(args))] = await do(c0, call, args)
            shapes = {}
            for setter, (types, ordinary) in NNAS.items():
                vals = [v for (c, s, v) in fq if c == "nnas" and s == setter]
                others = [s for s in NNAS if s != setter]
                for val in vals:
                    f = fields[("nnas", setter, val)]
                    seq0 = "c = NNASClient(); c.%s" % show_call(setter, val)
                    c = nnas.NNASClient(); getattr(c, setter)(*val)
                    # the ordinary tuple with the same None-pattern, for the shape
                    ordn = none_pattern(val, ordinary)
                    if (setter, ordn) not in shapes:
                        co = nnas.NNASClient(); getattr(co, setter)(*ordn)
                        for call, args in NNAS_CALLS:
                            r = await do(co, call, args)
                            shapes[(setter, ordn, call, repr(args))] = [k for k, _ in headers_of(r[2])] if r[0] == "ok" else None
                        shapes[(setter, ordn)] = True
                    fresh = {}
                    for call, args in NNAS_CALLS:      # all calls on ONE object
                        r = await do(c, call, args)
                        fresh[(call, repr(args))] = r
                        ctx.case(key="boundary/nnas/%s/%r/%s/%r" % (setter, val, call, args), nontrivial=True, tag="boundary:nnas.%s" % setter)
                        lines.append("nnas %s -- %s" % (enc_set(setter, val), nnas_call_tok(call, args))); reals.append(real_str(r)); meta.append(("nnas", setter))
                        seq = seq0 + "; await c.%s" % show_call(call, args)
                        if r[0] != "ok":
                            report("nnas", "NNASClient", setter, val, call, args, "is refused: %r" % (r[1],), r, seq); continue
                        hdrs = headers_of(r[2])
                        want = [(k, v.decode()) for k, v in f["h"] + (f["l"] if call == "login" else [])]
                        bad = check_carried(hdrs, want, True)
                        if r[1] != (val[0] if setter == "set_url" else "account.nintendo.net"):
                            bad.append(("<server>", val[0] if setter == "set_url" else "account.nintendo.net", [r[1]]))
                        if bad:
                            u = unconf[(call, repr(args))]
                            same = u[0] == "ok" and u[2] == r[2] and u[1] == r[1]
                            report("nnas", "NNASClient", setter, val, call, args,
                                   "does not carry the configured value: %s%s" % (describe(bad[0], "header"),
                                    "; the request is byte-identical to that of a client on which %s was never called" % setter if same else ""),
                                   r, seq, {"expected_headers": want, "all_missing": [describe(b, "header") for b in bad]})
                            continue
                        sh = shapes.get((setter, ordn, call, repr(args)))
                        names = [k for k, _ in hdrs]
                        if sh is not None and names != sh:
                            report("nnas", "NNASClient", setter, val, call, args,
                                   "has other header fields than after %s: missing %r, additional %r" % (show_call(setter, ordn), [n for n in sh if n not in names], [n for n in names if n not in sh]),
                                   r, seq, {"header_names": names, "header_names_ordinary_value": sh})
                    # state on one object: ordinary value, a call, then the boundary value; boundary value, then another setter
                    for k, (call, args) in enumerate(NNAS_CALLS[:1] + NNAS_CALLS[6:7]):
                        c2 = nnas.NNASClient(); getattr(c2, setter)(*ordn); await do(c2, call, args); getattr(c2, setter)(*val)
                        r2 = await do(c2, call, args)
                        other = others[(len(lines) + k) % len(others)]
                        c3 = nnas.NNASClient(); getattr(c3, setter)(*val); getattr(c3, other)(*NNAS[other][1])
                        r3 = await do(c3, call, args)
                        lines.append("nnas %s %s -- %s" % (enc_set(setter, val), enc_set(other, NNAS[other][1]), nnas_call_tok(call, args))); reals.append(real_str(r3)); meta.append(("nnas", setter))
                        ctx.case(key="boundary-seq/nnas/%s/%r/%s/%s" % (setter, val, call, other), nontrivial=True, tag="boundary-seq:nnas.%s" % setter, n=2)
                        r1 = fresh[(call, repr(args))]
                        if real_str(r2) != real_str(r1):
                            report("nnas", "NNASClient", setter, val, call, args, "differs from the request of a fresh client configured the same way: the value set earlier (%s) is not replaced"
                                   % show_call(setter, ordn), r2, "c = NNASClient(); c.%s; await c.%s; c.%s; await c.%s" % (show_call(setter, ordn), show_call(call, args), show_call(setter, val), show_call(call, args)),
                                   {"request_fresh_client": real_str(r1)[:800]})
                        if r3[0] == "ok":
                            want = [(k_, v_.decode()) for k_, v_ in f["h"] + (f["l"] if call == "login" else [])]
                            bad = check_carried(headers_of(r3[2]), want, True)
                            if bad:
                                report("nnas", "NNASClient", setter, val, call, args, "made after a later %s no longer carries the configured value: %s" % (show_call(other, NNAS[other][1]), describe(bad[0], "header")),
                                       r3, seq0 + "; c.%s; await c.%s" % (show_call(other, NNAS[other][1]), show_call(call, args)))
            # ---------------- nasc
            nasc.datetime.datetime = FixedDT
            try:
                def nasc_client(seq):
                    c = nasc.NASCClient(); err = None
                    for nm, a in seq:
                        try: getattr(c, nm)(*a)
                        except Exception as e: err = err or e
                    return c, err

                def nasc_seq(setter, val):
                    return [b for b in NASC_BASE if b[0] != setter and not (setter == "set_password" and b[0] == "set_user")] + [(setter, val)]
                nshapes = {}
                for setter, (types, ordinary) in NASC.items():
                    vals = [v for (c, s, v) in fq if c == "nasc" and s == setter]
                    for val in vals:
                        f = fields[("nasc", setter, val)]
                        seq = nasc_seq(setter, val)
                        c, err = nasc_client(seq)
                        ordn = none_pattern(val, ordinary)
                        if setter == "set_title": ordn = ordn[:4] + (val[4],) + ordn[5:]     # romid is sent for cartridges only
                        for call, args in NASC_CALLS:
                            r = ("err", err) if err is not None else await do(c, call, args)
                            line = "nasc s:%s %s -- login n:%d s:%s s:%s" % (hx(c.bss_id), " ".join(enc_set(nm, a) for nm, a in seq), args[0], hx(args[1]), hx(DEVTIME))
                            lines.append(line); reals.append(real_str(r, "ok ")); meta.append(("nasc", setter, val, call, args, r, seq))
                            ctx.case(key="boundary/nasc/%s/%r/%r" % (setter, val, args), nontrivial=True, tag="boundary:nasc.%s" % setter)
                            if r[0] != "ok": continue       # judged against the model below (`accepted`)
                            sq = "c = NASCClient(); " + "; ".join("c.%s" % show_call(nm, a) for nm, a in seq) + "; await c.%s" % show_call(call, args)
                            form = nasc_form(r[2])
                            bad = [describe(b, "form field") for b in check_carried(form, f["f"], False)]
                            bad += [describe(b, "header") for b in check_carried(headers_of(r[2]), [(k, v.decode()) for k, v in f["h"]], True)]
                            if setter == "set_url" and r[1] != val[0]: bad.append("the request is sent to %r" % r[1])
                            if bad:
                                report("nasc", "NASCClient", setter, val, call, args, "does not carry the configured value: " + bad[0], r, sq,
                                       {"form": [(k, v.decode("utf-8", "replace")) for k, v in form], "all_missing": bad})
                                continue
                            key = (setter, ordn)
                            if key not in nshapes:
                                co, e2 = nasc_client(nasc_seq(setter, ordn))
                                ro = await do(co, call, args) if e2 is None else ("err", e2)
                                nshapes[key] = ([k for k, _ in nasc_form(ro[2])], [k for k, _ in headers_of(ro[2])]) if ro[0] == "ok" else None
                            if nshapes[key] is not None and ([k for k, _ in form], [k for k, _ in headers_of(r[2])]) != nshapes[key]:
                                report("nasc", "NASCClient", setter, val, call, args, "has other form / header fields than after %s: %r instead of %r"
                                       % (show_call(setter, ordn), [k for k, _ in form], nshapes[key][0]), r, sq)
                        # one object: base, ordinary value, login, boundary value, login
                        c2, e2 = nasc_client(nasc_seq(setter, ordn))
                        call, args = NASC_CALLS[0]
                        if e2 is None:
                            await do(c2, call, args)
                            try: getattr(c2, setter)(*val); e3 = None
                            except Exception as e: e3 = e
                            r2 = ("err", e3) if e3 is not None else await do(c2, call, args)
                            cf, ef = nasc_client(nasc_seq(setter, val)); cf.bss_id = c2.bss_id if setter != "set_network" else cf.bss_id
                            r1 = ("err", ef) if ef is not None else await do(cf, call, args)
                            ctx.case(key="boundary-seq/nasc/%s/%r" % (setter, val), nontrivial=True, tag="boundary-seq:nasc.%s" % setter)
                            if real_str(r1) != real_str(r2) and not (r1[0] == "err" and r2[0] == "ok"):
                                # (a refused set_title leaves the earlier title in place: r1 err / r2 ok is the documented outcome)
                                report("nasc", "NASCClient", setter, val, call, args, "differs from the request of a fresh client configured the same way: the value set earlier (%s) is not replaced"
                                       % show_call(setter, ordn), r2, "…; c.%s; await c.login(…); c.%s; await c.%s" % (show_call(setter, ordn), show_call(setter, val), show_call(call, args)),
                                       {"request_fresh_client": real_str(r1)[:800]})
            finally:
                nasc.datetime.datetime = _dt.datetime
            # ---------------- hpp
            from nintendo.nex import hpp, settings as nexsettings
            for gsid in (0x1234, 0, 0xFFFFFFFF):
                for env in ("", "0", "l1", "L1", "D1", "t1", "Dd-9"):
                    try:
                        c = hpp.HppClient(nexsettings.default(), gsid, "v1", 5, "pw")
                    except Exception:
                        break       # reported by corr_C20.legacy_checks
                    c.settings["prudp.access_key"] = "aabbccdd"
                    for mode in ("fresh", "after-request"):
                        if mode == "after-request":
                            c.set_environment("X9"); await do(c, "request", (1, 2, b"x"))
                        c.set_environment(env)
                        r = await do(c, "request", (1, 2, b"x"))
                        ctx.case(key="boundary/hpp/%d/%s/%s" % (gsid, env, mode), nontrivial=True, tag="boundary:hpp.set_environment")
                        lines.append("hpp n:%d s:%s" % (gsid, hx(env))); reals.append(hx(r[1]) if r[0] == "ok" else "err " + sc.exc_name(r[1])); meta.append(("hpp", "set_environment", env, gsid, mode, r))
        finally:
            http.request = real_request
    anyio.run(main)

    outs = drv.batch(lines)
    diffs = []
    for line, real, model, m in zip(lines, reals, outs, meta):
        if model.startswith("err "): model = " ".join(model.split(" ")[:2])     # the driver also names the failing setter
        if real == model: continue
        diffs.append((line, real, model))
        if m[0] == "hpp":
            _, _, env, gsid, mode, r = m
            violation_once(ctx, "setter-boundary:hpp.set_environment",
                          "after HppClient.set_environment(%r)%s the request goes to %r; the documented host is %r" % (env, " (following an earlier request on the same client)" if mode != "fresh" else "",
                           r[1] if r[0] == "ok" else repr(r[1]), unhx(model).decode("utf-8", "replace") if not model.startswith(("err", "bad")) else model),
                          {"client": "hpp", "setter": "set_environment", "value": env, "game_server_id": gsid,
                           "sequence": "c = HppClient(settings.default(), 0x%X, 'v1', 5, 'pw'); %sc.set_environment(%r); await c.request(1, 2, b'x')" % (gsid, "c.set_environment('X9'); await c.request(1, 2, b'x'); " if mode != "fresh" else "", env)})
        elif m[0] == "nasc" and real.startswith("err") and model.startswith("ok"):
            _, setter, val, call, args, r, seq = m
            violation_once(ctx, "setter-boundary:nasc.%s" % setter,
                          "after NASCClient.%s the client refuses to work: %r (the value is a documented one; it is not 'unset')" % (show_call(setter, val), r[1]),
                          {"client": "nasc", "setter": setter, "value": repr(val), "exception": repr(r[1]),
                           "sequence": "c = NASCClient(); " + "; ".join("c.%s" % show_call(nm, a) for nm, a in seq) + "; await c.%s" % show_call(call, args)})
    return diffs


# ------------------------------------------------------------------------------------------------ Switch clients
GOOD_TAGS = ("plain", "baas", "default", "app", "app-country", "ticket-ok", "challenge")


async def run_switch(mods, case):
    """sc.run_case plus set_context; the callback records the context object and the header list"""
    client, devid, ver, cfg, call, args = case["client"], case["devid"], case["ver"], case["cfg"], case["call"], case["args"]
    cl = sc.make_client(mods, client, devid)
    caps = []

    async def cb(host, req, context):
        caps.append({"host": host, "data": req.encode(), "context": context, "hdrs": [(k, str(v)) for k, v in req.headers.items()]})
        return sc.good_response(client, call, req)
    cl.set_request_callback(cb)
    default_context = cl.context
    if ver != "init": cl.set_system_version(ver)
    if "hosts" in cfg:
        if client == "dragons": cl.set_hosts(*cfg["hosts"])
        else: cl.set_host(cfg["hosts"][0])
    if "power" in cfg: cl.set_power_state(cfg["power"])
    if "region" in cfg: cl.set_platform_region(cfg["region"])
    if "context" in cfg: cl.set_context(cfg["context"])
    try:
        value = await sc.invoke(cl, client, call, args)
        return {"ok": True, "value": value, "caps": caps, "default_context": default_context}
    except Exception as e:
        return {"ok": False, "exc": e, "caps": caps, "default_context": default_context}


class _Ctx:
    """a stand-in TLS context that is falsy (an object with __len__ == 0 / __bool__ False is still the configured context)"""
    def __bool__(self): return False
    def __repr__(self): return "<a TLS context object whose bool() is False>"
    def set_certificate(self, cert, key): pass
    def set_authority(self, ca): pass


def switch_boundary(ctx, mods, drv18, tbl_lines):
    cases = []
    for client in sc.CLIENTS:
        devid = 0x6265A1B2C3D4E5F6 if client in ("dragons", "sun", "atumn") else None
        variants = [(c, a, t) for c, a, t in sc.call_variants(client) if t in GOOD_TAGS]
        cfgs = [{}]
        if client == "dragons":
            cfgs += [{"hosts": ["", "", ""]}, {"hosts": ["0", "", "t.example"]}, {"hosts": ["d.example", "0", ""]}]
        else:
            cfgs += [{"hosts": [""]}, {"hosts": ["0"]}]
        if client in ("dauth", "aauth", "baas"): cfgs += [{"power": ""}, {"power": "0"}]
        if client == "dauth": cfgs += [{"region": r} for r in (0, 1, 2, 3, 1 << 32)]
        cfgs += [{"context": None}, {"context": _Ctx()}]
        known = sorted(mods["common"].FIRMWARE_VERSIONS)
        vers = ["init", 1700, known[0]] if ctx.tier == "quick" else ["init"] + sorted(set(known[::3] + [known[-1], 1700]))
        for ver in vers:
            for call, args, tag in variants:
                for cfg in cfgs:
                    cases.append({"client": client, "devid": devid, "ver": ver, "cfg": cfg, "call": call, "args": args, "tag": tag})
                if devid is not None:      # the constructor's device id: 0 is a device id, not "no device id"
                    cases.append({"client": client, "devid": 0, "ver": ver, "cfg": {"device_id": 0}, "call": call, "args": args, "tag": tag})
    results = []

    async def run_all():
        for c in cases:
            try:
                results.append(await run_switch(mods, c))
            except Exception as e:
                results.append({"ok": False, "exc": e, "caps": [], "default_context": None})
    anyio.run(run_all)
    base = {}
    for c, r in zip(cases, results):
        if not c["cfg"]: base[(c["client"], c["ver"], c["call"], c["tag"])] = r
    lines, idx = [], []
    diffs = []
    for i, (c, r) in enumerate(zip(cases, results)):
        cfg = c["cfg"]
        setter = "set_hosts" if "hosts" in cfg and c["client"] == "dragons" else "set_host" if "hosts" in cfg else "set_power_state" if "power" in cfg else \
                 "set_platform_region" if "region" in cfg else "set_context" if "context" in cfg else "__init__" if "device_id" in cfg else None
        if setter is None: continue
        val = tuple(cfg["hosts"]) if "hosts" in cfg else (cfg["context"],) if "context" in cfg else (cfg["device_id"],) if "device_id" in cfg else (cfg.get("power", cfg.get("region")),)
        ctx.case(key="boundary/%s/%s/%r/%s/%s/%s" % (c["client"], setter, val, c["ver"], c["call"], c["tag"]), nontrivial=True, tag="boundary:%s.%s" % (c["client"], setter))
        b = base[(c["client"], c["ver"], c["call"], c["tag"])]
        seq = "c = %s client%s; c.%s; await c.%s" % (c["client"], "" if c["ver"] == "init" else "; c.set_system_version(%d)" % c["ver"], show_call(setter, val), show_call(c["call"], c["args"]))

        def report(why, extra=None):
            rep = {"client": c["client"], "setter": setter, "value": repr(val), "system_version": c["ver"], "call": show_call(c["call"], c["args"]), "sequence": seq,
                   "requests": [x["data"].decode("utf-8", "replace")[:1200] for x in r["caps"]], "hosts": [x["host"] for x in r["caps"]]}
            if extra: rep.update(extra)
            violation_once(ctx, "setter-boundary:%s.%s" % (c["client"], setter), "after %s.%s the %s call %s" % (c["client"], show_call(setter, val), c["call"], why), rep)
        if b["ok"] and not r["ok"]:
            report("fails with %r although the same call works on a client that differs only in this value" % (r["exc"],)); continue
        if not r["ok"]: continue
        if len(b["caps"]) != len(r["caps"]):
            report("sends %d request(s), an unconfigured client sends %d" % (len(r["caps"]), len(b["caps"]))); continue
        for k, (x, y) in enumerate(zip(r["caps"], b["caps"])):
            hosthdr = [v for n, v in x["hdrs"] if n.lower() == "host"]
            if "hosts" in cfg:
                if c["client"] != "dragons" and x["host"] != cfg["hosts"][0]:
                    report("hands the host %r to the request callback, configured: %r" % (x["host"], cfg["hosts"][0])); break
                if c["client"] == "dragons":
                    # which of the three hosts a call uses is read off the unconfigured client
                    d = ["dragons.hac.lp1.dragons.nintendo.net", "dragonst.hac.lp1.dragons.nintendo.net", "tigers.hac.lp1.dragons.nintendo.net"]
                    if y["host"] in d and x["host"] != cfg["hosts"][d.index(y["host"])]:
                        report("hands the host %r to the request callback, configured for that server: %r" % (x["host"], cfg["hosts"][d.index(y["host"])])); break
                if hosthdr != [x["host"]]:
                    report("sends the Host header %r with a request for host %r" % (hosthdr, x["host"])); break
            if "power" in cfg:
                was = [v for n, v in y["hdrs"] if n.lower() == "x-nintendo-powerstate"]
                now = [v for n, v in x["hdrs"] if n.lower() == "x-nintendo-powerstate"]
                if was and now != [cfg["power"]]:
                    report("sends X-Nintendo-PowerState %r, configured: %r (an unconfigured client sends %r there)" % (now, cfg["power"], was)); break
            if "context" in cfg and x["context"] is not cfg["context"]:
                report("hands %s to the request callback instead of the configured context" % ("the client's default TLS context" if x["context"] is r["default_context"] else repr(x["context"]))); break
            if "device_id" in cfg:
                # wherever the request of the ordinary client names its device id, this one names device id 0
                want = y["data"].replace(b"%016x" % 0x6265A1B2C3D4E5F6, b"%016x" % 0)
                if x["data"] != want or x["host"] != y["host"]:
                    report("is not the request of a client with another device id with the id replaced by 0000000000000000", {"expected_request": want.decode("utf-8", "replace")[:1200]}); break
            if [n for n, _ in x["hdrs"]] != [n for n, _ in y["hdrs"]] or sc.shape_of(x["data"]) != sc.shape_of(y["data"]):
                report("has other header / parameter / body fields than the same call of an unconfigured client: %r instead of %r" % (sc.shape_of(x["data"]), sc.shape_of(y["data"]))); break
        # (the C18 driver's line protocol cannot say "one empty host": `h=-` is "no host configured")
        if "context" not in cfg and drv18 is not None and cfg.get("hosts") != [""]:
            lines.append(sc.model_line(c, r)); idx.append(i)
    if lines:
        outs = drv18.batch(tbl_lines + lines)[len(tbl_lines):]
        for line, i, model in zip(lines, idx, outs):
            real = sc.real_line(results[i])
            if real != model:
                diffs.append((line, real, model))
    return diffs


def run(ctx, drv, mods, drv18, tbl_lines):
    import time
    _reported.clear()
    t0 = time.time()
    diffs = [("boundary-legacy",) + d for d in legacy_boundary(ctx, drv)]
    t1 = time.time()
    diffs += [("boundary-switch",) + d for d in switch_boundary(ctx, mods, drv18, tbl_lines)]
    ctx.extra["c20_boundary_diffs"] = len(diffs)
    ctx.extra["c20_boundary_seconds"] = {"nnas_nasc_hpp": round(t1 - t0, 1), "switch": round(time.time() - t1, 1)}
    return diffs
