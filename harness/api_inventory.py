"""C20 — the API-inventory half: every module / class / function / method / parameter named in
docs/reference/**/*.md exists and can be called as documented.

    import api_inventory;  api_inventory.run(ctx)          (called by harness/corr_C20.py)

1. translators: tools/api_docs.py (reference pages -> documented signatures) and tools/api_actual.py
   (`ast` of the modules of the tree under test -> actual signatures, cross-checked with `inspect` on the imported
   objects; a disagreement is a broken correspondence);
2. one generated Lean file per reference page: `documented`, `actual` (both sorted by class, name) and the kernel
   obligations `covers_m : coversM documented actual = true`, `names_m : namesAgreeM … = true` (`decide +kernel`; a
   linear pass — the quadratic all/any costs the kernel minutes on the big pages), from which
   `covers_ok : Nx.Api.covers documented actual = true` and `names_ok : Nx.Api.namesAgree … = true` follow by
   `coversM_covers` / `namesAgreeM_namesAgree`, lifted further by `covers_sound`, `covers_spec`, `names_spec`;
3. the property oracle on the *real imported objects* (independent of the ast tables): import the module, getattr the
   class / callable, look at its kind, `inspect.signature(obj).bind(...)` the documented minimal and maximal call
   shapes, bind every documented parameter by keyword.  Every failure is a `ctx.violation` with a replay;
   signatures whose failure is an *open known finding* are left out of the generated tables (so the obligations
   keep checking everything else) and reported through the same call (vf prints KNOWN-FINDING).
   A failing obligation without a concrete failing signature is a `ctx.corr_break`.

Keys:  api-module-missing:<module>            api-missing:<module>:<Class or ->:<name>
       api-kind:<module>:<Class or ->:<name>  api-params:<module>:<Class or ->:<name>
       api-param-name:<module>:<Class or ->:<name>:<documented parameter name, or #<position> when it has none>
       api-attr-missing:<module>:<Class or ->:<attribute>      (documented plain attributes / constants; Python-only)
"""
import importlib, inspect, os, re, sys, time
from concurrent.futures import ThreadPoolExecutor

import vf
import api_docs, api_actual

KIND = {"def": 0, "async def": 1, "async with": 2, "class": 3, "property": 4, "with": 5, "value": 6}
MAX_VIOLATIONS = 40
CHECK_ATTRS = True      # documented plain attributes / constants (Python-only check, not a kernel obligation)
PH = object()           # placeholder argument


# ---------------------------------------------------------------- records (what is emitted to Lean)

def drec(s):
    ps = [(p["name"], bool(p["has_default"]), bool(p["kwonly"])) for p in s["params"] if not p["var"]]
    return {"module": s["module"] or "", "cls": s["cls"], "kind": KIND[s["kind"]], "name": s["name"],
            "onClass": s["decorator"] in ("classmethod", "staticmethod"), "params": ps,
            "va": any(p["var"] == "args" for p in s["params"]), "vk": any(p["var"] == "kwargs" for p in s["params"])}


def arec(a):
    ps = [(p["name"], bool(p["has_default"]), bool(p["kwonly"])) for p in a["params"]]
    # __init__ is documented as a method but called on the class; methods reached through the class need no instance
    return {"module": a["module"], "cls": a["cls"], "kind": KIND[a["kind"]], "name": a["name"],
            "onClass": a["decorator"] in ("classmethod", "staticmethod"), "params": ps,
            "va": bool(a["varargs"]), "vk": bool(a["varkw"])}


# Python mirror of NxModel/Api/Inventory.lean (used to predict the kernel's verdict and to find the failing entries)

def pos(ps): return [p for p in ps if not p[2]]
def kws(ps): return [p for p in ps if p[2]]

def pos_ok(ds, as_, va, kwnames):
    if not ds:
        return all(p[1] or p[0] in kwnames for p in as_)
    if not as_:
        return va
    return ((not ds[0][1]) or as_[0][1]) and pos_ok(ds[1:], as_[1:], va, kwnames)

def kw_ok(dk, ak, extra, vk):
    return (all(vk or any(p[0] == d[0] and ((not d[1]) or p[1]) for p in ak + extra) for d in dk)
            and all(p[1] or any(d[0] == p[0] for d in dk) for p in ak))

def call_ok(d, a):
    dp, ap = pos(d["params"]), pos(a["params"])
    return (((not d["onClass"]) or a["onClass"])
            and pos_ok(dp, ap, a["va"], [p[0] for p in kws(d["params"])])
            and kw_ok(kws(d["params"]), kws(a["params"]), ap[len(dp):], a["vk"])
            and ((not d["va"]) or a["va"]) and ((not d["vk"]) or a["vk"]))

def same_key(d, a): return d["name"] == a["name"] and d["cls"] == a["cls"] and d["module"] == a["module"]
def sig_matches(d, a): return same_key(d, a) and d["kind"] == a["kind"] and (d["kind"] == KIND["class"] or call_ok(d, a))
def names_ok(dn, an, va):
    if not dn: return True
    if not an: return va
    return dn[0] == an[0] and names_ok(dn[1:], an[1:], va)

def merge_all(p, D, A):
    """mirror of Nx.Api.mergeAll (fuel = |D| + |A| always suffices)"""
    i = j = 0
    while i < len(D):
        if j >= len(A):
            return False
        if p(D[i], A[j]): i += 1
        else: j += 1
    return True

def sort_key(r): return (r["cls"], r["name"])

def names_match(d, a):
    return same_key(d, a) and names_ok([p[0] for p in pos(d["params"])], [p[0] for p in pos(a["params"])], a["va"])


# ---------------------------------------------------------------- Lean generation

def enc(name):
    return "[" + ",".join(str(ord(c)) for c in name) + "]"

def lbool(b): return "true" if b else "false"

def lean_sig(r, names):
    ps = ",".join("⟨%s,%s,%s⟩" % (enc(n), lbool(h), lbool(k)) for (n, h, k) in r["params"])
    return "⟨m,%s,%d,%s,%s,[%s],%s,%s⟩" % (names[r["cls"]], r["kind"], enc(r["name"]), lbool(r["onClass"]), ps, lbool(r["va"]), lbool(r["vk"]))

def lean_file(module, dcov, dnames, actual):
    """-> (source, {theorem: (first line, last line)})"""
    dcov, dnames, actual = sorted(dcov, key=sort_key), sorted(dnames, key=sort_key), sorted(actual, key=sort_key)
    classes = sorted({r["cls"] for r in dcov + dnames + actual})
    cname = {c: ("c%d" % i) for i, c in enumerate(classes)}
    L = ["import NxProofs.ApiInventory",
         "/-! generated by harness/api_inventory.py from docs/reference and the sources of `%s` — do not edit -/" % module,
         "open Nx.Api", "namespace Gen",
         "def m : Name := %s  -- %s" % (enc(module), module)]
    for c in classes:
        L.append("def %s : Name := %s  -- %s" % (cname[c], enc(c), c or "(module level)"))
    def table(name, typ, recs):
        if not recs:
            L.append("def %s : List %s := []" % (name, typ)); return
        L.append("def %s : List %s := [" % (name, typ))
        for i, r in enumerate(recs):
            L.append("  " + lean_sig(r, cname) + ("," if i + 1 < len(recs) else ""))
        L.append("]")
    table("documented", "Sig", dcov)
    same = dnames == dcov
    if not same:
        table("documentedNamed", "Sig", dnames)
    table("actual", "ASig", actual)
    spans = {}
    def thm(name, lines):
        a = len(L) + 1
        L.extend(lines)
        spans[name] = (a, len(L))
    dn = "documented" if same else "documentedNamed"
    # kernel obligations: the linear pass over the sorted tables; covers_ok / names_ok follow by mergeAll_sound
    thm("covers_ok", ["theorem covers_m : coversM documented actual = true := by decide +kernel",
                      "theorem covers_ok : covers documented actual = true := coversM_covers covers_m"])
    thm("names_ok", ["theorem names_m : namesAgreeM %s actual = true := by decide +kernel" % dn,
                     "theorem names_ok : namesAgree %s actual = true := namesAgreeM_namesAgree names_m" % dn])
    L += ["/-- every documented entry of this page exists with the documented kind and accepts the documented call shape -/",
          "theorem covers_lifted : ∀ d ∈ documented, ∃ a ∈ actual, sigMatches d a = true := covers_sound covers_ok",
          "theorem exists_lifted : CoversSpec documented actual := covers_spec covers_ok",
          "/-- the documented positional parameter names are the code's -/",
          "theorem names_lifted : NamesSpec %s actual := names_spec names_ok" % dn,
          "theorem none_uncovered : firstUncovered documented actual = none := (firstUncovered_none_iff _ _).mpr covers_ok",
          "end Gen", ""]
    return "\n".join(L), spans


# ---------------------------------------------------------------- the oracle on the real objects

def kbase(d):
    return "%s:%s:%s" % (d["module"], d["cls"] or "-", d["name"])

def doc_text(d):
    def one(p):
        t = ("**" if p["var"] == "kwargs" else "*" if p["var"] == "args" else "") + (p["name"] or "<unnamed>")
        return t + (" = " + str(p["default"]) if p["has_default"] else "")
    return "%s %s(%s)" % (d["kind"], d["name"], ", ".join(one(p) for p in d["params"]))

def real_probe(d, act, table):
    """check one documented signature against the imported library. -> list of (family, key, what, replay-extra)"""
    mod, cls, name = d["module"], d["cls"], d["name"]
    if not mod:
        return [("cover", "api-module-missing:(page %s)" % d["page"], "reference page %s names no module" % d["page"], {})]
    imp = "importlib.import_module(%r)" % mod
    if mod in act["missing"]:
        try:
            importlib.import_module(mod)
            exc = "module imports, but: " + act["missing"][mod]
        except BaseException as e:
            if isinstance(e, (KeyboardInterrupt, SystemExit)): raise
            exc = "%s: %s" % (type(e).__name__, e)
        return [("cover", "api-module-missing:" + mod,
                 "documented module %s (%s) cannot be imported: %s" % (mod, d["page"], exc), {"expr": imp, "exception": exc})]
    modobj = act["objects"][mod]
    owner, oexpr = modobj, imp
    if cls:
        try:
            owner = getattr(modobj, cls)
        except AttributeError as e:
            return [("cover", "api-missing:" + kbase(d), "documented %s.%s.%s: the class does not exist: %s" % (mod, cls, name, e),
                     {"expr": "getattr(%s, %r)" % (imp, cls), "exception": "AttributeError: %s" % e})]
        oexpr = "%s.%s" % (imp, cls)
        if not inspect.isclass(owner):
            return [("cover", "api-missing:" + kbase(d), "documented class %s.%s is not a class (%s)" % (mod, cls, type(owner).__name__),
                     {"expr": "inspect.isclass(%s)" % oexpr, "exception": "False"})]
    if d["kind"] == "class":
        try:
            obj = getattr(modobj, name)
        except AttributeError as e:
            return [("cover", "api-missing:" + kbase(d), "documented class %s.%s does not exist: %s" % (mod, name, e),
                     {"expr": "getattr(%s, %r)" % (imp, name), "exception": "AttributeError: %s" % e})]
        if not inspect.isclass(obj):
            return [("cover", "api-kind:" + kbase(d), "documented class %s.%s is a %s" % (mod, name, type(obj).__name__),
                     {"expr": "inspect.isclass(%s.%s)" % (imp, name), "exception": "False"})]
        return []
    fails = []
    self_args = []
    if name == "__init__" and cls:
        callee, cexpr, kind_actual = owner, oexpr, "def"          # the constructor call
    else:
        try:
            static = inspect.getattr_static(owner, name)
        except AttributeError:
            try:
                getattr(owner, name); exc = "AttributeError (static lookup)"
            except AttributeError as e:
                exc = "AttributeError: %s" % e
            return [("cover", "api-missing:" + kbase(d), "documented %s does not exist in %s: %s" % (doc_text(d), oexpr.split("(")[-1].strip("')") if not cls else mod + "." + cls, exc),
                     {"expr": "getattr(%s, %r)" % (oexpr, name), "exception": exc})]
        info = api_actual.inspect_callable(owner, name)
        kind_actual = info["kind"]
        t = table.get((mod, cls, name))
        if t and t[0].get("via") and t[0].get("raw_kind") == kind_actual:
            kind_actual = t[0]["kind"]      # a pure forward to an `async with` / `async def` method (confirmed by the self-check)
        cexpr = "%s.%s" % (oexpr, name)
        if kind_actual != d["kind"]:
            return [("cover", "api-kind:" + kbase(d), "documented `%s`, but %s.%s%s is `%s`: it cannot be %s as documented" % (
                        doc_text(d), mod, (cls + ".") if cls else "", name, kind_actual,
                        {"def": "called", "async def": "awaited", "async with": "entered with `async with`"}[d["kind"]]),
                     {"expr": "api_actual.inspect_callable(%s, %r)['kind']" % (oexpr, name), "exception": "%r != documented %r" % (kind_actual, d["kind"]),
                      "iscoroutinefunction": inspect.iscoroutinefunction(getattr(static, "__func__", static))})]
        if d["decorator"] or isinstance(static, (classmethod, staticmethod)) or not cls:
            callee = getattr(owner, name)        # called on the class / module itself
        else:
            callee, self_args = static, [PH]     # plain method: an instance goes first
    try:
        sig = inspect.signature(callee)
    except (TypeError, ValueError) as e:
        return fails                             # C-level callable without introspection: nothing to bind against
    dpos = [p for p in d["params"] if not p["kwonly"] and not p["var"]]
    dkw = [p for p in d["params"] if p["kwonly"] and not p["var"]]
    req = [i for i, p in enumerate(dpos) if not p["has_default"]]
    kmin = (req[-1] + 1) if req else 0
    va = any(p["var"] == "args" for p in d["params"]); vk = any(p["var"] == "kwargs" for p in d["params"])
    shapes = [("minimal", kmin, {p["name"]: PH for p in dkw if not p["has_default"]}),
              ("maximal", len(dpos) + (1 if va else 0), dict({p["name"]: PH for p in dkw}, **({"zz_documented_kwargs": PH} if vk else {})))]
    for label, k, kw in shapes:
        try:
            sig.bind(*(self_args + [PH] * k), **kw)
        except TypeError as e:
            on = " on the class" if d["decorator"] else ""
            fails.append(("cover", "api-params:" + kbase(d),
                          "documented `%s` (%s:%d) cannot be called%s as documented: the %s call (%d positional%s) is rejected by %s%s: TypeError: %s" % (
                              doc_text(d), d["page"], d["line"], on, label, k, (" + keywords " + ",".join(sorted(kw))) if kw else "", cexpr, sig, e),
                          {"expr": "inspect.signature(%s).bind(*[x]*%d%s)" % (cexpr, k + len(self_args), "".join(", %s=x" % n for n in sorted(kw))),
                           "exception": "TypeError: %s" % e, "actual_signature": str(sig)}))
            break
    if fails:
        return fails                             # (names are only compared for entries that can be called at all)
    allpos = [p for p in sig.parameters.values() if p.kind in (p.POSITIONAL_ONLY, p.POSITIONAL_OR_KEYWORD)]
    apos = [p.name for p in allpos][len(self_args):]
    has_varargs = any(p.kind == p.VAR_POSITIONAL for p in sig.parameters.values())
    for i, p in enumerate(dpos):
        actual_name = apos[i] if i < len(apos) else None
        if actual_name == p["name"] or (actual_name is None and has_varargs):
            continue                             # (a stub taking *args has no names to disagree with)
        key = "api-param-name:%s:%s" % (kbase(d), p["name"] or "#%d" % i)
        if not p["name"]:
            exc = "the documented parameter has no name; the code calls it %r" % actual_name
            expr = "list(inspect.signature(%s).parameters)[%d]" % (cexpr, i + len(self_args))
        else:
            expr = "inspect.signature(%s).bind_partial(*[x]*%d, %s=x)" % (cexpr, i + len(self_args), p["name"])
            try:
                sig.bind_partial(*(self_args + [PH] * i), **{p["name"]: PH})
                exc = "binds only through **kwargs / another position; position %d is %r" % (i, actual_name)
            except TypeError as e:
                exc = "TypeError: %s" % e
        fails.append(("names", key,
                      "documented `%s` (%s:%d): parameter %d is documented as %r but the code names it %r — passing it by keyword as documented fails: %s" % (
                          doc_text(d), d["page"], d["line"], i, p["name"] or "<unnamed>", actual_name, exc),
                      {"expr": expr, "exception": exc, "documented_name": p["name"], "code_name": actual_name, "position": i,
                       "actual_signature": str(sig)}))
    return fails


# ---------------------------------------------------------------- attributes (optional, Python only)

def attr_check(docs, act):
    """documented plain attributes / constants that can be located statically: (checked, missing[])"""
    checked, missing = 0, []
    for a in docs["attrs"]:
        mod = a["module"]
        if mod in act["missing"] or mod not in act["attrs"] or "." in a["name"] or a.get("response_of"):
            continue        # (attributes of an RMC response object are listed under the method, they are not class attributes)
        table = act["attrs"][mod]
        modobj = act["objects"][mod]
        if a["section"] == "Global Constants":
            owner_names, owner = table[""], modobj
        elif a["section"] in table and a["section"]:
            owner_names, owner = table[a["section"]], getattr(modobj, a["section"], None)
        else:
            continue        # response attributes listed under a method, sections that are not classes, …
        checked += 1
        if a["name"] not in owner_names and not hasattr(owner, a["name"]):
            missing.append(a)
    return checked, missing


# ---------------------------------------------------------------- run

def run(ctx):
    t0 = time.time()
    repo = vf.REPO
    docs = api_docs.parse_all(repo)
    modules = sorted({p["module"] for p in docs["pages"] if p["module"]})
    act = api_actual.collect(repo, modules)
    table = {}
    for a in act["sigs"]:
        table.setdefault((a["module"], a["cls"], a["name"]), []).append(a)
    arecs = {}
    for a in act["sigs"]:
        arecs.setdefault(a["module"], []).append(arec(a))
    known = {k["key"] for k in ctx._known if k.get("status", "open") == "open" and k.get("property") == ctx.prop}

    ctx.extra["pages"] = len(docs["pages"])
    ctx.extra["modules"] = len(modules)
    ctx.extra["documented_signatures"] = len(docs["sigs"])
    ctx.extra["actual_signatures"] = len(act["sigs"])
    by_kind = {}
    for s in docs["sigs"]:
        by_kind[s["kind"]] = by_kind.get(s["kind"], 0) + 1
    ctx.extra["documented_by_kind"] = by_kind
    ctx.extra["documented_attributes"] = len(docs["attrs"])
    ctx.extra["doc_markup_irregularities"] = ["%s:%d: %s" % (b["page"], b["line"], b["what"]) for b in docs["malformed"]]
    ctx.extra["modules_missing"] = sorted(act["missing"])

    # 1. translator self-check: ast view vs inspect view
    if act["disagreements"]:
        ctx.corr_break("api-translator-selfcheck",
                       "the ast view of the sources and the inspect view of the imported modules disagree on %d items" % len(act["disagreements"]),
                       {"disagreements": act["disagreements"][:50], "repo": repo})
    for b in docs["malformed"]:
        if b["what"].startswith(("entry without a name", "page without", "callable documented under")):
            ctx.corr_break("api-docs-parse", "a reference page entry could not be translated", {"entry": b, "repo": repo})

    # 2. oracle on the real objects + Python mirror of the Lean checker on the tables
    for pinfo in docs["pages"]:                 # (a page may document a module without listing any signature)
        if pinfo["module"] in act["missing"]:
            fam, key, what, extra = real_probe({"module": pinfo["module"], "cls": "", "name": "", "kind": "class", "page": pinfo["page"],
                                                "line": 1, "params": [], "decorator": ""}, act, table)[0]
            ctx.violation(key, what, dict(extra, module=pinfo["module"], page=pinfo["page"], repo=repo))
        ctx.case(key="page:" + pinfo["page"], nontrivial=pinfo["module"] not in act["missing"], tag="api:module")
    pages = {}
    unknown_keys = set()
    exp_fail = {"cover": {}, "names": {}}      # page -> included signatures the mirror says fail (kernel verdict prediction)
    reported = {"cover": {}, "names": {}}      # … of which the oracle produced a concrete failure
    mismatch = []
    excluded = 0
    for idx, s in enumerate(docs["sigs"]):
        d = drec(s)
        cand = [a for a in arecs.get(s["module"], []) if same_key(d, a)]
        m_cov = any(sig_matches(d, a) for a in cand)
        m_names = any(names_match(d, a) for a in cand)
        fails = real_probe(s, act, table)
        f_cov = [f for f in fails if f[0] == "cover"]
        f_names = [f for f in fails if f[0] == "names"]
        if m_cov != (not f_cov):
            mismatch.append(("covers", s, m_cov, [f[1] for f in f_cov]))
        elif not f_cov and m_names != (not f_names):
            mismatch.append(("names", s, m_names, [f[1] for f in f_names]))
        cov_known = bool(f_cov) and all(f[1] in known for f in f_cov)
        names_known = bool(f_names) and all(f[1] in known for f in f_names)
        in_cov = not cov_known
        # a known-missing entity also fails the name check (nothing to compare with): out of both tables
        in_names = not names_known and not (cov_known and not m_names)
        if not (in_cov and in_names):
            excluded += 1
        pg = pages.setdefault(s["page"], {"module": s["module"], "cov": [], "names": []})
        for fam, inc, ok in (("cover", in_cov, m_cov), ("names", in_names, m_names)):
            if inc:
                pg["cov" if fam == "cover" else "names"].append(d)
                if not ok:
                    exp_fail[fam][s["page"]] = exp_fail[fam].get(s["page"], 0) + 1
                    if fails:
                        reported[fam][s["page"]] = reported[fam].get(s["page"], 0) + 1
        for fam, key, what, extra in fails:
            if key not in known and key not in unknown_keys:
                if len(unknown_keys) >= MAX_VIOLATIONS:
                    continue
                unknown_keys.add(key)
            replay = {"module": s["module"], "class": s["cls"], "name": s["name"], "kind": s["kind"], "decorator": s["decorator"],
                      "documented": doc_text(s), "documented_params": [{k: p[k] for k in ("name", "has_default", "kwonly", "var")} for p in s["params"]],
                      "page": s["page"], "line": s["line"], "repo": repo,
                      "how": "sys.path[:0]=[repo]; import importlib, inspect; evaluate `expr` (x = object()); or api_inventory.replay(ctx, <this dict>)"}
            replay.update(extra)
            ctx.violation(key, what, replay)
        ctx.case(key="%s:%d" % (s["page"].replace("docs/reference/", ""), s["line"]), nontrivial=in_cov,
                 tag="api:" + s["kind"],
                 sample={"documented": doc_text(s), "module": s["module"], "class": s["cls"], "page": s["page"], "line": s["line"],
                         "verdict": "ok" if not fails else [f[1] for f in fails]} if idx % 487 == 3 else None)
    ctx.extra["documented_excluded_as_known"] = excluded
    if mismatch:
        which, s, mv, keys = mismatch[0]
        ctx.corr_break("api-table-vs-objects",
                       "the tables built from the sources (checked by the kernel) and the oracle on the imported objects disagree on %d documented signatures" % len(mismatch),
                       {"first": {"obligation": which, "documented": doc_text(s), "module": s["module"], "class": s["cls"], "page": s["page"],
                                  "line": s["line"], "table_says_ok": mv, "object_failures": keys}, "repo": repo})

    # 3. kernel obligations, one file per page, in parallel
    jobs = []
    for page in sorted(pages):
        pg = pages[page]
        if not pg["cov"] and not pg["names"]:
            continue                              # the whole page is a known finding (module missing)
        A = arecs.get(pg["module"], [])
        src, spans = lean_file(pg["module"], pg["cov"], pg["names"], A)
        nm = "ApiInv_" + re.sub(r"\W", "_", page.replace("docs/reference/", "")[:-3])
        jobs.append((page, nm, src, spans))
        # the linear pass must agree with the entry-by-entry verdicts (it would not if the actual table had duplicate keys)
        for fam, pred, recs in (("cover", sig_matches, pg["cov"]), ("names", names_match, pg["names"])):
            lin = merge_all(pred, sorted(recs, key=sort_key), sorted(A, key=sort_key))
            if lin != (not exp_fail[fam].get(page)):
                ctx.corr_break("api-linear-pass", "the linear pass over the sorted tables of %s disagrees with the entry-by-entry check (%s)" % (page, fam),
                               {"page": page, "linear": lin, "entries_failing": exp_fail[fam].get(page, 0), "repo": repo})
    def check(job):
        page, nm, src, spans = job
        t = time.time()
        ok, out = ctx.lean_check(nm, src, timeout=900)
        return page, nm, ok, out, spans, time.time() - t
    workers = max(1, min(16, (os.cpu_count() or 2)))
    tk = time.time()
    with ThreadPoolExecutor(max_workers=workers) as ex:
        results = list(ex.map(check, jobs))
    ctx.extra["kernel_wall_s"] = round(time.time() - tk, 1)
    ctx.extra["kernel_files"] = len(jobs)
    ctx.extra["kernel_slowest_file_s"] = round(max([r[5] for r in results] or [0]), 1)
    for page, nm, ok, out, spans, dt in results:
        bad_lines = [int(x) for x in re.findall(re.escape(nm) + r"\.lean:(\d+):\d+: error", out)]
        verdict = {}
        for th, (a, b) in spans.items():
            hit = any(a <= l <= b for l in bad_lines)
            verdict[th] = ok or (bool(bad_lines) and not hit and all(any(x <= l <= y for (x, y) in spans.values()) for l in bad_lines))
        for th in ("covers_ok", "names_ok"):
            ctx.obligation(verdict[th])
            fam = "cover" if th == "covers_ok" else "names"
            name = "api-covers" if fam == "cover" else "api-names"
            if not verdict[th] and not reported[fam].get(page):
                ctx.corr_break(name, "the kernel obligation %s for %s no longer checks but no documented signature fails on the imported objects" % (th, page),
                               {"page": page, "obligation": th, "lean_output": out[-1500:], "repo": repo})
            elif verdict[th] and exp_fail[fam].get(page):
                ctx.corr_break(name + "-mirror", "the kernel accepts %s for %s although the Python mirror of the checker rejects %d entries" % (th, page, exp_fail[fam][page]),
                               {"page": page, "obligation": th, "repo": repo})

    # 4. attributes (optional part; Python only, counted, not a kernel obligation)
    checked, missing = attr_check(docs, act)
    ctx.extra["documented_attributes_checked"] = checked
    ctx.extra["documented_attributes_not_found"] = len(missing)
    ctx.case(key="attrs", nontrivial=True, tag="api:attr", n=checked)
    if CHECK_ATTRS:
        for a in missing[:MAX_VIOLATIONS]:
            where = "%s.%s" % (a["module"], a["section"]) if a["section"] != "Global Constants" else a["module"]
            ctx.violation("api-attr-missing:%s:%s:%s" % (a["module"], a["section"] if a["section"] != "Global Constants" else "-", a["name"]),
                          "documented attribute `%s` (%s:%d) of %s is neither assigned in the class body / in a method through `self.%s = …` nor present on the imported object" % (
                              a["name"], a["page"], a["line"], where, a["name"]),
                          {"module": a["module"], "class": a["section"], "name": a["name"], "page": a["page"], "line": a["line"], "repo": repo,
                           "expr": "hasattr(%s, %r) or the name being assigned in the source of the class" % (where, a["name"]), "exception": "False"})
    ctx.extra["api_inventory_wall_s"] = round(time.time() - t0, 1)


def replay(ctx, obj):
    """re-run the oracle for a stored replay (dict as written by run). Returns 1 when it still fails."""
    repo = vf.REPO
    s = {"module": obj["module"], "cls": obj.get("class", ""), "name": obj["name"], "kind": obj["kind"],
         "decorator": obj.get("decorator", ""), "page": obj.get("page", "?"), "line": obj.get("line", 0),
         "params": [dict(p, type=None, default="…") for p in obj.get("documented_params", [])]}
    act = api_actual.collect(repo, [s["module"]])
    table = {}
    for a in act["sigs"]:
        table.setdefault((a["module"], a["cls"], a["name"]), []).append(a)
    fails = real_probe(s, act, table)
    for fam, key, what, extra in fails:
        print("%s\n  %s\n  %s -> %s" % (key, what, extra.get("expr"), extra.get("exception")))
    hit = [f for f in fails if f[1] == obj.get("key")]
    print("replay: %s" % ("still failing" if hit else "no longer failing (%d other failures)" % len(fails)))
    return 1 if hit else 0
