import NxModel.Prudp.C02Ports
/-! Lemmas on the port table: a `with ports.bind(...)` block restores the table however its body is left. -/
namespace Nx.Prudp.Ports

theorem leave_enter (t t' : Table) (port : Option Nat) (type k : Nat)
    (h : t.enter port type = .ok (t', k)) : t'.leave k = t := by
  unfold Table.enter at h
  cases port with
  | some p =>
    simp only [bind, Except.bind, pure, Except.pure] at h
    split at h
    · cases h
    · injection h with h; injection h with h1 h2
      subst h1; subst h2
      cases t; simp [Table.leave]
  | none =>
    simp only [bind, Except.bind, pure, Except.pure] at h
    cases ha : t.allocate type with
    | error e => simp [ha] at h
    | ok p =>
      simp only [ha] at h
      split at h
      · cases h
      · injection h with h; injection h with h1 h2
        subst h1; subst h2
        cases t; simp [Table.leave]

/-- however the body is left, the table after the block is the table before it -/
theorem block_restores (t : Table) (port : Option Nat) (type : Nat) (how : Exit) :
    (t.block port type how).1 = t := by
  unfold Table.block
  cases h : t.enter port type with
  | error e => rfl
  | ok r =>
    obtain ⟨t', k⟩ := r
    exact leave_enter t t' port type k h

/-- what a block yields does not depend on how earlier blocks were left: it is what the first block yields -/
theorem block_yield_indep (t : Table) (port : Option Nat) (type : Nat) (how how' : Exit) :
    (t.block port type how).2 = (t.block port type how').2 := by
  unfold Table.block
  cases t.enter port type <;> rfl

theorem blocks_restore (t : Table) (l : List (Option Nat × Nat × Exit)) : (t.blocks l).1 = t := by
  induction l with
  | nil => rfl
  | cons b rest ih =>
    obtain ⟨port, type, how⟩ := b
    simp only [Table.blocks]
    have h1 := block_restores t port type how
    cases hb : t.block port type how with
    | mk t' y =>
      rw [hb] at h1
      simp only at h1
      subst h1
      cases hr : Table.blocks t' rest with
      | mk t'' ys =>
        rw [hr] at ih
        exact ih

/-- every block of the sequence yields exactly what it would yield as the first block on that table -/
theorem blocks_yields (t : Table) (l : List (Option Nat × Nat × Exit)) :
    (t.blocks l).2 = l.map (fun b => (t.block b.1 b.2.1 b.2.2).2) := by
  induction l with
  | nil => rfl
  | cons b rest ih =>
    obtain ⟨port, type, how⟩ := b
    simp only [Table.blocks, List.map]
    have h1 := block_restores t port type how
    cases hb : t.block port type how with
    | mk t' y =>
      rw [hb] at h1
      simp only at h1
      subst h1
      cases hr : Table.blocks t' rest with
      | mk t'' ys =>
        rw [hr] at ih
        simp only at ih
        simp [ih]

theorem scan_free (bound : List Nat) (type n : Nat) (h : key n type ∉ bound) : scan bound type (n + 1) = some n := by
  simp [scan, h]

/-- a table with nothing bound and at least one port allocates its highest port -/
theorem allocate_empty (n type : Nat) : (Table.mk (n + 1) []).allocate type = .ok n := by
  simp [Table.allocate, scan]

end Nx.Prudp.Ports
